/- Helper lemmas for the differ model (C02). -/
import Atlas.Diff

namespace Atlas.Diff

variable {α κ χ : Type} [DecidableEq κ]

theorem find_key_self (key : α → κ) : ∀ (l : List α), (l.map key).Nodup → ∀ a ∈ l,
    l.find? (fun b => key b = key a) = some a := by
  intro l
  induction l with
  | nil => intro _ a h; cases h
  | cons x xs ih =>
    intro hn a ha
    rw [List.map_cons, List.nodup_cons] at hn
    rcases List.mem_cons.mp ha with rfl | hmem
    · simp [List.find?]
    · have hne : key x ≠ key a := by
        intro he
        exact hn.1 (he ▸ List.mem_map_of_mem hmem)
      simp only [List.find?, hne, decide_false]
      exact ih hn.2 a hmem

theorem find_key_none (key : α → κ) (l : List α) (k : κ) (h : k ∉ l.map key) :
    l.find? (fun b => key b = k) = none := by
  rw [List.find?_eq_none]
  intro b hb
  simp only [decide_eq_true_eq]
  intro he
  exact h (he ▸ List.mem_map_of_mem hb)

theorem any_key_mem (key : α → κ) (l : List α) (k : κ) : l.any (fun a => key a = k) = true ↔ k ∈ l.map key := by
  simp [List.any_eq_true, List.mem_map]

theorem filterMap_all_none {β : Type} (f : α → Option β) (l : List α) (h : ∀ a ∈ l, f a = none) :
    l.filterMap f = [] := by
  induction l with
  | nil => rfl
  | cons x xs ih =>
    rw [List.filterMap_cons, h x (List.mem_cons_self ..)]
    exact ih (fun a ha => h a (List.mem_cons_of_mem _ ha))

theorem filterMap_congr' {β : Type} (f g : α → Option β) (l : List α) (h : ∀ a ∈ l, f a = g a) :
    l.filterMap f = l.filterMap g := by
  induction l with
  | nil => rfl
  | cons x xs ih =>
    rw [List.filterMap_cons, List.filterMap_cons, h x (List.mem_cons_self ..), ih (fun a ha => h a (List.mem_cons_of_mem _ ha))]

/-- a `filterMap` in which exactly the element in the middle produces something. -/
theorem filterMap_single {β : Type} (f : α → Option β) (l₁ l₂ : List α) (a : α) (y : β)
    (h1 : ∀ x ∈ l₁, f x = none) (h2 : ∀ x ∈ l₂, f x = none) (ha : f a = some y) :
    (l₁ ++ a :: l₂).filterMap f = [y] := by
  rw [List.filterMap_append, filterMap_all_none f l₁ h1, List.filterMap_cons, ha, filterMap_all_none f l₂ h2]
  rfl

/-- **keyedDiff_perm**: a permutation of the same elements differs in nothing. -/
theorem keyedDiff_perm (key : α → κ) (chg : α → α → Option χ) (drop add : α → χ)
    (hc : ∀ a, chg a a = none) (l l' : List α) (hp : l'.Perm l) (hn : (l.map key).Nodup) :
    keyedDiff key chg drop add l l' = [] := by
  have hn' : (l'.map key).Nodup := (hp.map key).nodup_iff.mpr hn
  unfold keyedDiff
  rw [filterMap_all_none, filterMap_all_none]
  · rfl
  · intro b hb
    have : l.any (fun a => key a = key b) = true := by
      rw [any_key_mem]; exact List.mem_map_of_mem (hp.subset hb)
    simp [toStep, this]
  · intro a ha
    unfold fromStep
    rw [find_key_self key l' hn' a (hp.symm.subset ha)]
    exact hc a

theorem keyedDiff_self (key : α → κ) (chg : α → α → Option χ) (drop add : α → χ)
    (hc : ∀ a, chg a a = none) (l : List α) (hn : (l.map key).Nodup) :
    keyedDiff key chg drop add l l = [] :=
  keyedDiff_perm key chg drop add hc l l (List.Perm.refl _) hn

theorem nodup_mid (key : α → κ) (l₁ l₂ : List α) (a : α) (hn : ((l₁ ++ a :: l₂).map key).Nodup) :
    key a ∉ (l₁ ++ l₂).map key ∧ ((l₁ ++ l₂).map key).Nodup := by
  have hp : (l₁ ++ a :: l₂).Perm (a :: (l₁ ++ l₂)) := List.perm_middle
  have := (hp.map key).nodup_iff.mp hn
  rw [List.map_cons, List.nodup_cons] at this
  exact this

/-- **keyedDiff_add**: one element inserted anywhere ⇒ exactly one `add`. -/
theorem keyedDiff_add (key : α → κ) (chg : α → α → Option χ) (drop add : α → χ)
    (hc : ∀ a, chg a a = none) (l₁ l₂ : List α) (b : α) (hn : ((l₁ ++ b :: l₂).map key).Nodup) :
    keyedDiff key chg drop add (l₁ ++ l₂) (l₁ ++ b :: l₂) = [add b] := by
  obtain ⟨hb, hn0⟩ := nodup_mid key l₁ l₂ b hn
  unfold keyedDiff
  have hfirst : (l₁ ++ l₂).filterMap (fromStep key chg drop (l₁ ++ b :: l₂)) = [] := by
    apply filterMap_all_none
    intro a ha
    have hmem : a ∈ l₁ ++ b :: l₂ := by
      rcases List.mem_append.mp ha with h | h
      · exact List.mem_append_left _ h
      · exact List.mem_append_right _ (List.mem_cons_of_mem _ h)
    unfold fromStep
    rw [find_key_self key _ hn a hmem]
    exact hc a
  rw [hfirst, List.nil_append]
  apply filterMap_single
  · intro x hx
    have : (l₁ ++ l₂).any (fun a => key a = key x) = true := by
      rw [any_key_mem]; exact List.mem_map_of_mem (List.mem_append_left _ hx)
    simp [toStep, this]
  · intro x hx
    have : (l₁ ++ l₂).any (fun a => key a = key x) = true := by
      rw [any_key_mem]; exact List.mem_map_of_mem (List.mem_append_right _ hx)
    simp [toStep, this]
  · have : (l₁ ++ l₂).any (fun a => key a = key b) = false := by
      rw [Bool.eq_false_iff]; intro h; exact hb ((any_key_mem key _ _).mp h)
    simp [toStep, this]

/-- **keyedDiff_drop**: one element removed ⇒ exactly one `drop`. -/
theorem keyedDiff_drop (key : α → κ) (chg : α → α → Option χ) (drop add : α → χ)
    (hc : ∀ a, chg a a = none) (l₁ l₂ : List α) (a : α) (hn : ((l₁ ++ a :: l₂).map key).Nodup) :
    keyedDiff key chg drop add (l₁ ++ a :: l₂) (l₁ ++ l₂) = [drop a] := by
  obtain ⟨ha, hn0⟩ := nodup_mid key l₁ l₂ a hn
  unfold keyedDiff
  have hsecond : (l₁ ++ l₂).filterMap (toStep key add (l₁ ++ a :: l₂)) = [] := by
    apply filterMap_all_none
    intro b hb
    have hmem : b ∈ l₁ ++ a :: l₂ := by
      rcases List.mem_append.mp hb with h | h
      · exact List.mem_append_left _ h
      · exact List.mem_append_right _ (List.mem_cons_of_mem _ h)
    have : (l₁ ++ a :: l₂).any (fun x => key x = key b) = true := by
      rw [any_key_mem]; exact List.mem_map_of_mem hmem
    simp [toStep, this]
  rw [hsecond, List.append_nil]
  apply filterMap_single
  · intro x hx
    unfold fromStep
    rw [find_key_self key _ hn0 x (List.mem_append_left _ hx)]
    exact hc x
  · intro x hx
    unfold fromStep
    rw [find_key_self key _ hn0 x (List.mem_append_right _ hx)]
    exact hc x
  · unfold fromStep
    rw [find_key_none key _ _ ha]

/-- **keyedDiff_modify**: one element replaced by another with the same key ⇒ exactly its change. -/
theorem keyedDiff_modify (key : α → κ) (chg : α → α → Option χ) (drop add : α → χ)
    (hc : ∀ a, chg a a = none) (l₁ l₂ : List α) (a a' : α) (c : χ) (hk : key a' = key a)
    (hch : chg a a' = some c) (hn : ((l₁ ++ a :: l₂).map key).Nodup) :
    keyedDiff key chg drop add (l₁ ++ a :: l₂) (l₁ ++ a' :: l₂) = [c] := by
  have hn' : ((l₁ ++ a' :: l₂).map key).Nodup := by
    simpa [List.map_append, hk] using hn
  unfold keyedDiff
  have hsecond : (l₁ ++ a' :: l₂).filterMap (toStep key add (l₁ ++ a :: l₂)) = [] := by
    apply filterMap_all_none
    intro b hb
    have : key b ∈ (l₁ ++ a :: l₂).map key := by
      rcases List.mem_append.mp hb with h | h
      · exact List.mem_map_of_mem (List.mem_append_left _ h)
      · rcases List.mem_cons.mp h with rfl | h
        · rw [hk]; exact List.mem_map_of_mem (List.mem_append_right _ (List.mem_cons_self ..))
        · exact List.mem_map_of_mem (List.mem_append_right _ (List.mem_cons_of_mem _ h))
    have : (l₁ ++ a :: l₂).any (fun x => key x = key b) = true := (any_key_mem key _ _).mpr this
    simp [toStep, this]
  rw [hsecond, List.append_nil]
  apply filterMap_single
  · intro x hx
    unfold fromStep
    rw [find_key_self key _ hn' x (List.mem_append_left _ hx)]
    exact hc x
  · intro x hx
    unfold fromStep
    rw [find_key_self key _ hn' x (List.mem_append_right _ (List.mem_cons_of_mem _ hx))]
    exact hc x
  · have := find_key_self key _ hn' a' (List.mem_append_right _ (List.mem_cons_self ..))
    rw [hk] at this
    unfold fromStep
    rw [this]
    exact hch

end Atlas.Diff

namespace Atlas.Diff

variable {α κ χ : Type} [DecidableEq κ]

/-- empty diff for two lists whose elements correspond through a relation that implies "same key,
no change" (used for tables that are equal up to the order of their children). -/
theorem keyedDiff_rel (key : α → κ) (chg : α → α → Option χ) (drop add : α → χ) (R : α → α → Prop)
    (hR : ∀ a b, R a b → key a = key b ∧ chg a b = none) (frm to : List α)
    (h1 : ∀ a ∈ frm, ∃ b ∈ to, R a b) (h2 : ∀ b ∈ to, ∃ a ∈ frm, R a b) (hn : (to.map key).Nodup) :
    keyedDiff key chg drop add frm to = [] := by
  unfold keyedDiff
  rw [filterMap_all_none, filterMap_all_none]
  · rfl
  · intro b hb
    obtain ⟨a, ha, hab⟩ := h2 b hb
    have : frm.any (fun x => key x = key b) = true := by
      rw [any_key_mem]; rw [← (hR a b hab).1]; exact List.mem_map_of_mem ha
    simp [toStep, this]
  · intro a ha
    obtain ⟨b, hb, hab⟩ := h1 a ha
    unfold fromStep
    have := find_key_self key to hn b hb
    rw [(hR a b hab).1, this]
    exact (hR a b hab).2

/-! ### components of a table -/

theorem kinds_self (a : List Nat) : kinds a a = [] := by
  unfold kinds
  apply List.filter_eq_nil_iff.mpr
  intro i _
  simp

theorem colChange_self (a : Col) : colChange a a = none := by simp [colChange, kinds_self]

theorem fkChange_self (a : FK) : fkChange a a = none := by simp [fkChange]

theorem indexKinds_self (a : Idx) : indexKinds a a = [] := by simp [indexKinds]

theorem pkDiff_self (p : Option Idx) : pkDiff p p = [] := by
  cases p <;> simp [pkDiff, indexKinds_self]

theorem columnDiff_perm (l l' : List Col) (hp : l'.Perm l) (hn : (l.map Col.name).Nodup) : columnDiff l l' = [] :=
  keyedDiff_perm _ _ _ _ colChange_self l l' hp hn

theorem fkDiff_perm (l l' : List FK) (hp : l'.Perm l) (hn : (l.map FK.symbol).Nodup) : fkDiff l l' = [] :=
  keyedDiff_perm _ _ _ _ fkChange_self l l' hp hn

theorem indexLoop_perm (to : List Idx) (hn : (to.map Idx.name).Nodup) :
    ∀ l : List Idx, (∀ i ∈ l, i ∈ to) → indexLoop to l = ([], l) := by
  intro l
  induction l with
  | nil => intro _; rfl
  | cons i rest ih =>
    intro h
    have hi := h i (List.mem_cons_self ..)
    have ih' := ih (fun x hx => h x (List.mem_cons_of_mem _ hx))
    have hf : to.find? (fun j => j.name = i.name) = some i := find_key_self Idx.name to hn i hi
    simp only [indexLoop, ih', hf, indexKinds_self, List.isEmpty_nil, ↓reduceIte]

theorem indexDiff_perm (l l' : List Idx) (hp : l'.Perm l) (hn : (l.map Idx.name).Nodup) : indexDiff l l' = [] := by
  have hn' : (l'.map Idx.name).Nodup := (hp.map Idx.name).nodup_iff.mpr hn
  unfold indexDiff
  rw [indexLoop_perm l' hn' l (fun i hi => hp.symm.subset hi)]
  simp only [List.nil_append]
  apply filterMap_all_none
  intro j hj
  have hm : j ∈ l := hp.subset hj
  simp [hm]

theorem filterMap_nodup_inj {β : Type} (f : α → Option β) : ∀ (l : List α), (l.filterMap f).Nodup →
    ∀ x ∈ l, ∀ y ∈ l, ∀ b, f x = some b → f y = some b → x = y := by
  intro l
  induction l with
  | nil => intro _ x hx; cases hx
  | cons z zs ih =>
    intro hn x hx y hy b hfx hfy
    cases hz : f z with
    | none =>
      rw [List.filterMap_cons, hz] at hn
      rcases List.mem_cons.mp hx with rfl | hx'
      · rw [hz] at hfx; cases hfx
      · rcases List.mem_cons.mp hy with rfl | hy'
        · rw [hz] at hfy; cases hfy
        · exact ih hn x hx' y hy' b hfx hfy
    | some c =>
      rw [List.filterMap_cons, hz, List.nodup_cons] at hn
      rcases List.mem_cons.mp hx with rfl | hx'
      · rcases List.mem_cons.mp hy with rfl | hy'
        · rfl
        · exfalso
          rw [hz] at hfx; cases hfx
          exact hn.1 (List.mem_filterMap.mpr ⟨y, hy', hfy⟩)
      · rcases List.mem_cons.mp hy with rfl | hy'
        · exfalso
          rw [hz] at hfy; cases hfy
          exact hn.1 (List.mem_filterMap.mpr ⟨x, hx', hfx⟩)
        · exact ih hn.2 x hx' y hy' b hfx hfy

theorem checkMatch_self (c : Check) : checkMatch c c = true := by
  unfold checkMatch
  cases c.name <;> simp

/-- whatever check `c1` is matched with inside a list that contains it and has distinct constraint
names carries the same expression. -/
theorem checkMatch_expr (l : List Check) (hn : (l.filterMap Check.name).Nodup) (c1 c2 : Check)
    (h1 : c1 ∈ l) (h2 : c2 ∈ l) (hm : checkMatch c1 c2 = true) : c1.expr = c2.expr := by
  unfold checkMatch at hm
  cases hn1 : c1.name with
  | none => rw [hn1] at hm; simpa using hm
  | some a =>
    cases hn2 : c2.name with
    | none => rw [hn1, hn2] at hm; simpa using hm
    | some b =>
      rw [hn1, hn2] at hm
      have hab : a = b := by simpa using hm
      subst hab
      rw [filterMap_nodup_inj Check.name l hn c1 h1 c2 h2 a hn1 hn2]

theorem checksDiff_perm (l l' : List Check) (hp : l'.Perm l) (hn : (l.filterMap Check.name).Nodup) :
    checksDiff l l' = [] := by
  have hn' : (l'.filterMap Check.name).Nodup := (hp.filterMap Check.name).nodup_iff.mpr hn
  unfold checksDiff
  rw [filterMap_all_none, filterMap_all_none]
  · rfl
  · intro c hc
    have : l.any (checkMatch c) = true := by
      rw [List.any_eq_true]; exact ⟨c, hp.subset hc, checkMatch_self c⟩
    simp [this]
  · intro c1 hc1
    cases hf : l'.find? (checkMatch c1) with
    | none =>
      exfalso
      rw [List.find?_eq_none] at hf
      exact hf c1 (hp.symm.subset hc1) (checkMatch_self c1)
    | some c2 =>
      have hm := List.find?_some hf
      have h2 := List.mem_of_find?_eq_some hf
      have := checkMatch_expr l' hn' c1 c2 (hp.symm.subset hc1) h2 hm
      simp [this]

end Atlas.Diff

namespace Atlas.Diff
variable {α κ χ : Type} [DecidableEq κ]

/-- **mem_keyedDiff**: what a keyed diff contains, for lists with distinct keys: exactly a `drop`
for every element whose key disappeared, the change of every element whose key stayed and whose
content changed, an `add` for every new key. -/
theorem mem_keyedDiff (key : α → κ) (chg : α → α → Option χ) (drop add : α → χ) (frm to : List α)
    (hto : (to.map key).Nodup) (x : χ) :
    x ∈ keyedDiff key chg drop add frm to ↔
      (∃ a ∈ frm, key a ∉ to.map key ∧ x = drop a) ∨
      (∃ a ∈ frm, ∃ b ∈ to, key b = key a ∧ chg a b = some x) ∨
      (∃ b ∈ to, key b ∉ frm.map key ∧ x = add b) := by
  unfold keyedDiff
  rw [List.mem_append, List.mem_filterMap, List.mem_filterMap]
  constructor
  · rintro (⟨a, ha, hx⟩ | ⟨b, hb, hx⟩)
    · unfold fromStep at hx
      cases hf : to.find? (fun b => key b = key a) with
      | none =>
        rw [hf] at hx
        left
        refine ⟨a, ha, ?_, by simpa using hx.symm⟩
        intro hm
        obtain ⟨b, hb, hk⟩ := List.mem_map.mp hm
        rw [List.find?_eq_none] at hf
        exact hf b hb (by simpa using hk)
      | some b =>
        rw [hf] at hx
        right; left
        exact ⟨a, ha, b, List.mem_of_find?_eq_some hf, by simpa using List.find?_some hf, hx⟩
    · unfold toStep at hx
      split at hx
      · cases hx
      · rename_i hany
        right; right
        refine ⟨b, hb, ?_, by simpa using hx.symm⟩
        intro hm
        exact hany ((any_key_mem key frm (key b)).mpr hm)
  · rintro (⟨a, ha, hk, rfl⟩ | ⟨a, ha, b, hb, hk, hc⟩ | ⟨b, hb, hk, rfl⟩)
    · left
      refine ⟨a, ha, ?_⟩
      unfold fromStep
      rw [find_key_none key to (key a) hk]
    · left
      refine ⟨a, ha, ?_⟩
      unfold fromStep
      have := find_key_self key to hto b hb
      rw [hk] at this
      rw [this]; exact hc
    · right
      refine ⟨b, hb, ?_⟩
      unfold toStep
      have : frm.any (fun a => key a = key b) = false := by
        rw [Bool.eq_false_iff]; intro h; exact hk ((any_key_mem key frm (key b)).mp h)
      simp [this]

/-- every element contributes at most one change: the number of changes is the number of elements
that produce one. -/
theorem keyedDiff_length (key : α → κ) (chg : α → α → Option χ) (drop add : α → χ) (frm to : List α) :
    (keyedDiff key chg drop add frm to).length =
      (frm.filter (fun a => (fromStep key chg drop to a).isSome)).length +
      (to.filter (fun b => (toStep key add frm b).isSome)).length := by
  unfold keyedDiff
  rw [List.length_append]
  have h : ∀ {β γ : Type} (f : β → Option γ) (l : List β), (l.filterMap f).length = (l.filter (fun a => (f a).isSome)).length := by
    intro β γ f l
    induction l with
    | nil => rfl
    | cons x xs ih =>
      rw [List.filterMap_cons, List.filter_cons]
      cases hfx : f x with
      | none => simpa using ih
      | some y => simp [ih]
  rw [h, h]

end Atlas.Diff

namespace Atlas.Diff

/-- **mem_schemaDiff**: for ANY two schemas (the edited one with distinct table names) the diff
contains exactly: a DropTable per table whose name disappeared, an AddTable per new name, and for
every table present in both exactly its non-empty table diff — nothing else. -/
theorem mem_schemaDiff (s s' : List Table) (hs' : (s'.map Table.name).Nodup) (c : Change) :
    c ∈ schemaDiff s s' ↔
      (∃ t ∈ s, t.name ∉ s'.map Table.name ∧ c = .dropTable t.name) ∨
      (∃ t ∈ s, ∃ t' ∈ s', t'.name = t.name ∧ tableDiff t t' ≠ [] ∧ c = .modifyTable t'.name (tableDiff t t')) ∨
      (∃ t' ∈ s', t'.name ∉ s.map Table.name ∧ c = .addTable t'.name) := by
  unfold schemaDiff
  rw [mem_keyedDiff _ _ _ _ s s' hs']
  constructor
  · rintro (h | ⟨t, ht, t', ht', hn, hc⟩ | h)
    · exact Or.inl h
    · right; left
      refine ⟨t, ht, t', ht', hn, ?_⟩
      by_cases he : (tableDiff t t').isEmpty = true
      · simp [he] at hc
      · simp only [he] at hc
        refine ⟨by intro h0; apply he; simp [h0], ?_⟩
        simpa using hc.symm
    · exact Or.inr (Or.inr h)
  · rintro (h | ⟨t, ht, t', ht', hn, hne, rfl⟩ | h)
    · exact Or.inl h
    · right; left
      refine ⟨t, ht, t', ht', hn, ?_⟩
      have : (tableDiff t t').isEmpty = false := by
        cases h0 : tableDiff t t' with
        | nil => exact absurd h0 hne
        | cons _ _ => rfl
      simp [this]
    · exact Or.inr (Or.inr h)

/-- **mem_columnDiff**: likewise for the columns of a table. -/
theorem mem_columnDiff (cols cols' : List Col) (hn : (cols'.map Col.name).Nodup) (c : TChange) :
    c ∈ columnDiff cols cols' ↔
      (∃ a ∈ cols, a.name ∉ cols'.map Col.name ∧ c = .dropColumn a.name) ∨
      (∃ a ∈ cols, ∃ b ∈ cols', b.name = a.name ∧ kinds a.attrs b.attrs ≠ [] ∧ c = .modifyColumn a.name (kinds a.attrs b.attrs)) ∨
      (∃ b ∈ cols', b.name ∉ cols.map Col.name ∧ c = .addColumn b.name) := by
  unfold columnDiff
  rw [mem_keyedDiff _ _ _ _ cols cols' hn]
  constructor
  · rintro (h | ⟨a, ha, b, hb, hk, hc⟩ | h)
    · exact Or.inl h
    · right; left
      refine ⟨a, ha, b, hb, hk, ?_⟩
      unfold colChange at hc
      by_cases he : (kinds a.attrs b.attrs).isEmpty = true
      · simp [he] at hc
      · simp only [he] at hc
        exact ⟨by intro h0; apply he; simp [h0], by simpa using hc.symm⟩
    · exact Or.inr (Or.inr h)
  · rintro (h | ⟨a, ha, b, hb, hk, hne, rfl⟩ | h)
    · exact Or.inl h
    · right; left
      refine ⟨a, ha, b, hb, hk, ?_⟩
      have : (kinds a.attrs b.attrs).isEmpty = false := by
        cases h0 : kinds a.attrs b.attrs with
        | nil => exact absurd h0 hne
        | cons _ _ => rfl
      simp [colChange, this]
    · exact Or.inr (Or.inr h)

end Atlas.Diff
