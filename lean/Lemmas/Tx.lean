/- Helper lemmas for the transaction model (C10, C13). -/
import Atlas.Tx

namespace Atlas.Tx

/-! ### views -/

/-- effect of a write operation on the view of the connection that performs it. -/
def applyDb (d : Db) : Op → Db
  | .stmt f i => d.addStmt f i
  | .rev f r => d.setRev f r
  | _ => d

/-- operations that are not transaction control. -/
def Op.pure : Op → Bool
  | .begin | .commit | .rollback | .close => false
  | _ => true

theorem applyOps_nil (s : St) : applyOps s [] = s := rfl
theorem applyOps_cons (s : St) (o : Op) (ops : List Op) : applyOps s (o :: ops) = applyOps (applyOp s o) ops := rfl
theorem applyOps_append (s : St) (a b : List Op) : applyOps s (a ++ b) = applyOps (applyOps s a) b := by
  simp [applyOps, List.foldl_append]

theorem applyOp_pure_none (d : Db) (o : Op) (h : o.pure = true) :
    applyOp { dur := d, work := none } o = { dur := applyDb d o, work := none } := by
  cases o <;> simp_all [applyOp, applyDb, Op.pure, St.write]

theorem applyOp_pure_some (d w : Db) (o : Op) (h : o.pure = true) :
    applyOp { dur := d, work := some w } o = { dur := d, work := some (applyDb w o) } := by
  cases o <;> simp_all [applyOp, applyDb, Op.pure, St.write]

theorem applyOps_pure_none (ops : List Op) (h : ∀ o ∈ ops, o.pure = true) (d : Db) :
    applyOps { dur := d, work := none } ops = { dur := ops.foldl applyDb d, work := none } := by
  induction ops generalizing d with
  | nil => rfl
  | cons o os ih =>
    rw [applyOps_cons, applyOp_pure_none d o (h o (List.mem_cons_self ..)), ih (fun x hx => h x (List.mem_cons_of_mem _ hx))]
    rfl

theorem applyOps_pure_some (ops : List Op) (h : ∀ o ∈ ops, o.pure = true) (d w : Db) :
    applyOps { dur := d, work := some w } ops = { dur := d, work := some (ops.foldl applyDb w) } := by
  induction ops generalizing w with
  | nil => rfl
  | cons o os ih =>
    rw [applyOps_cons, applyOp_pure_some d w o (h o (List.mem_cons_self ..)), ih (fun x hx => h x (List.mem_cons_of_mem _ hx))]
    rfl

/-- a transaction block: its strict prefixes leave the durable state untouched, the whole block
applies its body. -/
theorem block_prefix (body : List Op) (h : ∀ o ∈ body, o.pure = true) (d : Db) (k : Nat)
    (hk : k ≤ body.length + 1) :
    (applyOps { dur := d, work := none } ((Op.begin :: body ++ [Op.commit]).take k)).dur = d := by
  cases k with
  | zero => rfl
  | succ k =>
    have hk' : k ≤ body.length := by omega
    have : (Op.begin :: body ++ [Op.commit]).take (k + 1) = Op.begin :: body.take k := by
      simp [List.take_append_of_le_length hk']
    rw [this, applyOps_cons]
    show (applyOps { dur := d, work := some d } (body.take k)).dur = d
    rw [applyOps_pure_some _ (fun o ho => h o (List.mem_of_mem_take ho))]

theorem block_full (body : List Op) (h : ∀ o ∈ body, o.pure = true) (d : Db) :
    applyOps { dur := d, work := none } (Op.begin :: body ++ [Op.commit]) =
      { dur := body.foldl applyDb d, work := none } := by
  rw [List.cons_append, applyOps_cons]
  show applyOps { dur := d, work := some d } (body ++ [Op.commit]) = _
  rw [applyOps_append, applyOps_pure_some _ h]
  rfl

/-! ### the operations of one file -/

/-- closed form of the statement loop when every statement succeeds. -/
def okOps (fi total : Nat) : Nat → Nat → List Op
  | _, 0 => []
  | i, n + 1 => Op.stmt fi i :: Op.rev fi ⟨i + 1, total, false⟩ :: okOps fi total (i + 1) n

theorem stmtOps_allTrue (fi total : Nat) : ∀ (l : List Bool) (i : Nat), (∀ b ∈ l, b = true) →
    stmtOps fi total i l = (okOps fi total i l.length, true) := by
  intro l
  induction l with
  | nil => intro i _; rfl
  | cons b bs ih =>
    intro i h
    have hb : b = true := h b (List.mem_cons_self ..)
    subst hb
    simp only [stmtOps, List.length_cons, okOps]
    rw [ih (i + 1) (fun x hx => h x (List.mem_cons_of_mem _ hx))]

/-- operations of `Execute` on a file of `m` succeeding statements, `a` of which are recorded. -/
def body (fi m a : Nat) : List Op :=
  Op.rev fi ⟨a, m, false⟩ :: okOps fi m a (m - a) ++ [Op.rev fi ⟨m, m, false⟩]

theorem okOps_pure (fi total : Nat) : ∀ (n i : Nat), ∀ o ∈ okOps fi total i n, o.pure = true := by
  intro n
  induction n with
  | zero => intro i o h; cases h
  | succ n ih =>
    intro i o h
    simp only [okOps, List.mem_cons] at h
    rcases h with rfl | rfl | h
    · rfl
    · rfl
    · exact ih _ o h

theorem body_pure (fi m a : Nat) : ∀ o ∈ body fi m a, o.pure = true := by
  intro o h
  simp only [body, List.mem_append, List.mem_cons, List.mem_singleton, List.not_mem_nil, or_false] at h
  rcases h with (rfl | h) | rfl
  · rfl
  · exact okOps_pure _ _ _ _ o h
  · rfl

def TFile.AllOk (f : TFile) : Prop := f.directive = none ∧ ∀ b ∈ f.ok, b = true
def AllOk (dir : List TFile) : Prop := ∀ f ∈ dir, f.AllOk

theorem fileOps_fresh (db : Db) (fi : Nat) (f : TFile) (hf : f.AllOk) (hn : db.revs[fi]? = none) :
    fileOps db fi f = (body fi f.ok.length 0, true) := by
  simp only [fileOps, startRev, hn, Option.getD_none, List.drop_zero]
  rw [stmtOps_allTrue _ _ _ _ hf.2]
  simp [body]

theorem fileOps_resume (db : Db) (fi : Nat) (f : TFile) (hf : f.AllOk) (a : Nat)
    (hn : db.revs[fi]? = some ⟨a, f.ok.length, false⟩) :
    fileOps db fi f = (body fi f.ok.length a, true) := by
  simp only [fileOps, startRev, hn, Option.getD_some]
  rw [stmtOps_allTrue _ _ _ _ (fun b hb => hf.2 b (List.mem_of_mem_drop hb))]
  simp [body]

/-! ### effects on a view -/

theorem setRev_fresh (J : List (Nat × Nat)) (pre : List Rev) (r : Rev) :
    ({ journal := J, revs := pre } : Db).setRev pre.length r = { journal := J, revs := pre ++ [r] } := by
  simp [Db.setRev]

theorem setRev_last (J : List (Nat × Nat)) (pre : List Rev) (x r : Rev) :
    ({ journal := J, revs := pre ++ [x] } : Db).setRev pre.length r = { journal := J, revs := pre ++ [r] } := by
  simp [Db.setRev, List.set_append]

theorem okOps_effect (total : Nat) (pre : List Rev) : ∀ (n i : Nat) (J : List (Nat × Nat)) (r : Rev),
    (okOps pre.length total i n).foldl applyDb { journal := J, revs := pre ++ [r] } =
      { journal := J ++ (List.range' i n).map (fun x => (pre.length, x)),
        revs := pre ++ [if n = 0 then r else ⟨i + n, total, false⟩] } := by
  intro n
  induction n with
  | zero => intro i J r; simp [okOps]
  | succ n ih =>
    intro i J r
    simp only [okOps, List.foldl_cons, applyDb, Db.addStmt]
    rw [setRev_last, ih]
    congr 1
    · simp [List.range'_succ]
    · congr 2
      by_cases hn : n = 0
      · subst hn; simp
      · simp [hn]; omega

theorem body_effect_fresh (m : Nat) (pre : List Rev) (J : List (Nat × Nat)) :
    (body pre.length m 0).foldl applyDb { journal := J, revs := pre } =
      { journal := J ++ (List.range m).map (fun x => (pre.length, x)), revs := pre ++ [⟨m, m, false⟩] } := by
  simp only [body, List.cons_append, List.foldl_cons, List.foldl_append, List.foldl_nil, applyDb]
  rw [setRev_fresh, okOps_effect, setRev_last]
  simp [List.range_eq_range']

theorem body_effect_resume (m a : Nat) (pre : List Rev) (J : List (Nat × Nat)) (x : Rev) :
    (body pre.length m a).foldl applyDb { journal := J, revs := pre ++ [x] } =
      { journal := J ++ (List.range' a (m - a)).map (fun i => (pre.length, i)), revs := pre ++ [⟨m, m, false⟩] } := by
  simp only [body, List.cons_append, List.foldl_cons, List.foldl_append, List.foldl_nil, applyDb]
  rw [setRev_last, okOps_effect, setRev_last]

/-! ### completely applied files -/

/-- the database after one more completely applied file (its index is the number of revision rows). -/
def applyFile (d : Db) (f : TFile) : Db :=
  { journal := d.journal ++ (List.range f.ok.length).map (fun x => (d.revs.length, x)),
    revs := d.revs ++ [⟨f.ok.length, f.ok.length, false⟩] }

def applyFiles (d : Db) : List TFile → Db
  | [] => d
  | f :: rest => applyFiles (applyFile d f) rest

theorem applyFiles_append (d : Db) (a b : List TFile) : applyFiles d (a ++ b) = applyFiles (applyFiles d a) b := by
  induction a generalizing d with
  | nil => rfl
  | cons f fs ih => exact ih _

theorem applyFiles_revs (d : Db) (l : List TFile) :
    (applyFiles d l).revs = d.revs ++ l.map (fun f => ⟨f.ok.length, f.ok.length, false⟩) := by
  induction l generalizing d with
  | nil => simp [applyFiles]
  | cons f fs ih => simp [applyFiles, ih, applyFile]

theorem applyFiles_revs_length (d : Db) (l : List TFile) : (applyFiles d l).revs.length = d.revs.length + l.length := by
  simp [applyFiles_revs]

theorem body_effect_file (d : Db) (f : TFile) :
    (body d.revs.length f.ok.length 0).foldl applyDb d = applyFile d f := by
  have := body_effect_fresh f.ok.length d.revs d.journal
  simpa [applyFile] using this

theorem pendingStart_applyFiles (l : List TFile) : pendingStart (applyFiles {} l) = l.length := by
  unfold pendingStart
  rw [applyFiles_revs]
  simp only [List.nil_append, List.length_map]
  cases h : (l.map (fun f => (⟨f.ok.length, f.ok.length, false⟩ : Rev))).getLast? with
  | none =>
    rw [List.getLast?_eq_none_iff] at h
    simp at h
    subst h; rfl
  | some r =>
    have hm := List.mem_of_getLast? h
    rw [List.mem_map] at hm
    obtain ⟨f, _, rfl⟩ := hm
    simp

/-! ### file mode -/

/-- the plan of the pending files in file mode: one transaction block per file. -/
def blocks : Nat → List TFile → List Op
  | _, [] => []
  | fi, f :: rest => (Op.begin :: body fi f.ok.length 0 ++ [Op.commit]) ++ blocks (fi + 1) rest

theorem modeFor_allOk (cfg : Cfg) (f : TFile) (hf : f.AllOk) : modeFor cfg f = some cfg.mode := by
  simp [modeFor, hf.1]

theorem planFiles_file (cfg : Cfg) (hm : cfg.mode = .file) (db0 : Db) :
    ∀ (rest : List TFile) (fi : Nat), AllOk rest → db0.revs.length ≤ fi →
      planFiles cfg db0 false fi rest = (blocks fi rest, true) := by
  intro rest
  induction rest with
  | nil => intro fi _ _; rfl
  | cons f fs ih =>
    intro fi h hle
    have hf : f.AllOk := h f (List.mem_cons_self ..)
    have hfresh : db0.revs[fi]? = none := List.getElem?_eq_none (by omega)
    have ih' := ih (fi + 1) (fun x hx => h x (List.mem_cons_of_mem _ hx)) (by omega)
    have hc : (if cfg.fixed = true then true else decide True) = true := by simp
    simp only [planFiles, modeFor_allOk cfg f hf, hm, fileOps_fresh db0 fi f hf hfresh]
    simp only [hc, Bool.not_true, ih', blocks, ite_true, List.cons_append, List.append_assoc]
    simp

theorem blocks_full : ∀ (rest : List TFile) (d : Db),
    applyOps { dur := d, work := none } (blocks d.revs.length rest) = { dur := applyFiles d rest, work := none } := by
  intro rest
  induction rest with
  | nil => intro d; rfl
  | cons f fs ih =>
    intro d
    simp only [blocks]
    rw [applyOps_append, block_full _ (body_pure _ _ _), body_effect_file]
    have : (applyFile d f).revs.length = d.revs.length + 1 := by simp [applyFile]
    rw [← this, ih]
    rfl

theorem blocks_crash : ∀ (rest : List TFile) (d : Db) (k : Nat),
    ∃ t, t ≤ rest.length ∧
      (applyOps { dur := d, work := none } ((blocks d.revs.length rest).take k)).dur = applyFiles d (rest.take t) := by
  intro rest
  induction rest with
  | nil => intro d k; exact ⟨0, Nat.le_refl _, by simp [blocks, applyOps, applyFiles]⟩
  | cons f fs ih =>
    intro d k
    simp only [blocks]
    by_cases hk : k ≤ (body d.revs.length f.ok.length 0).length + 1
    · refine ⟨0, Nat.zero_le _, ?_⟩
      rw [List.take_append_of_le_length (by simp; omega)]
      rw [block_prefix _ (body_pure _ _ _) d k hk]
      rfl
    · have hlen : (Op.begin :: body d.revs.length f.ok.length 0 ++ [Op.commit]).length ≤ k := by simp; omega
      rw [List.take_append (l₁ := (Op.begin :: body d.revs.length f.ok.length 0 ++ [Op.commit]))]
      rw [List.take_of_length_le hlen, applyOps_append, block_full _ (body_pure _ _ _), body_effect_file]
      have : (applyFile d f).revs.length = d.revs.length + 1 := by simp [applyFile]
      rw [← this]
      obtain ⟨t, ht, he⟩ := ih (applyFile d f) (k - (Op.begin :: body d.revs.length f.ok.length 0 ++ [Op.commit]).length)
      exact ⟨t + 1, by simp; omega, by rw [he]; rfl⟩

/-! ### all mode -/

def bodies : Nat → List TFile → List Op
  | _, [] => []
  | fi, f :: rest => body fi f.ok.length 0 ++ bodies (fi + 1) rest

theorem planFiles_all_open (cfg : Cfg) (hm : cfg.mode = .all) (db0 : Db) :
    ∀ (rest : List TFile) (fi : Nat), AllOk rest → db0.revs.length ≤ fi →
      planFiles cfg db0 true fi rest = (bodies fi rest ++ [Op.commit], true) := by
  intro rest
  induction rest with
  | nil => intro fi _ _; rfl
  | cons f fs ih =>
    intro fi h hle
    have hf : f.AllOk := h f (List.mem_cons_self ..)
    have hfresh : db0.revs[fi]? = none := List.getElem?_eq_none (by omega)
    have ih' := ih (fi + 1) (fun x hx => h x (List.mem_cons_of_mem _ hx)) (by omega)
    simp only [planFiles, modeFor_allOk cfg f hf, hm, fileOps_fresh db0 fi f hf hfresh, ih']
    simp [bodies]

theorem planFiles_all (cfg : Cfg) (hm : cfg.mode = .all) (db0 : Db) (f : TFile) (fs : List TFile) (fi : Nat)
    (h : AllOk (f :: fs)) (hle : db0.revs.length ≤ fi) :
    planFiles cfg db0 false fi (f :: fs) = (Op.begin :: bodies fi (f :: fs) ++ [Op.commit], true) := by
  have hf : f.AllOk := h f (List.mem_cons_self ..)
  have hfresh : db0.revs[fi]? = none := List.getElem?_eq_none (by omega)
  have h' := planFiles_all_open cfg hm db0 fs (fi + 1) (fun x hx => h x (List.mem_cons_of_mem _ hx)) (by omega)
  simp only [planFiles, modeFor_allOk cfg f hf, hm, fileOps_fresh db0 fi f hf hfresh, h']
  simp [bodies]

theorem bodies_pure : ∀ (rest : List TFile) (fi : Nat), ∀ o ∈ bodies fi rest, o.pure = true := by
  intro rest
  induction rest with
  | nil => intro fi o h; cases h
  | cons f fs ih =>
    intro fi o h
    simp only [bodies, List.mem_append] at h
    rcases h with h | h
    · exact body_pure _ _ _ o h
    · exact ih _ o h

theorem bodies_effect : ∀ (rest : List TFile) (d : Db),
    (bodies d.revs.length rest).foldl applyDb d = applyFiles d rest := by
  intro rest
  induction rest with
  | nil => intro d; rfl
  | cons f fs ih =>
    intro d
    simp only [bodies, List.foldl_append, body_effect_file]
    have : (applyFile d f).revs.length = d.revs.length + 1 := by simp [applyFile]
    rw [← this, ih]
    rfl

/-- all mode: the durable state after any prefix of the run is the initial or the final one. -/
theorem all_crash (rest : List TFile) (d : Db) (k : Nat) :
    (applyOps { dur := d, work := none } ((Op.begin :: bodies d.revs.length rest ++ [Op.commit]).take k)).dur = d ∨
    (applyOps { dur := d, work := none } ((Op.begin :: bodies d.revs.length rest ++ [Op.commit]).take k)).dur = applyFiles d rest := by
  by_cases hk : k ≤ (bodies d.revs.length rest).length + 1
  · left; exact block_prefix _ (bodies_pure _ _) d k hk
  · right
    rw [List.take_of_length_le (by simp; omega), block_full _ (bodies_pure _ _), bodies_effect]

/-! ### none mode -/

theorem planFiles_none (cfg : Cfg) (hm : cfg.mode = .none) (db0 : Db) :
    ∀ (rest : List TFile) (fi : Nat), AllOk rest → db0.revs.length ≤ fi →
      planFiles cfg db0 false fi rest = (bodies fi rest, true) := by
  intro rest
  induction rest with
  | nil => intro fi _ _; rfl
  | cons f fs ih =>
    intro fi h hle
    have hf : f.AllOk := h f (List.mem_cons_self ..)
    have hfresh : db0.revs[fi]? = none := List.getElem?_eq_none (by omega)
    have ih' := ih (fi + 1) (fun x hx => h x (List.mem_cons_of_mem _ hx)) (by omega)
    simp only [planFiles, modeFor_allOk cfg f hf, hm, fileOps_fresh db0 fi f hf hfresh, ih']
    simp [bodies]

theorem planFiles_none_resume (cfg : Cfg) (hm : cfg.mode = .none) (db0 : Db) (f : TFile) (fs : List TFile)
    (fi a : Nat) (h : AllOk (f :: fs)) (hlen : db0.revs.length = fi + 1)
    (hr : db0.revs[fi]? = some ⟨a, f.ok.length, false⟩) :
    planFiles cfg db0 false fi (f :: fs) = (body fi f.ok.length a ++ bodies (fi + 1) fs, true) := by
  have hf : f.AllOk := h f (List.mem_cons_self ..)
  have h' := planFiles_none cfg hm db0 fs (fi + 1) (fun x hx => h x (List.mem_cons_of_mem _ hx)) (by omega)
  simp only [planFiles, modeFor_allOk cfg f hf, hm, fileOps_resume db0 fi f hf a hr, h']
  simp

/-- file partially applied on top of `d`: `i` statements executed, `a` of them recorded. -/
def partFile (d : Db) (i a m : Nat) : Db :=
  { journal := d.journal ++ (List.range i).map (fun x => (d.revs.length, x)), revs := d.revs ++ [⟨a, m, false⟩] }

theorem partFile_complete (d : Db) (f : TFile) : partFile d f.ok.length f.ok.length f.ok.length = applyFile d f := rfl

theorem okOps_prefix (total : Nat) (pre : List Rev) : ∀ (n i0 : Nat) (J : List (Nat × Nat)) (k : Nat),
    ∃ c a, ((okOps pre.length total i0 n).take k).foldl applyDb { journal := J, revs := pre ++ [⟨i0, total, false⟩] } =
        { journal := J ++ (List.range' i0 c).map (fun x => (pre.length, x)), revs := pre ++ [⟨a, total, false⟩] } ∧
      a ≤ i0 + c ∧ i0 + c ≤ a + 1 ∧ c ≤ n ∧ i0 ≤ a := by
  intro n
  induction n with
  | zero => intro i0 J k; exact ⟨0, i0, by simp [okOps], by omega, by omega, by omega, by omega⟩
  | succ n ih =>
    intro i0 J k
    match k with
    | 0 => exact ⟨0, i0, by simp, by omega, by omega, by omega, by omega⟩
    | 1 =>
      refine ⟨1, i0, ?_, by omega, by omega, by omega, by omega⟩
      simp [okOps, applyDb, Db.addStmt]
    | k + 2 =>
      obtain ⟨c, a, he, h1, h2, h3, h4⟩ := ih (i0 + 1) (J ++ [(pre.length, i0)]) k
      refine ⟨c + 1, a, ?_, by omega, by omega, by omega, by omega⟩
      simp only [okOps, List.take_succ_cons, List.foldl_cons, applyDb, Db.addStmt]
      rw [setRev_last, he]
      simp [List.range'_succ]

/-- none mode, fresh file: after any prefix of its operations the view is `d` itself or the file
partially applied with at most one executed statement not yet recorded. -/
theorem body_prefix (d : Db) (m k : Nat) :
    ((body d.revs.length m 0).take k).foldl applyDb d = d ∨
    ∃ i a, ((body d.revs.length m 0).take k).foldl applyDb d = partFile d i a m ∧ a ≤ i ∧ i ≤ a + 1 ∧ i ≤ m := by
  match k with
  | 0 => left; rfl
  | k + 1 =>
    right
    have hd : d = { journal := d.journal, revs := d.revs } := rfl
    simp only [body, List.cons_append, List.take_succ_cons, List.foldl_cons, applyDb, Nat.sub_zero]
    rw [hd, setRev_fresh]
    by_cases hk : k ≤ (okOps d.revs.length m 0 m).length
    · rw [List.take_append_of_le_length hk]
      obtain ⟨c, a, he, h1, h2, h3, _⟩ := okOps_prefix m d.revs m 0 d.journal k
      refine ⟨c, a, ?_, by omega, by omega, by omega⟩
      rw [he]
      simp [partFile, List.range_eq_range']
    · refine ⟨m, m, ?_, by omega, by omega, by omega⟩
      rw [List.take_of_length_le (by simp; omega), List.foldl_append, okOps_effect]
      simp only [List.foldl_cons, List.foldl_nil, applyDb]
      rw [setRev_last]
      simp [partFile, List.range_eq_range']

theorem bodies_crash : ∀ (rest : List TFile) (d : Db) (k : Nat),
    ∃ t, t ≤ rest.length ∧
      (((bodies d.revs.length rest).take k).foldl applyDb d = applyFiles d (rest.take t) ∨
       ∃ f i a, rest[t]? = some f ∧ a ≤ i ∧ i ≤ a + 1 ∧ i ≤ f.ok.length ∧
         ((bodies d.revs.length rest).take k).foldl applyDb d = partFile (applyFiles d (rest.take t)) i a f.ok.length) := by
  intro rest
  induction rest with
  | nil => intro d k; exact ⟨0, Nat.le_refl _, Or.inl (by simp [bodies, applyFiles])⟩
  | cons f fs ih =>
    intro d k
    simp only [bodies]
    by_cases hk : k ≤ (body d.revs.length f.ok.length 0).length
    · rw [List.take_append_of_le_length hk]
      refine ⟨0, Nat.zero_le _, ?_⟩
      rcases body_prefix d f.ok.length k with h | ⟨i, a, he, h1, h2, h3⟩
      · left; rw [h]; rfl
      · right; exact ⟨f, i, a, rfl, h1, h2, h3, by rw [he]; rfl⟩
    · rw [List.take_append, List.take_of_length_le (by omega), List.foldl_append, body_effect_file]
      have hl : (applyFile d f).revs.length = d.revs.length + 1 := by simp [applyFile]
      rw [← hl]
      obtain ⟨t, ht, h⟩ := ih (applyFile d f) (k - (body d.revs.length f.ok.length 0).length)
      refine ⟨t + 1, by simp; omega, ?_⟩
      rcases h with h | ⟨g, i, a, hg, h1, h2, h3, he⟩
      · left; rw [h]; rfl
      · right; exact ⟨g, i, a, by simpa using hg, h1, h2, h3, by rw [he]; rfl⟩

/-- journal rows contributed by completely applying `l`, the first file having index `fi`. -/
def jrn : Nat → List TFile → List (Nat × Nat)
  | _, [] => []
  | fi, f :: rest => (List.range f.ok.length).map (fun x => (fi, x)) ++ jrn (fi + 1) rest

theorem applyFiles_eq (d : Db) (l : List TFile) :
    applyFiles d l = { journal := d.journal ++ jrn d.revs.length l,
                       revs := d.revs ++ l.map (fun f => ⟨f.ok.length, f.ok.length, false⟩) } := by
  induction l generalizing d with
  | nil => simp [applyFiles, jrn]
  | cons f fs ih => rw [applyFiles, ih]; simp [applyFile, jrn]

theorem range_split (i a m : Nat) (h1 : a ≤ i) (h2 : i ≤ a + 1) (h3 : i ≤ m) (h4 : a < m) :
    ∃ extra : List Nat, extra.length ≤ 1 ∧ (∀ x ∈ extra, x = a) ∧
      List.range' a (m - a) = extra ++ List.range' i (m - i) ∧
      List.range m = List.range i ++ List.range' i (m - i) := by
  have hm : List.range m = List.range i ++ List.range' i (m - i) := by
    rw [List.range_eq_range', List.range_eq_range']
    have := List.range'_append (s := 0) (m := i) (n := m - i) (step := 1)
    simp only [Nat.one_mul, Nat.zero_add] at this
    rw [this]; congr 1; omega
  by_cases hi : i = a
  · subst hi
    exact ⟨[], by simp, by simp, by simp, hm⟩
  · have hi' : i = a + 1 := by omega
    subst hi'
    refine ⟨[a], by simp, by simp, ?_, hm⟩
    have : m - a = (m - (a + 1)) + 1 := by omega
    rw [this, List.range'_succ]
    rfl

/-- none mode: resuming a partially applied file (and applying the remaining ones). -/
theorem resume_effect (D : Db) (m : Nat) (rest : List TFile) (i a : Nat) :
    (body D.revs.length m a ++ bodies (D.revs.length + 1) rest).foldl applyDb (partFile D i a m) =
      { journal := D.journal ++ (List.range i).map (fun x => (D.revs.length, x)) ++
                   (List.range' a (m - a)).map (fun x => (D.revs.length, x)) ++ jrn (D.revs.length + 1) rest,
        revs := D.revs ++ [⟨m, m, false⟩] ++ rest.map (fun f => ⟨f.ok.length, f.ok.length, false⟩) } := by
  rw [List.foldl_append]
  unfold partFile
  rw [body_effect_resume]
  have hl : ({ journal := D.journal ++ (List.range i).map (fun x => (D.revs.length, x)) ++
      (List.range' a (m - a)).map (fun x => (D.revs.length, x)), revs := D.revs ++ [⟨m, m, false⟩] } : Db).revs.length
      = D.revs.length + 1 := by simp
  rw [← hl, bodies_effect, applyFiles_eq]

theorem applyFiles_cons_eq (D : Db) (f : TFile) (rest : List TFile) :
    applyFiles D (f :: rest) =
      { journal := D.journal ++ (List.range f.ok.length).map (fun x => (D.revs.length, x)) ++ jrn (D.revs.length + 1) rest,
        revs := D.revs ++ [⟨f.ok.length, f.ok.length, false⟩] ++ rest.map (fun f => ⟨f.ok.length, f.ok.length, false⟩) } := by
  rw [applyFiles, applyFiles_eq]
  simp [applyFile]

theorem mem_jrn : ∀ (l : List TFile) (fi f : Nat) (g : TFile) (i : Nat), l[f]? = some g → i < g.ok.length →
    (fi + f, i) ∈ jrn fi l := by
  intro l
  induction l with
  | nil => intro fi f g i h; simp at h
  | cons x xs ih =>
    intro fi f g i h hi
    simp only [jrn, List.mem_append, List.mem_map, List.mem_range]
    cases f with
    | zero =>
      simp at h; subst h
      exact Or.inl ⟨i, hi, rfl⟩
    | succ f =>
      simp at h
      have := ih (fi + 1) f g i h hi
      right
      have he : fi + (f + 1) = fi + 1 + f := by omega
      rw [he]; exact this

/-- completely applied files: every recorded statement has its effect. -/
theorem applyFiles_rev_le (l : List TFile) (f : Nat) (r : Rev) (hr : (applyFiles {} l).revs[f]? = some r)
    (i : Nat) (hi : i < r.applied) : (f, i) ∈ (applyFiles {} l).journal := by
  rw [applyFiles_eq] at hr ⊢
  simp only [List.nil_append, List.getElem?_map, Option.map_eq_some_iff] at hr ⊢
  obtain ⟨g, hg, rfl⟩ := hr
  have := mem_jrn l 0 f g i hg hi
  simpa using this

theorem partFile_rev_le (D : Db)
    (hD : ∀ f r, D.revs[f]? = some r → ∀ i, i < r.applied → (f, i) ∈ D.journal) (n a m : Nat) (h1 : a ≤ n) :
    ∀ f r, (partFile D n a m).revs[f]? = some r → ∀ i, i < r.applied → (f, i) ∈ (partFile D n a m).journal := by
  intro f r hr i hi
  simp only [partFile, List.getElem?_append] at hr ⊢
  by_cases hfl : f < D.revs.length
  · rw [if_pos hfl] at hr
    exact List.mem_append_left _ (hD f r hr i hi)
  · rw [if_neg hfl] at hr
    match hj : f - D.revs.length, hr with
    | 0, hr =>
      simp at hr; subst hr
      have : f = D.revs.length := by omega
      subst this
      exact List.mem_append_right _ (List.mem_map.mpr ⟨i, by simp at hi ⊢; omega, rfl⟩)
    | j + 1, hr => simp at hr

end Atlas.Tx
