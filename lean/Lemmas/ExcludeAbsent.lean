/-
`ExcludeRealm` (sql/schema/exclude_oss.go): what a pattern removed stays removed. Facts about `mapFilterE`,
`excludeS` and the fold over the patterns that the "excluded resources are absent" theorems need.
-/
import Atlas.Exclude

namespace Atlas.Exclude

theorem mapFilterE_mem {α : Type} (f : α → Except Unit (Option α)) :
    ∀ (l r : List α), mapFilterE f l = .ok r → ∀ a' ∈ r, ∃ a ∈ l, f a = .ok (some a') := by
  intro l
  induction l with
  | nil => intro r h a' ha'; simp [mapFilterE] at h; subst h; cases ha'
  | cons a as ih =>
    intro r h a' ha'
    unfold mapFilterE at h
    cases hf : f a with
    | error e => rw [hf] at h; cases h
    | ok x =>
      rw [hf] at h
      simp only at h
      cases hr : mapFilterE f as with
      | error e => rw [hr] at h; cases h
      | ok rest =>
        rw [hr] at h
        simp only [Except.ok.injEq] at h
        subst h
        cases x with
        | none =>
          obtain ⟨b, hb, hfb⟩ := ih rest hr a' ha'
          exact ⟨b, List.mem_cons_of_mem _ hb, hfb⟩
        | some y =>
          rcases List.mem_cons.mp ha' with rfl | hmem
          · exact ⟨a, List.mem_cons_self .., hf⟩
          · obtain ⟨b, hb, hfb⟩ := ih rest hr a' hmem
            exact ⟨b, List.mem_cons_of_mem _ hb, hfb⟩

/-- `excludeT` keeps the table's name. -/
theorem excludeT_name (t t' : Table) (p : Text) (h : excludeT t p = .ok t') : t'.name = t.name := by
  unfold excludeT at h
  simp only [bind, Except.bind, pure, Except.pure] at h
  repeat' split at h
  all_goals (cases h <;> rfl)

/-- the per-table step of `excludeS`. -/
def tableStep (pt : Text) (glob : List Text) (t : Table) : Except Unit (Option Table) := do
  let m ← gmatch pt t.name
  if m then
    (match glob with
      | [_] => pure none
      | _ :: g1 :: _ => (do let t' ← excludeT t g1; pure (some t'))
      | [] => pure (some t))
  else pure (some t)

theorem tableStep_name (pt : Text) (glob : List Text) (t t' : Table) (h : tableStep pt glob t = .ok (some t')) :
    t'.name = t.name := by
  unfold tableStep at h
  simp only [bind, Except.bind, pure, Except.pure] at h
  cases hm : gmatch pt t.name with
  | error e => rw [hm] at h; cases h
  | ok m =>
    rw [hm] at h
    simp only at h
    cases m with
    | false => simp at h; rw [h]
    | true =>
      simp only [if_true] at h
      match glob, h with
      | [_], h => cases h
      | _ :: g1 :: _, h =>
        simp only at h
        cases ht : excludeT t g1 with
        | error e => rw [ht] at h; cases h
        | ok t1 =>
          rw [ht] at h
          simp only [Except.ok.injEq, Option.some.injEq] at h
          subst h
          exact excludeT_name t t1 g1 ht
      | [], h => simp at h; rw [h]

/-- a table kept by a ONE-part glob is one the glob does not match. -/
theorem tableStep_single (pt g : Text) (t t' : Table) (h : tableStep pt [g] t = .ok (some t')) :
    t' = t ∧ gmatch pt t.name = .ok false := by
  unfold tableStep at h
  simp only [bind, Except.bind, pure, Except.pure] at h
  cases hm : gmatch pt t.name with
  | error e => rw [hm] at h; cases h
  | ok m =>
    rw [hm] at h
    simp only at h
    cases m with
    | false => simp at h; exact ⟨h.symm, rfl⟩
    | true => simp at h

theorem excludeS_eq (s : Schema) (glob : List Text) (s' : Schema) (h : excludeS s glob = .ok s') :
    s'.name = s.name ∧
    (if (excludeType "table".toList (glob.headD [])).2 then
        mapFilterE (tableStep (excludeType "table".toList (glob.headD [])).1 glob) s.tables = .ok s'.tables
     else s'.tables = s.tables) := by
  unfold excludeS at h
  simp only [bind, Except.bind, pure, Except.pure] at h
  split at h
  · rename_i hsel
    rw [if_pos hsel]
    split at h
    · cases h
    · rename_i tables htab
      split at h
      · split at h
        · cases h
        · simp only [Except.ok.injEq] at h
          subst h
          exact ⟨rfl, htab⟩
      · simp only [Except.ok.injEq] at h
        subst h
        exact ⟨rfl, htab⟩
  · rename_i hsel
    rw [if_neg hsel]
    split at h
    · split at h
      · cases h
      · simp only [Except.ok.injEq] at h
        subst h
        exact ⟨rfl, rfl⟩
    · simp only [Except.ok.injEq] at h
      subst h
      exact ⟨rfl, rfl⟩

/-- `excludeS` keeps the schema's name and only keeps tables (by name) that were there. -/
theorem excludeS_sub (s : Schema) (glob : List Text) (s' : Schema) (h : excludeS s glob = .ok s') :
    s'.name = s.name ∧ ∀ t' ∈ s'.tables, ∃ t ∈ s.tables, t'.name = t.name := by
  obtain ⟨hn, ht⟩ := excludeS_eq s glob s' h
  refine ⟨hn, ?_⟩
  intro t' ht'
  split at ht
  · obtain ⟨t, hmem, hf⟩ := mapFilterE_mem _ _ _ ht t' ht'
    exact ⟨t, hmem, tableStep_name _ _ _ _ hf⟩
  · rw [ht] at ht'; exact ⟨t', ht', rfl⟩

/-- a one-part table glob whose selector allows tables leaves no table it matches. -/
theorem excludeS_single (s : Schema) (g : Text) (s' : Schema) (h : excludeS s [g] = .ok s')
    (hsel : (excludeType "table".toList g).2 = true) :
    ∀ t' ∈ s'.tables, gmatch (excludeType "table".toList g).1 t'.name = .ok false := by
  obtain ⟨_, ht⟩ := excludeS_eq s [g] s' h
  rw [if_pos (show (excludeType "table".toList ([g].headD [])).2 = true from hsel)] at ht
  change mapFilterE (tableStep (excludeType "table".toList g).1 [g]) s.tables = .ok s'.tables at ht
  intro t' ht'
  obtain ⟨t, _, hf⟩ := mapFilterE_mem _ _ _ ht t' ht'
  obtain ⟨he, hm⟩ := tableStep_single _ _ _ _ hf
  rw [he]; exact hm

/-- the fold over the patterns keeps the name and only keeps tables (by name) that were there. -/
theorem excludeSchemaGlobs_sub : ∀ (gs : List (List Text)) (s s' : Schema),
    excludeSchemaGlobs gs s = .ok (some s') →
    s'.name = s.name ∧ ∀ t' ∈ s'.tables, ∃ t ∈ s.tables, t'.name = t.name := by
  intro gs
  induction gs with
  | nil =>
    intro s s' h
    simp only [excludeSchemaGlobs, Except.ok.injEq, Option.some.injEq] at h
    subst h
    exact ⟨rfl, fun t' ht' => ⟨t', ht', rfl⟩⟩
  | cons g gs ih =>
    intro s s' h
    unfold excludeSchemaGlobs at h
    split at h
    · cases h
    · split at h
      · exact ih s s' h
      · split at h
        · cases h
        · exact ih s s' h
        · split at h
          · cases h
          · split at h
            · cases h
            · rename_i s1 hs1
              obtain ⟨hn1, ht1⟩ := excludeS_sub s _ s1 hs1
              obtain ⟨hn, ht⟩ := ih s1 s' h
              refine ⟨hn.trans hn1, ?_⟩
              intro t' ht'
              obtain ⟨t1, hm1, he1⟩ := ht t' ht'
              obtain ⟨t, hm, he⟩ := ht1 t1 hm1
              exact ⟨t, hm, he1.trans he⟩

theorem excludeRealm_mem (globs : List (List Text)) : ∀ (r r' : Realm), excludeRealm globs r = .ok r' →
    ∀ s' ∈ r', ∃ s ∈ r, excludeSchemaGlobs globs s = .ok (some s') := by
  intro r
  induction r with
  | nil => intro r' h s' hs'; simp [excludeRealm] at h; subst h; cases hs'
  | cons s ss ih =>
    intro r' h s' hs'
    unfold excludeRealm at h
    cases hs : excludeSchemaGlobs globs s with
    | error e => rw [hs] at h; cases h
    | ok x =>
      rw [hs] at h
      simp only at h
      cases hr : excludeRealm globs ss with
      | error e => rw [hr] at h; cases h
      | ok rest =>
        rw [hr] at h
        simp only [Except.ok.injEq] at h
        subst h
        cases x with
        | none =>
          obtain ⟨b, hb, hfb⟩ := ih rest hr s' hs'
          exact ⟨b, List.mem_cons_of_mem _ hb, hfb⟩
        | some y =>
          rcases List.mem_cons.mp hs' with rfl | hmem
          · exact ⟨s, List.mem_cons_self .., hs⟩
          · obtain ⟨b, hb, hfb⟩ := ih rest hr s' hmem
            exact ⟨b, List.mem_cons_of_mem _ hb, hfb⟩

end Atlas.Exclude
