/-
The shape of the revision table in every state the executor can reach: sorted by version (what
`ReadRevisions` returns and `upsert` maintains), every row of type "executed" (never the resolved bit,
which only `atlas migrate set` writes) and belonging to a file of the directory. This is what links
the C09 invariant (`DInv`, phrased with look-ups) to the list-shaped hypothesis of the C11 theorems.
-/
import Lemmas.ExecDir

namespace Atlas.Exec
open Atlas

theorem str_lt_of_not {a b : String} (h1 : ¬ a < b) (h2 : a ≠ b) : b < a := by
  by_cases h : b < a
  · exact h
  · exact absurd (String.le_antisymm (a := a) (b := b) h h1) h2

/-- a row the executor may write for a directory. -/
def Good (dir : List MFile) (r : Revision) : Prop := r.typ = 2 ∧ ∃ m ∈ dir, m.version = r.version

/-- the revision table: strictly sorted by version, good rows only. -/
structure RInv (dir : List MFile) (revs : List Revision) : Prop where
  sorted : (revs.map (·.version)).Pairwise (· < ·)
  good : ∀ r ∈ revs, Good dir r

theorem rinv_nil (dir : List MFile) : RInv dir [] := ⟨by simp, by simp⟩

theorem mem_upsert {r x : Revision} : ∀ {l : List Revision}, x ∈ upsert r l → x = r ∨ x ∈ l := by
  intro l
  induction l with
  | nil => intro h; simp [upsert] at h; exact Or.inl h
  | cons y ys ih =>
    intro h
    unfold upsert at h
    split at h
    · rcases List.mem_cons.mp h with rfl | h'
      · exact Or.inl rfl
      · exact Or.inr (List.mem_cons_of_mem _ h')
    · split at h
      · rcases List.mem_cons.mp h with rfl | h'
        · exact Or.inl rfl
        · exact Or.inr h'
      · rcases List.mem_cons.mp h with rfl | h'
        · exact Or.inr (List.mem_cons_self ..)
        · rcases ih h' with h'' | h''
          · exact Or.inl h''
          · exact Or.inr (List.mem_cons_of_mem _ h'')

theorem upsert_sorted (r : Revision) : ∀ (l : List Revision),
    (l.map (·.version)).Pairwise (· < ·) → ((upsert r l).map (·.version)).Pairwise (· < ·) := by
  intro l
  induction l with
  | nil => intro _; simp [upsert]
  | cons y ys ih =>
    intro h
    rw [List.map_cons, List.pairwise_cons] at h
    obtain ⟨hy, hys⟩ := h
    unfold upsert
    split
    · rename_i heq
      have hv : y.version = r.version := by simpa using heq
      rw [List.map_cons, List.pairwise_cons]
      exact ⟨by rw [← hv]; exact hy, hys⟩
    · rename_i hne
      split
      · rename_i hlt
        rw [List.map_cons, List.map_cons, List.pairwise_cons, List.pairwise_cons]
        refine ⟨?_, hy, hys⟩
        intro v hv
        rcases List.mem_cons.mp hv with rfl | hv'
        · exact hlt
        · exact String.lt_trans hlt (hy v hv')
      · rename_i hnlt
        have hne' : y.version ≠ r.version := by simpa using hne
        have hyr : y.version < r.version := str_lt_of_not hnlt (fun e => hne' e.symm)
        rw [List.map_cons, List.pairwise_cons]
        refine ⟨?_, ih hys⟩
        intro v hv
        obtain ⟨x, hx, rfl⟩ := List.mem_map.mp hv
        rcases mem_upsert hx with rfl | hx'
        · exact hyr
        · exact hy _ (List.mem_map_of_mem hx')

theorem rinv_upsert {dir : List MFile} {revs : List Revision} {r : Revision}
    (h : RInv dir revs) (hg : Good dir r) : RInv dir (upsert r revs) :=
  ⟨upsert_sorted r revs h.sorted, fun x hx => (mem_upsert hx).elim (fun e => e ▸ hg) (h.good x)⟩

theorem rinv_write {dir : List MFile} {w : World} {r : Revision}
    (h : RInv dir w.revs) (hg : Good dir r) : RInv dir (writeRevision w r).1.revs := by
  rcases writeRevision_cases w r with ⟨_, h2⟩ | ⟨_, h2⟩
  · rw [h2]; exact h
  · rw [h2]; exact rinv_upsert h hg

theorem revs_execStmt (w : World) (s : Text) : (execStmt w s).1.revs = w.revs := by
  rcases execStmt_cases w s with ⟨_, h⟩ | ⟨_, h⟩ <;> rw [h]

theorem good_bump {dir : List MFile} {sm : List String} {r : Revision} (h : Good dir r) :
    Good dir (bump sm r) := ⟨h.1, h.2⟩

theorem stmtLoop_rinv (dir : List MFile) (sm : List String) :
    ∀ (ss : List Text) (w : World) (r : Revision), RInv dir w.revs → Good dir r →
      RInv dir (stmtLoop sm ss w r).1.revs ∧ Good dir (stmtLoop sm ss w r).2.1 := by
  intro ss
  induction ss with
  | nil => intro w r hw hg; exact ⟨hw, hg⟩
  | cons s rest ih =>
    intro w r hw hg
    unfold stmtLoop
    have he := revs_execStmt w s
    rcases hs : execStmt w s with ⟨w1, b⟩
    rw [hs] at he
    simp only at he
    cases b with
    | true => exact ⟨by rw [he]; exact hw, ⟨hg.1, hg.2⟩⟩
    | false =>
      simp only
      have hw1 : RInv dir w1.revs := by rw [he]; exact hw
      have hwr := rinv_write (r := bump sm r) hw1 (good_bump hg)
      rcases hwv : writeRevision w1 (bump sm r) with ⟨w2, b2⟩
      rw [hwv] at hwr
      cases b2 with
      | true => exact ⟨hwr, good_bump hg⟩
      | false => exact ih w2 (bump sm r) hwr (good_bump hg)

theorem deferred_rinv {dir : List MFile} {w : World} {r : Revision} (res : Res)
    (hw : RInv dir w.revs) (hg : Good dir r) : RInv dir (deferred w r res).1.revs := by
  cases res with
  | writeRev => exact hw
  | panic => exact hw
  | ok =>
    unfold deferred
    have := rinv_write (r := r) hw hg
    rcases hwv : writeRevision w r with ⟨w2, b2⟩
    rw [hwv] at this
    exact this
  | stmt _ =>
    unfold deferred
    have := rinv_write (r := r) hw hg
    rcases hwv : writeRevision w r with ⟨w2, b2⟩
    rw [hwv] at this
    exact this
  | historyChanged _ _ =>
    unfold deferred
    have := rinv_write (r := r) hw hg
    rcases hwv : writeRevision w r with ⟨w2, b2⟩
    rw [hwv] at this
    exact this

theorem runStmts_rinv_aux {dir : List MFile} (sm : List String) (ss : List Text) {w : World}
    {r : Revision} (hw : RInv dir w.revs) (hg : Good dir r) :
    RInv dir (match stmtLoop sm ss w r with
      | (w, r, .ok) => deferred w { r with partialHashes := [] } .ok
      | (w, r, res) => deferred w r res).1.revs := by
  have hl := stmtLoop_rinv dir sm ss w r hw hg
  rcases hL : stmtLoop sm ss w r with ⟨w1, r1, res⟩
  rw [hL] at hl
  simp only at hl
  cases res with
  | ok => exact deferred_rinv .ok hl.1 ⟨hl.2.1, hl.2.2⟩
  | writeRev => exact deferred_rinv .writeRev hl.1 hl.2
  | stmt b => exact deferred_rinv (.stmt b) hl.1 hl.2
  | historyChanged i b => exact deferred_rinv (.historyChanged i b) hl.1 hl.2
  | panic => exact deferred_rinv .panic hl.1 hl.2

theorem runStmts_rinv {dir : List MFile} (fixed : Bool) (H : Text → String) {w : World} (m : MFile)
    {r : Revision} (hw : RInv dir w.revs) (hg : Good dir r) :
    RInv dir (runStmts fixed H w m r).1.revs := by
  unfold runStmts
  split
  · exact hw
  · cases fixed
    · exact runStmts_rinv_aux (sums H m.stmts) _ hw hg
    · exact runStmts_rinv_aux (sums H m.stmts) _ hw (r := { r with total := m.stmts.length, hash := m.hash }) ⟨hg.1, hg.2⟩

theorem afterStart_rinv {dir : List MFile} (fixed : Bool) (H : Text → String) {w : World} (m : MFile)
    {r : Revision} (hw : RInv dir w.revs) (hg : Good dir r) :
    RInv dir (afterStart fixed H w m r).1.revs := by
  unfold afterStart
  split
  · exact hw
  · exact deferred_rinv _ hw hg
  · exact runStmts_rinv fixed H m hw hg

theorem executeFrom_rinv {dir : List MFile} (fixed : Bool) (H : Text → String) {w : World} (m : MFile)
    {r : Revision} (hw : RInv dir w.revs) (hg : Good dir r) :
    RInv dir (executeFrom fixed H w m r).1.revs := by
  unfold executeFrom
  have := rinv_write (r := r) hw hg
  rcases hwv : writeRevision w r with ⟨w2, b2⟩
  rw [hwv] at this
  cases b2 with
  | true => exact this
  | false => exact afterStart_rinv fixed H m this hg

theorem findRev_mem {v : String} {revs : List Revision} {r : Revision} (h : findRev v revs = some r) :
    r ∈ revs ∧ r.version = v := by
  unfold findRev at h
  exact ⟨List.mem_of_find?_eq_some h, by simpa using List.find?_some h⟩

theorem good_loadRev {dir : List MFile} {w : World} {m : MFile} (hw : RInv dir w.revs) (hm : m ∈ dir) :
    Good dir (loadRev w m) := by
  unfold loadRev
  split
  · rename_i r h
    exact hw.good r (findRev_mem h).1
  · exact ⟨rfl, m, hm, rfl⟩

theorem execute_rinv {dir : List MFile} (fixed : Bool) (H : Text → String) {w : World} {m : MFile}
    (hw : RInv dir w.revs) (hm : m ∈ dir) : RInv dir (execute fixed H w m).1.revs :=
  executeFrom_rinv fixed H m hw (good_loadRev hw hm)

theorem execFiles_rinv {dir : List MFile} (fixed : Bool) (H : Text → String) :
    ∀ (files : List MFile) (w : World), RInv dir w.revs → (∀ m ∈ files, m ∈ dir) →
      RInv dir (execFiles fixed H files w).1.revs := by
  intro files
  induction files with
  | nil => intro w hw _; exact hw
  | cons m ms ih =>
    intro w hw hsub
    unfold execFiles
    have h1 := execute_rinv fixed H hw (hsub m (List.mem_cons_self ..))
    rcases he : execute fixed H w m with ⟨w1, res⟩
    rw [he] at h1
    cases res with
    | ok => exact ih w1 h1 (fun x hx => hsub x (List.mem_cons_of_mem _ hx))
    | writeRev => exact h1
    | stmt _ => exact h1
    | historyChanged _ _ => exact h1
    | panic => exact h1

end Atlas.Exec
