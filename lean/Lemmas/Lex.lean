/-
The scanner state invariant (C08): `input` is a suffix of `src`, `total` counts exactly the bytes
before the cursor, the cursor is inside the input. Preservation by every primitive of `Atlas.Lex`.
-/
import Atlas.Lex

namespace Atlas.Lex
open Atlas Atlas.Bytes

/-- offset of the scanner's current input in `src`. -/
def off (src : Bytes) (s : St) : Nat := src.length - s.input.length

structure Inv (src : Bytes) (s : St) : Prop where
  len : s.input.length ≤ src.length
  suffix : src.drop (off src s) = s.input
  total : s.total = off src s + s.pos
  bound : s.pos ≤ s.input.length

/-! ### UTF-8 width -/

theorem runeWidth_le (l : Bytes) : runeWidth l ≤ l.length := by
  match l with
  | [] => simp [runeWidth]
  | [x] => simp only [runeWidth]; repeat' split
           all_goals simp
  | [x, b] => simp only [runeWidth]; repeat' split
              all_goals simp
  | [x, b, c] => simp only [runeWidth]; repeat' split
                 all_goals simp
  | x :: b :: c :: d :: r => simp only [runeWidth]; repeat' split
                             all_goals (simp only [List.length_cons]; omega)

theorem runeWidth_pos (x : UInt8) (l : Bytes) : 1 ≤ runeWidth (x :: l) := by
  simp only [runeWidth]; repeat' split
  all_goals omega

/-! ### next -/

theorem next_eos {s : St} (h : (next s).2 = .eos) : (next s).1 = s ∧ s.input.length ≤ s.pos := by
  unfold next at h ⊢
  cases hd : s.input.drop s.pos with
  | nil =>
    exact ⟨rfl, by simpa using hd⟩
  | cons x rest =>
    rw [hd] at h
    simp only at h
    split at h <;> cases h

/-- what a non-eos `next` does: same input/delim/comments, cursor advanced by the rune width. -/
theorem next_adv {s : St} (h : (next s).2 ≠ .eos) :
    ∃ w, 1 ≤ w ∧ s.pos + w ≤ s.input.length ∧
      (next s).1 = { s with width := w, pos := s.pos + w, total := s.total + w } := by
  unfold next at h ⊢
  cases hd : s.input.drop s.pos with
  | nil => rw [hd] at h; simp at h
  | cons x rest =>
    simp only [hd]
    refine ⟨runeWidth (x :: rest), runeWidth_pos x rest, ?_, rfl⟩
    have h1 := runeWidth_le (x :: rest)
    have h2 : (x :: rest).length = s.input.length - s.pos := by rw [← hd, List.length_drop]
    have hlt : s.pos < s.input.length := by
      apply Nat.lt_of_not_le
      intro hle
      rw [List.drop_eq_nil_of_le hle] at hd
      cases hd
    omega

theorem next_inv {src : Bytes} {s : St} (inv : Inv src s) : Inv src (next s).1 := by
  by_cases h : (next s).2 = .eos
  · rw [(next_eos h).1]; exact inv
  · obtain ⟨w, _, hb, he⟩ := next_adv h
    rw [he]
    exact ⟨inv.len, inv.suffix, by simp [off] at *; have := inv.total; simp [off] at this; omega, hb⟩

theorem next_input (s : St) : (next s).1.input = s.input ∧ (next s).1.delim = s.delim ∧
    (next s).1.comments = s.comments ∧ s.pos ≤ (next s).1.pos := by
  by_cases h : (next s).2 = .eos
  · rw [(next_eos h).1]; exact ⟨rfl, rfl, rfl, Nat.le_refl _⟩
  · obtain ⟨w, _, _, he⟩ := next_adv h
    rw [he]; exact ⟨rfl, rfl, rfl, by simp⟩

/-- a suffix of a suffix is a suffix, at the shifted offset. -/
theorem drop_suffix_shift (src inp : Bytes) (hl : inp.length ≤ src.length)
    (hs : src.drop (src.length - inp.length) = inp) (k : Nat) (hk : k ≤ inp.length) :
    src.drop (src.length - (inp.drop k).length) = inp.drop k := by
  have : src.length - (inp.drop k).length = (src.length - inp.length) + k := by
    simp only [List.length_drop]; omega
  rw [this, ← List.drop_drop, hs]

/-! ### addPos and friends -/

theorem addPos_inv {src : Bytes} {s : St} (inv : Inv src s) (k : Nat) (h : s.pos + k ≤ s.input.length) :
    Inv src (s.addPos k) :=
  ⟨inv.len, inv.suffix, by simp [St.addPos, off] at *; have := inv.total; simp [off] at this; omega,
   by simpa [St.addPos] using h⟩

/-- moving the cursor anywhere inside the input, adjusting `total` by the same amount. -/
theorem move_inv {src : Bytes} {s : St} (inv : Inv src s) (p t : Nat) (hp : p ≤ s.input.length)
    (ht : t + s.pos = s.total + p) : Inv src { s with pos := p, total := t } :=
  ⟨inv.len, inv.suffix, by simp [off] at *; have := inv.total; simp [off] at this; omega, hp⟩

/-- dropping the consumed part of the input and resetting the cursor (`emit`, `comment`). -/
theorem reset_inv {src : Bytes} {s : St} (inv : Inv src s) (c : List Bytes) :
    Inv src { s with input := s.input.drop s.pos, pos := 0, comments := c } := by
  have hl := inv.len
  have hb := inv.bound
  have ht := inv.total
  have hs := inv.suffix
  simp only [off] at ht hs
  refine ⟨by simp; omega, ?_, ?_, by simp⟩
  · exact drop_suffix_shift src s.input hl hs s.pos hb
  · simp only [off, List.length_drop]
    omega

theorem emit_inv {src : Bytes} {s : St} (o : Opts) (inv : Inv src s) (t : Bytes) :
    Inv src (emit o s t).1 := by
  unfold emit
  exact reset_inv inv []

/-! ### white space -/

theorem trimLeft_suffix : ∀ (n : Nat) (l : Bytes), ∃ k, k ≤ l.length ∧ trimLeft n l = l.drop k := by
  intro n
  induction n with
  | zero => intro l; exact ⟨0, by simp, by simp [trimLeft]⟩
  | succ n ih =>
    intro l
    unfold trimLeft
    by_cases h0 : spaceHead l = 0
    · rw [if_pos h0]; exact ⟨0, by simp, by simp⟩
    · rw [if_neg h0]
      obtain ⟨k, hk, he⟩ := ih (l.drop (spaceHead l))
      by_cases hm : spaceHead l ≤ l.length
      · exact ⟨spaceHead l + k, by simp at hk; omega, by rw [he, List.drop_drop]⟩
      · refine ⟨l.length, Nat.le_refl _, ?_⟩
        rw [he]
        have : l.drop (spaceHead l) = [] := List.drop_eq_nil_of_le (by omega)
        simp [this]

theorem skipSpaces_inv {src : Bytes} {s : St} (inv : Inv src s) (hp : s.pos = 0) :
    Inv src (skipSpaces s) := by
  obtain ⟨k, hk, he⟩ := trimLeft_suffix s.input.length s.input
  have hl := inv.len
  have ht := inv.total
  have hs := inv.suffix
  simp only [off] at ht hs
  unfold skipSpaces
  simp only [he]
  refine ⟨by simp; omega, ?_, ?_, by simp [hp]⟩
  · exact drop_suffix_shift src s.input hl hs k hk
  · simp only [off, List.length_drop]
    omega

theorem skipSpaces_len (s : St) : (skipSpaces s).input.length ≤ s.input.length := by
  obtain ⟨k, _, he⟩ := trimLeft_suffix s.input.length s.input
  show (trimLeft s.input.length s.input).length ≤ s.input.length
  rw [he, List.length_drop]
  omega

theorem skipSpaces_noop {s : St} (h : trimLeft s.input.length s.input = s.input) : skipSpaces s = s := by
  unfold skipSpaces
  simp [h]

/-! ### leading white space -/

theorem isPrefixOf_take {p l : Bytes} {k : Nat} (h : p.isPrefixOf (l.take k) = true) : p.isPrefixOf l = true := by
  rw [List.isPrefixOf_iff_prefix] at h ⊢
  exact h.trans (List.take_prefix k l)

theorem spaceHead_eq_zero_iff (l : Bytes) :
    spaceHead l = 0 ↔ ∀ p ∈ spacePats, p.isPrefixOf l = false := by
  unfold spaceHead
  cases hf : spacePats.find? (fun p => p.isPrefixOf l) with
  | none =>
    simp only [true_iff]
    intro p hp
    have := List.find?_eq_none.mp hf p hp
    cases hx : p.isPrefixOf l with
    | false => rfl
    | true => rw [hx] at this; exact absurd rfl this
  | some p =>
    have hm := List.mem_of_find?_eq_some hf
    have hp := List.find?_some hf
    constructor
    · intro h0
      exfalso
      have : 1 ≤ p.length := by
        revert hm; unfold spacePats; intro hm
        simp only [List.mem_cons, List.mem_nil_iff, or_false] at hm
        rcases hm with h | h | h | h | h | h | h | h | h | h | h | h | h | h | h | h | h | h | h | h | h | h | h | h | h <;>
          (subst h; simp)
      change p.length = 0 at h0
      omega
    · intro hall
      have := hall p hm
      rw [hp] at this; cases this

/-- a prefix of an input without leading white space has no leading white space. -/
theorem spaceHead_take {l : Bytes} (h : spaceHead l = 0) (k : Nat) : spaceHead (l.take k) = 0 := by
  rw [spaceHead_eq_zero_iff] at h ⊢
  intro p hp
  cases hx : p.isPrefixOf (l.take k) with
  | false => rfl
  | true => have := isPrefixOf_take hx; rw [h p hp] at this; cases this

theorem spaceHead_le (l : Bytes) : spaceHead l ≤ l.length := by
  unfold spaceHead
  cases hf : spacePats.find? (fun p => p.isPrefixOf l) with
  | none => simp
  | some p =>
    have hp := List.find?_some hf
    simp only at hp ⊢
    rw [List.isPrefixOf_iff_prefix] at hp
    exact hp.length_le

theorem trimLeft_id {l : Bytes} (h : spaceHead l = 0) (n : Nat) : trimLeft n l = l := by
  cases n with
  | zero => rfl
  | succ n => simp [trimLeft, h]

/-- with enough fuel the result of `trimLeft` has no leading white space. -/
theorem trimLeft_lead : ∀ (n : Nat) (l : Bytes), l.length ≤ n → spaceHead (trimLeft n l) = 0 := by
  intro n
  induction n with
  | zero =>
    intro l hl
    have : l = [] := List.eq_nil_of_length_eq_zero (by omega)
    subst this
    decide
  | succ n ih =>
    intro l hl
    unfold trimLeft
    by_cases h0 : spaceHead l = 0
    · rw [if_pos h0]; exact h0
    · rw [if_neg h0]
      apply ih
      have := spaceHead_le l
      simp only [List.length_drop]
      omega

theorem skipSpaces_lead (s : St) : spaceHead (skipSpaces s).input = 0 := by
  unfold skipSpaces
  exact trimLeft_lead _ _ (Nat.le_refl _)

/-! ### quotes -/

/-- same input, delimiter and comments. -/
def Same (s s' : St) : Prop := s'.input = s.input ∧ s'.delim = s.delim ∧ s'.comments = s.comments

theorem Same.refl (s : St) : Same s s := ⟨rfl, rfl, rfl⟩
theorem Same.trans {a b c : St} (h1 : Same a b) (h2 : Same b c) : Same a c :=
  ⟨h2.1.trans h1.1, h2.2.1.trans h1.2.1, h2.2.2.trans h1.2.2⟩

theorem next_same (s : St) : Same s (next s).1 := by
  have := next_input s
  exact ⟨this.1, this.2.1, this.2.2.1⟩

theorem skipQuoteLoop_inv {src : Bytes} (q : UInt8) (e : Bool) :
    ∀ (fuel : Nat) (s s' : St), Inv src s → skipQuoteLoop q e fuel s = some s' → Inv src s' ∧ Same s s' := by
  intro fuel
  induction fuel with
  | zero => intro s s' _ h; simp [skipQuoteLoop] at h
  | succ n ih =>
    intro s s' inv h
    unfold skipQuoteLoop at h
    have inv1 := next_inv inv
    have same1 := next_same s
    rcases hn : next s with ⟨s1, r⟩
    rw [hn] at h inv1 same1
    simp only at inv1 same1
    cases r with
    | eos => simp at h
    | other =>
      simp only at h
      obtain ⟨i, sm⟩ := ih s1 s' inv1 h
      exact ⟨i, same1.trans sm⟩
    | ch b =>
      simp only at h
      split at h
      · obtain ⟨i, sm⟩ := ih _ s' (next_inv inv1) h
        exact ⟨i, same1.trans ((next_same s1).trans sm)⟩
      · split at h
        · simp only [Option.some.injEq] at h
          subst h
          exact ⟨inv1, same1⟩
        · obtain ⟨i, sm⟩ := ih s1 s' inv1 h
          exact ⟨i, same1.trans sm⟩

theorem skipQuote_inv {src : Bytes} {o : Opts} {s s' : St} {q : UInt8} (inv : Inv src s)
    (h : skipQuote o s q = some s') : Inv src s' ∧ Same s s' := by
  unfold skipQuote at h
  exact skipQuoteLoop_inv q _ _ s s' inv h

/-! ### bounds of the regular-expression matchers -/

theorem word_len : ∀ (w s r : Bytes), word w s = some r → r.length + w.length = s.length := by
  intro w
  induction w with
  | nil => intro s r h; simp [word] at h; subst h; simp
  | cons c w ih =>
    intro s r h
    cases s with
    | nil => simp [word] at h
    | cons b s =>
      simp only [word] at h
      split at h
      · have := ih s r h; simp; omega
      · cases h

theorem dropWhile_len (p : UInt8 → Bool) (l : Bytes) : (l.dropWhile p).length ≤ l.length := by
  induction l with
  | nil => simp
  | cons a l ih =>
    simp only [List.dropWhile_cons]
    split
    · simp; omega
    · simp

theorem reBegin_le {l : Bytes} {n : Nat} (h : reBegin l = some n) : 1 ≤ n ∧ n ≤ l.length := by
  unfold reBegin at h
  simp only at h
  split at h
  · cases h
  · rename_i s2 hw
    split at h
    · simp only [Option.some.injEq] at h
      have h1 := word_len _ _ _ hw
      have h2 := dropWhile_len isReSpace l
      have h3 := dropWhile_len isReSpace s2
      subst h
      constructor <;> omega
    · cases h

theorem reBeginAtomic_le {l : Bytes} {n : Nat} (h : reBeginAtomic l = some n) : 1 ≤ n ∧ n ≤ l.length := by
  unfold reBeginAtomic at h
  split at h
  · cases h
  · rename_i m hb
    have hm := reBegin_le hb
    split at h
    · cases h
    · rename_i s2 hw
      simp only at h
      split at h
      · simp only [Option.some.injEq] at h
        have h1 := word_len _ _ _ hw
        have h3 := dropWhile_len isReSpace s2
        simp only [List.length_drop] at h1
        subst h
        constructor <;> omega
      · cases h

theorem skipTag_len : ∀ (f : Nat) (l : Bytes), (skipTag f l).length ≤ l.length := by
  intro f
  induction f with
  | zero => intro l; simp [skipTag]
  | succ n ih =>
    intro l
    unfold skipTag
    split
    · rename_i b r
      split
      · have := ih r; simp; omega
      · simp
    · rename_i b r _
      split
      · have := ih r; simp; omega
      · simp
    · simp

theorem dollarClose_len {r r2 : Bytes} (h : dollarClose r = some r2) : r2.length + 1 ≤ r.length := by
  unfold dollarClose at h
  split at h
  · rename_i r2' heq
    simp only [Option.some.injEq] at h
    subst h
    have := skipTag_len r.length r
    rw [heq] at this
    simpa using this
  · cases h

theorem reDollarQuote_le {l : Bytes} {n : Nat} (h : reDollarQuote l = some n) : 2 ≤ n ∧ n ≤ l.length := by
  unfold reDollarQuote at h
  split at h
  · rename_i r
    split at h
    · cases hc : dollarClose r with
      | none => rw [hc] at h; simp at h
      | some r2 =>
        rw [hc] at h
        simp only [Option.map_some, Option.some.injEq] at h
        have := dollarClose_len hc
        simp only [List.length_cons] at h ⊢
        subst h
        constructor <;> omega
    · cases h
  · cases h

theorem isPrefixOf_len {p l : Bytes} (h : p.isPrefixOf l = true) : p.length ≤ l.length := by
  rw [List.isPrefixOf_iff_prefix] at h
  exact h.length_le

theorem indexOf_le (pat : Bytes) : ∀ (l : Bytes) (i : Nat), indexOf pat l = some i → i + pat.length ≤ l.length := by
  intro l
  induction l with
  | nil =>
    intro i h
    simp only [indexOf] at h
    split at h
    · simp only [Option.some.injEq] at h; subst h
      have : pat = [] := by cases pat <;> simp_all
      simp [this]
    · cases h
  | cons b l ih =>
    intro i h
    simp only [indexOf] at h
    split at h
    · rename_i hp
      simp only [Option.some.injEq] at h; subst h
      have := isPrefixOf_len hp
      simpa using this
    · cases hi : indexOf pat l with
      | none => rw [hi] at h; simp at h
      | some j =>
        rw [hi] at h
        simp only [Option.map_some, Option.some.injEq] at h
        have := ih j hi
        subst h
        simp; omega

/-! ### dollar quotes, comments, DELIMITER -/

theorem hasPrefixAt_le {inp p : Bytes} {i : Nat} (h : hasPrefixAt inp i p = true) (hi : i ≤ inp.length) :
    i + p.length ≤ inp.length := by
  unfold hasPrefixAt at h
  have := isPrefixOf_len h
  simp only [List.length_drop] at this
  omega

theorem dollarLoop_inv {src : Bytes} (m : Bytes) :
    ∀ (fuel : Nat) (s : St), Inv src s → Inv src (dollarLoop m fuel s) ∧ Same s (dollarLoop m fuel s) := by
  intro fuel
  induction fuel with
  | zero => intro s inv; exact ⟨inv, Same.refl s⟩
  | succ n ih =>
    intro s inv
    unfold dollarLoop
    have inv1 := next_inv inv
    have same1 := next_same s
    have hadv : (next s).2 ≠ .eos → 1 ≤ (next s).1.pos := by
      intro h; obtain ⟨w, hw, _, he⟩ := next_adv h; rw [he]; simp; omega
    rcases hn : next s with ⟨s1, r⟩
    rw [hn] at inv1 same1 hadv
    simp only at inv1 same1 hadv
    cases r with
    | eos => exact ⟨inv1, same1⟩
    | other => obtain ⟨i, sm⟩ := ih s1 inv1; exact ⟨i, same1.trans sm⟩
    | ch b =>
      simp only
      split
      · rename_i hc
        simp only [Bool.and_eq_true] at hc
        have hp := hadv (by simp)
        have hb1 := inv1.bound
        have hle := hasPrefixAt_le hc.2 (by omega)
        exact ⟨addPos_inv inv1 _ (by omega), Same.trans same1 ⟨rfl, rfl, rfl⟩⟩
      · obtain ⟨i, sm⟩ := ih s1 inv1; exact ⟨i, same1.trans sm⟩

theorem skipDollarQuote_inv {src : Bytes} {s s' : St} (inv : Inv src s) (hp : 1 ≤ s.pos)
    (h : skipDollarQuote s = some s') : Inv src s' ∧ Same s s' := by
  unfold skipDollarQuote at h
  cases hr : reDollarQuote (s.input.drop (s.pos - 1)) with
  | none => rw [hr] at h; cases h
  | some n =>
    rw [hr] at h
    simp only [Option.some.injEq] at h
    have hn := reDollarQuote_le hr
    simp only [List.length_drop] at hn
    have hb := inv.bound
    have inv1 := addPos_inv inv (n - 1) (by omega)
    obtain ⟨i, sm⟩ := dollarLoop_inv (src := src) ((s.input.drop (s.pos - 1)).take n) (s.input.length + 1) _ inv1
    rw [h] at i sm
    exact ⟨i, Same.trans (⟨rfl, rfl, rfl⟩ : Same s (s.addPos (n - 1))) sm⟩

/-- what `comment` can do: nothing, advance the cursor, or drop the consumed comment and the
following white space (then the input has no leading white space and the cursor is at 0). -/
theorem comment_inv {src : Bytes} {s : St} (inv : Inv src s) (leftLen : Nat) (right : Bytes) :
    Inv src (comment s leftLen right) ∧ (comment s leftLen right).delim = s.delim ∧
      ((comment s leftLen right).input = s.input ∨
       ((comment s leftLen right).pos = 0 ∧ spaceHead (comment s leftLen right).input = 0)) ∧
      (comment s leftLen right).input.length ≤ s.input.length := by
  unfold comment
  cases hi : indexOf right (s.input.drop s.pos) with
  | none => exact ⟨inv, rfl, Or.inl rfl, Nat.le_refl _⟩
  | some i =>
    simp only
    have hle := indexOf_le right _ i hi
    simp only [List.length_drop] at hle
    have hb := inv.bound
    have inv1 := addPos_inv inv (i + right.length) (by omega)
    split
    · exact ⟨inv1, rfl, Or.inl rfl, Nat.le_refl _⟩
    · refine ⟨?_, rfl, Or.inr ⟨?_, skipSpaces_lead _⟩, ?_⟩
      · apply skipSpaces_inv _ rfl
        exact reset_inv inv1 _
      · simp [skipSpaces]
      · refine Nat.le_trans (skipSpaces_len _) ?_
        simp [St.addPos]

theorem delimLoop_inv {src : Bytes} :
    ∀ (fuel : Nat) (s : St) (r : R), Inv src s → Inv src (delimLoop fuel s r) ∧ Same s (delimLoop fuel s r) := by
  intro fuel
  induction fuel with
  | zero => intro s r inv; exact ⟨inv, Same.refl s⟩
  | succ n ih =>
    intro s r inv
    unfold delimLoop
    split
    · exact ⟨inv, Same.refl s⟩
    · exact ⟨inv, Same.refl s⟩
    · obtain ⟨i, sm⟩ := ih (next s).1 (next s).2 (next_inv inv)
      exact ⟨i, (next_same s).trans sm⟩

theorem setDelim_some {s s' : St} {d : Bytes} (h : setDelim s d = some s') :
    s'.input = s.input ∧ s'.pos = s.pos ∧ s'.total = s.total := by
  unfold setDelim at h
  split at h
  · cases h
  · simp only [Option.some.injEq] at h; subst h; exact ⟨rfl, rfl, rfl⟩

/-- `delimCmd` either leaves the state alone (not a command) or consumes the command line: then
the cursor is at 0. -/
theorem delimCmd_inv {src : Bytes} {fixed : Bool} {o : Opts} {s s' : St} (inv : Inv src s)
    (h : delimCmd fixed o s = .inr s') :
    Inv src s' ∧ (s' = s ∨ s'.pos = 0) ∧ s'.input.length ≤ s.input.length := by
  unfold delimCmd at h
  split at h
  · simp only [Sum.inr.injEq] at h; subst h; exact ⟨inv, Or.inl rfl, Nat.le_refl _⟩
  · simp only at h
    obtain ⟨i1, sm1⟩ := delimLoop_inv (src := src) (s.input.length + 1) s (pick s) inv
    split at h
    · cases h
    · split at h
      · cases h
      · rename_i s2 hs
        simp only [Sum.inr.injEq] at h
        obtain ⟨e1, e2, e3⟩ := setDelim_some hs
        have inv2 : Inv src s2 := by
          refine ⟨by rw [e1]; exact i1.len, ?_, ?_, by rw [e1, e2]; exact i1.bound⟩
          · simp only [off, e1]; exact i1.suffix
          · simp only [off, e1, e2, e3]; exact i1.total
        subst h
        exact ⟨emit_inv o inv2 _, Or.inr (by simp [emit]), by simp [emit, e1, sm1.1]⟩

/-! ### one iteration of the Scan loop -/

/-- loop invariant of the `Scan:` loop: the state invariant, and the current input does not start
with white space (so the statement text will not either). -/
structure LoopInv (src : Bytes) (s : St) : Prop where
  inv : Inv src s
  lead : spaceHead s.input = 0

theorem off_same {src : Bytes} {s s' : St} (h : Same s s') : off src s' = off src s := by
  simp [off, h.1]

/-- post-condition of one iteration started in state `s`. -/
def StepPost (src : Bytes) (s : St) : Step → Prop
  | .cont s' _ _ => LoopInv src s' ∧ off src s ≤ off src s'
  | .brk s' text => LoopInv src s' ∧ text = s'.input.take s'.pos ∧ off src s ≤ off src s'
  | .ret _ _ => True

/-- what the nested-scanner oracle must guarantee: the nested `total` does not exceed the nested
source. -/
def BodyOK (fixed : Bool) (body : Bool → Bytes → St → Option Nat) : Prop :=
  ∀ (a : Bool) (d nsrc : Bytes) (b : St) (t : Nat), init fixed nsrc = some b → body a d b = some t → t ≤ nsrc.length

theorem same_loopInv {src : Bytes} {s s' : St} (li : LoopInv src s) (inv' : Inv src s') (sm : Same s s') :
    LoopInv src s' ∧ off src s ≤ off src s' :=
  ⟨⟨inv', by rw [sm.1]; exact li.lead⟩, by rw [off_same sm]; exact Nat.le_refl _⟩

theorem off_drop_le {src : Bytes} {s s' : St} (inv : Inv src s) (h : s'.input.length ≤ s.input.length) :
    off src s ≤ off src s' := by
  simp only [off]; have := inv.len; omega

theorem skipSpaces_delim (s : St) : (skipSpaces s).delim = s.delim := rfl

/-- hypotheses common to all cases: we are right after a successful `next`. -/
structure AfterNext (src : Bytes) (s : St) : Prop where
  li : LoopInv src s
  pos1 : 1 ≤ s.pos
  width : s.width ≤ s.pos

theorem keep_post {src : Bytes} {s : St} (h : AfterNext src s) (d op : Nat) : StepPost src s (.cont s d op) :=
  ⟨h.li, Nat.le_refl _⟩

theorem init_len {fixed : Bool} {nsrc : Bytes} {b : St} (h : init fixed nsrc = some b) : True := trivial

theorem beginBlock_post {src : Bytes} {fixed : Bool} {body : Bool → Bytes → St → Option Nat} {s : St}
    {isAtomic : Bool} {n depth op : Nat} (h : AfterNext src s) (hbody : BodyOK fixed body)
    (hn : 1 ≤ n ∧ s.pos - 1 + n ≤ s.input.length) :
    StepPost src s (beginBlock fixed body isAtomic s n depth op) := by
  unfold beginBlock
  have hp := h.pos1
  have inv1 := addPos_inv h.li.inv (n - 1) (by omega)
  have li1 : LoopInv src (s.addPos (n - 1)) ∧ off src s ≤ off src (s.addPos (n - 1)) :=
    same_loopInv h.li inv1 ⟨rfl, rfl, rfl⟩
  simp only
  split
  · exact li1
  · rename_i b hb
    split
    · rename_i t ht
      have htl := hbody _ _ _ _ _ hb ht
      simp only [List.length_drop] at htl
      have hb1 := inv1.bound
      have inv2 := addPos_inv inv1 t (by simp only [St.addPos] at hb1 htl ⊢; omega)
      have li2 := same_loopInv li1.1 inv2 ⟨rfl, rfl, rfl⟩
      exact ⟨li2.1, rfl, Nat.le_trans li1.2 li2.2⟩
    · exact li1

theorem stepE_post {src : Bytes} {fixed : Bool} {o : Opts} {body : Bool → Bytes → St → Option Nat}
    {s : St} {depth op : Nat} (h : AfterNext src s) (hbody : BodyOK fixed body) :
    StepPost src s (stepE fixed o body s depth op) := by
  unfold stepE
  split
  · split
    · exact keep_post h _ _
    · rename_i n hn
      have := reBegin_le hn
      simp only [List.length_drop] at this
      have hb := h.li.inv.bound
      have hp := h.pos1
      exact beginBlock_post h hbody ⟨this.1, by omega⟩
  · exact keep_post h _ _

theorem stepD_post {src : Bytes} {fixed : Bool} {o : Opts} {body : Bool → Bytes → St → Option Nat}
    {s : St} {depth op : Nat} (h : AfterNext src s) (hbody : BodyOK fixed body) :
    StepPost src s (stepD fixed o body s depth op) := by
  unfold stepD
  split
  · split
    · exact keep_post h _ _
    · rename_i n hn
      have := reBeginAtomic_le hn
      simp only [List.length_drop] at this
      have hb := h.li.inv.bound
      have hp := h.pos1
      exact beginBlock_post h hbody ⟨this.1, by omega⟩
  · exact stepE_post h hbody

theorem comment_post {src : Bytes} {s s0 : St} (li : LoopInv src s) (h0 : off src s0 ≤ off src s)
    (leftLen : Nat) (right : Bytes) (d op : Nat) : StepPost src s0 (.cont (comment s leftLen right) d op) := by
  obtain ⟨i, _, hcase, hlen⟩ := comment_inv li.inv leftLen right
  have hoff : off src s ≤ off src (comment s leftLen right) := off_drop_le li.inv hlen
  rcases hcase with he | ⟨_, hl⟩
  · exact ⟨⟨i, by rw [he]; exact li.lead⟩, Nat.le_trans h0 hoff⟩
  · exact ⟨⟨i, hl⟩, Nat.le_trans h0 hoff⟩

theorem stepC_post {src : Bytes} {fixed : Bool} {o : Opts} {body : Bool → Bytes → St → Option Nat}
    {s : St} {r : R} {depth op : Nat} (h : AfterNext src s) (hbody : BodyOK fixed body) :
    StepPost src s (stepC fixed o body s r depth op) := by
  unfold stepC
  split
  · split
    · trivial
    · rename_i s' hq
      obtain ⟨i, sm⟩ := skipDollarQuote_inv h.li.inv h.pos1 hq
      exact same_loopInv h.li i sm
  · split
    · exact comment_post h.li (Nat.le_refl _) _ _ _ _
    · split
      · have sm := next_same s
        have li' := same_loopInv h.li (next_inv h.li.inv) sm
        exact comment_post li'.1 li'.2 _ _ _ _
      · split
        · have sm := next_same s
          have li' := same_loopInv h.li (next_inv h.li.inv) sm
          exact comment_post li'.1 li'.2 _ _ _ _
        · exact stepD_post h hbody

theorem stepB_post {src : Bytes} {fixed : Bool} {o : Opts} {body : Bool → Bytes → St → Option Nat}
    {s : St} {r : R} {depth op : Nat} (h : AfterNext src s) (hbody : BodyOK fixed body) :
    StepPost src s (stepB fixed o body s r depth op) := by
  have hb := h.li.inv.bound
  have hp := h.pos1
  have hw := h.width
  unfold stepB
  split
  · -- DELIMITER command
    rename_i hc
    simp only [Bool.and_eq_true, beq_iff_eq, decide_eq_true_eq] at hc
    split
    · trivial
    · rename_i s' hd
      obtain ⟨i, hcase, hlen⟩ := delimCmd_inv (addPos_inv h.li.inv 8 (by omega)) hd
      rcases hcase with he | h0
      · subst he
        have hnoop : skipSpaces (s.addPos 8) = s.addPos 8 :=
          skipSpaces_noop (trimLeft_id (by simpa [St.addPos] using h.li.lead) _)
        rw [hnoop]
        exact same_loopInv h.li i ⟨rfl, rfl, rfl⟩
      · refine ⟨⟨skipSpaces_inv i h0, skipSpaces_lead _⟩, ?_⟩
        apply off_drop_le h.li.inv
        have := skipSpaces_len s'
        simp only [St.addPos] at hlen
        omega
  · split
    · -- the delimiter ends the statement
      rename_i hc
      simp only [Bool.and_eq_true] at hc
      have hle := hasPrefixAt_le hc.2 (by omega)
      have ht := h.li.inv.total
      exact ⟨⟨move_inv h.li.inv _ _ (by omega) (by omega), h.li.lead⟩, rfl, Nat.le_refl _⟩
    · exact stepC_post h hbody

theorem stepCh_post {src : Bytes} {fixed : Bool} {o : Opts} {body : Bool → Bytes → St → Option Nat}
    {s : St} {r : R} {depth op : Nat} (h : AfterNext src s) (hbody : BodyOK fixed body) :
    StepPost src s (stepCh fixed o body s r depth op) := by
  unfold stepCh
  split
  · exact keep_post h _ _
  · split
    · split
      · trivial
      · exact keep_post h _ _
    · split
      · split
        · split
          · trivial
          · rename_i s' hq
            obtain ⟨i, sm⟩ := skipQuote_inv h.li.inv hq
            exact same_loopInv h.li i sm
        · trivial
      · exact stepB_post h hbody

theorem step_inv {src : Bytes} {fixed : Bool} {o : Opts} {body : Bool → Bytes → St → Option Nat}
    {s : St} {depth op : Nat} (li : LoopInv src s) (hbody : BodyOK fixed body) :
    StepPost src s (step fixed o body s depth op) := by
  unfold step
  have inv1 := next_inv li.inv
  have same1 := next_same s
  have hadv : (next s).2 ≠ .eos → 1 ≤ (next s).1.pos ∧ (next s).1.width ≤ (next s).1.pos := by
    intro h; obtain ⟨w, hw, _, he⟩ := next_adv h; rw [he]; simp; omega
  have heos : (next s).2 = .eos → s.input.length ≤ (next s).1.pos := by
    intro h; have := next_eos h; rw [this.1]; exact this.2
  rcases hn : next s with ⟨s1, r⟩
  rw [hn] at inv1 same1 hadv heos
  simp only at inv1 same1 hadv heos
  have li1 := same_loopInv li inv1 same1
  have hoff : off src s1 = off src s := off_same same1
  cases r with
  | eos =>
    simp only
    split
    · trivial
    · split
      · rename_i hpos
        refine ⟨li1.1, ?_, li1.2⟩
        have h1 := heos rfl
        have h2 := inv1.bound
        rw [same1.1] at h2 ⊢
        rw [List.take_of_length_le (by omega)]
      · trivial
  | other =>
    have hp := hadv (by simp)
    have := stepCh_post (fixed := fixed) (o := o) (r := .other) (depth := depth) (op := op)
      ⟨li1.1, hp.1, hp.2⟩ hbody
    simp only
    revert this
    cases stepCh fixed o body s1 .other depth op <;> simp only [StepPost, hoff] <;> exact id
  | ch b =>
    have hp := hadv (by simp)
    have := stepCh_post (fixed := fixed) (o := o) (r := .ch b) (depth := depth) (op := op)
      ⟨li1.1, hp.1, hp.2⟩ hbody
    simp only
    revert this
    cases stepCh fixed o body s1 (.ch b) depth op <;> simp only [StepPost, hoff] <;> exact id

/-! ### emit: the statement sits where `Pos` says -/

theorem trimRight_take : ∀ (n : Nat) (l : Bytes), ∃ k, k ≤ l.length ∧ trimRight n l = l.take k := by
  intro n
  induction n with
  | zero => intro l; exact ⟨l.length, Nat.le_refl _, by simp [trimRight]⟩
  | succ n ih =>
    intro l
    unfold trimRight
    split
    · exact ⟨l.length, Nat.le_refl _, by simp⟩
    · obtain ⟨k, hk, he⟩ := ih (l.take (l.length - spaceTail l))
      refine ⟨min k (l.length - spaceTail l), by omega, ?_⟩
      rw [he, List.take_take]

theorem trimSuffix_take (l suf : Bytes) : ∃ k, k ≤ l.length ∧ trimSuffix l suf = l.take k := by
  unfold trimSuffix
  split
  · exact ⟨l.length - suf.length, by omega, rfl⟩
  · exact ⟨l.length, Nat.le_refl _, by simp⟩

/-- the trimmed statement text is a prefix of the raw text when the raw text has no leading white space. -/
theorem trimmed_prefix (o : Opts) (delim text : Bytes) (h : spaceHead text = 0) :
    ∃ k, k ≤ text.length ∧
      trimSpace (if o.omitDelimiter || delim != [0x3b] then trimSuffix text delim else text) = text.take k := by
  have key : ∀ t : Bytes, (∃ k, k ≤ text.length ∧ t = text.take k) →
      ∃ k, k ≤ text.length ∧ trimSpace t = text.take k := by
    intro t ⟨k, hk, he⟩
    unfold trimSpace
    have hl : spaceHead t = 0 := by rw [he]; exact spaceHead_take h k
    rw [trimLeft_id hl]
    obtain ⟨k2, hk2, he2⟩ := trimRight_take t.length t
    refine ⟨min k2 k, by omega, ?_⟩
    rw [he2, he, List.take_take]
  split
  · obtain ⟨k, hk, he⟩ := trimSuffix_take text delim
    exact key _ ⟨k, hk, he⟩
  · exact key _ ⟨text.length, Nat.le_refl _, by simp⟩

/-- the statement `st` produced from a scanner over `src` that was at offset `lo` and is now at
offset `hi`: its text is found at its position, inside `[lo, hi)`. -/
structure StmtOK (src : Bytes) (lo hi : Nat) (st : Stmt) : Prop where
  lo_le : lo ≤ st.pos
  le_hi : st.pos + st.text.length ≤ hi
  found : (src.drop st.pos).take st.text.length = st.text

theorem emit_ok {src : Bytes} {o : Opts} {s : St} (li : LoopInv src s) :
    Inv src (emit o s (s.input.take s.pos)).1 ∧ (emit o s (s.input.take s.pos)).1.pos = 0 ∧
    StmtOK src (off src s) (off src (emit o s (s.input.take s.pos)).1) (emit o s (s.input.take s.pos)).2 := by
  have hb := li.inv.bound
  have ht := li.inv.total
  have hs := li.inv.suffix
  have hl := li.inv.len
  obtain ⟨k, hk, he⟩ := trimmed_prefix o s.delim (s.input.take s.pos) (spaceHead_take li.lead _)
  have hlen : (s.input.take s.pos).length = s.pos := by simp; omega
  refine ⟨emit_inv o li.inv _, rfl, ?_⟩
  have hpos : (emit o s (s.input.take s.pos)).2.pos = off src s := by
    simp only [emit, hlen]; omega
  have htext : (emit o s (s.input.take s.pos)).2.text = s.input.take k := by
    simp only [emit]
    rw [he, List.take_take]
    congr 1
    omega
  have hoff : off src (emit o s (s.input.take s.pos)).1 = off src s + s.pos := by
    simp only [emit, off, List.length_drop]; omega
  refine ⟨by rw [hpos]; exact Nat.le_refl _, ?_, ?_⟩
  · rw [hpos, htext, hoff]; simp; omega
  · rw [hpos, htext, hs]
    simp only [List.length_take]
    congr 1
    omega

theorem init_inv {input : Bytes} {b : St} (h : init true input = some b) : Inv input b ∧ b.pos = 0 := by
  unfold init at h
  have base : Inv input { input := input } ∧ ({ input := input } : St).pos = 0 :=
    ⟨⟨Nat.le_refl _, by simp [off], by simp [off], by simp⟩, rfl⟩
  simp only at h
  cases hd : Hash.directive input with
  | none => rw [hd] at h; simp only [Option.some.injEq] at h; subst h; exact base
  | some d =>
    obtain ⟨pre, name, args⟩ := d
    rw [hd] at h
    simp only at h
    split at h
    · cases hsd : setDelim { input := input } args with
      | none => rw [hsd] at h; cases h
      | some s1 =>
        rw [hsd] at h
        simp only at h
        obtain ⟨e1, e2, e3⟩ := setDelim_some hsd
        cases hi : indexOf [0x0a] input with
        | none => rw [hi] at h; cases h
        | some i =>
          rw [hi] at h
          simp only [if_true, Option.some.injEq] at h
          have hle := indexOf_le [0x0a] input i hi
          simp only [List.length_cons, List.length_nil] at hle
          subst h
          refine ⟨⟨by simp, ?_, ?_, by simp [e2]⟩, by simp [e2]⟩
          · simp only [off, List.length_drop]
            congr 1; omega
          · simp only [off, List.length_drop, e2]; omega
    · simp only [Option.some.injEq] at h; subst h; exact base

/-! ### the mutual induction over fuel -/

/-- what the three mutually recursive functions guarantee with `fuel`. -/
structure Fuelled (o : Opts) (fuel : Nat) : Prop where
  loop : ∀ (src : Bytes) (s s' : St) (d op : Nat) (text : Bytes), LoopInv src s →
    scanLoop true o fuel s d op = (s', .inl text) →
    LoopInv src s' ∧ text = s'.input.take s'.pos ∧ off src s ≤ off src s'
  stmt : ∀ (src : Bytes) (s s' : St) (st : Stmt), Inv src s → s.pos = 0 →
    Lex.stmt true o fuel s = (s', .inr st) →
    Inv src s' ∧ s'.pos = 0 ∧ StmtOK src (off src s) (off src s') st
  body : ∀ (src : Bytes) (b : St) (a : Bool) (d : Bytes) (t : Nat), Inv src b → b.pos = 0 →
    bodyLoop true o a d fuel b = some t → t ≤ src.length

theorem fuelled (o : Opts) : ∀ fuel, Fuelled o fuel := by
  intro fuel
  induction fuel with
  | zero =>
    refine ⟨?_, ?_, ?_⟩
    · intro src s s' d op text _ h; simp [scanLoop] at h
    · intro src s s' st _ _ h; simp [Lex.stmt] at h
    · intro src b a d t _ _ h; simp [bodyLoop] at h
  | succ n ih =>
    have hbody : BodyOK true (fun a d b => bodyLoop true o a d n b) := by
      intro a d nsrc b t hi hb
      obtain ⟨i, hp⟩ := init_inv hi
      exact ih.body nsrc b a d t i hp hb
    refine ⟨?_, ?_, ?_⟩
    · intro src s s' d op text li h
      unfold scanLoop at h
      have post := step_inv (o := o) (depth := d) (op := op) li hbody
      cases hst : step true o (fun a d b => bodyLoop true o a d n b) s d op with
      | cont s1 d1 op1 =>
        rw [hst] at h post
        simp only at h
        obtain ⟨li1, hoff⟩ := post
        obtain ⟨r1, r2, r3⟩ := ih.loop src s1 s' d1 op1 text li1 h
        exact ⟨r1, r2, Nat.le_trans hoff r3⟩
      | brk s1 t1 =>
        rw [hst] at h post
        simp only [Prod.mk.injEq, Sum.inl.injEq] at h
        obtain ⟨h1, h2⟩ := h
        subst h1; subst h2
        exact post
      | ret s1 out =>
        rw [hst] at h
        simp at h
    · intro src s s' st inv hp h
      unfold Lex.stmt at h
      have li0 : LoopInv src (skipSpaces s) := ⟨skipSpaces_inv inv hp, skipSpaces_lead s⟩
      have hoff0 : off src s ≤ off src (skipSpaces s) := off_drop_le inv (skipSpaces_len s)
      rcases hl : scanLoop true o n (skipSpaces s) 0 0 with ⟨s1, res⟩
      rw [hl] at h
      cases res with
      | inr out => simp at h
      | inl text =>
        obtain ⟨li1, htext, hoff1⟩ := ih.loop src _ s1 0 0 text li0 hl
        simp only [Prod.mk.injEq, Sum.inr.injEq] at h
        obtain ⟨h1, h2⟩ := h
        subst htext
        obtain ⟨e1, e2, e3⟩ := emit_ok (o := o) li1
        rw [h1] at e1 e2 e3
        rw [h2] at e3
        refine ⟨e1, e2, ⟨Nat.le_trans (Nat.le_trans hoff0 hoff1) e3.lo_le, e3.le_hi, e3.found⟩⟩
    · intro src b a d t inv hp h
      unfold bodyLoop at h
      rcases hs : Lex.stmt true o n b with ⟨b1, out⟩
      rw [hs] at h
      cases out with
      | inr st =>
        obtain ⟨i1, p1, _⟩ := ih.stmt src b b1 st inv hp hs
        simp only at h
        have htot : b1.total ≤ src.length := by
          have := i1.total; have := i1.len; simp only [off] at *; omega
        split at h
        · split at h
          · simp only [Option.some.injEq] at h; omega
          · exact ih.body src b1 a d t i1 p1 h
        · exact ih.body src b1 a d t i1 p1 h
      | inl e => simp at h

end Atlas.Lex
