/-
Helper lemmas about the executor model (`Atlas.Exec`). Property theorems live in `Props/`.
-/
import Atlas.Exec

namespace Atlas.Exec
open Atlas

/-- Two distinct texts with the same hash. Every detection theorem is a reduction to this. -/
def Collision (H : Text → String) : Prop := ∃ x y : Text, x ≠ y ∧ H x = H y

@[simp] theorem sums_length (H : Text → String) (s : List Text) : (sums H s).length = s.length := by
  simp [sums]

theorem sums_get (H : Text → String) (s : List Text) (i : Nat) (h : i < s.length) :
    (sums H s)[i]?.getD "" = H (s.take (i + 1)).flatten := by
  simp [sums, h]

/-! ### findRev / upsert -/

theorem find_cons (v : String) (x : Revision) (xs : List Revision) :
    findRev v (x :: xs) = if x.version = v then some x else findRev v xs := by
  unfold findRev
  rw [List.find?_cons]
  by_cases h : x.version = v
  · have : (x.version == v) = true := by simp [h]
    simp [this, h]
  · have : (x.version == v) = false := by simp [h]
    simp [this, h]

theorem findRev_upsert (r : Revision) (l : List Revision) (v : String) :
    findRev v (upsert r l) = if r.version = v then some r else findRev v l := by
  induction l with
  | nil => simp [upsert, findRev]
  | cons x xs ih =>
    unfold upsert
    by_cases hx : x.version = r.version
    · have : (x.version == r.version) = true := by simp [hx]
      rw [if_pos this, find_cons, find_cons]
      by_cases hv : r.version = v
      · simp [hv]
      · have : ¬ x.version = v := by rw [hx]; exact hv
        simp [hv, this]
    · have : ¬ (x.version == r.version) = true := by simp [hx]
      rw [if_neg this]
      by_cases hlt : r.version < x.version
      · rw [if_pos hlt, find_cons]
      · rw [if_neg hlt, find_cons, find_cons, ih]
        by_cases hv : r.version = v
        · have : ¬ x.version = v := fun h => hx (h.trans hv.symm)
          simp [hv, this]
        · simp [hv]

theorem findRev_version {v : String} {l : List Revision} {r : Revision} (h : findRev v l = some r) :
    r.version = v := by
  unfold findRev at h
  have := List.find?_some h
  simpa using this

/-- re-writing the revision that was just read changes no lookup. -/
theorem findRev_upsert_self {v : String} {l : List Revision} {r : Revision} (h : findRev v l = some r)
    (v' : String) : findRev v' (upsert r l) = findRev v' l := by
  rw [findRev_upsert]
  have hv := findRev_version h
  by_cases h' : r.version = v'
  · rw [if_pos h', ← h', hv, h]
  · rw [if_neg h']

/-! ### the hash-check loop (repaired comparison) -/

theorem checkLoop_no_panic (sm ph : List String) (k : Nat) (hph : k ≤ ph.length) :
    ∀ fuel i, checkLoop true sm ph k fuel i ≠ some (.inr ()) := by
  intro fuel
  induction fuel with
  | zero => intro i; simp [checkLoop]
  | succ n ih =>
    intro i
    unfold checkLoop
    by_cases hi : i < k
    · simp only [hi, if_true]
      by_cases h1 : i ≥ sm.length
      · simp [h1]
      · have h2 : ¬ i ≥ ph.length := by omega
        simp only [h1, if_false, h2]
        by_cases h3 : sm[i]?.getD "" = ph[i]?.getD ""
        · simp only [bne_iff_ne, ne_eq, h3, not_true_eq_false, if_false]; exact ih (i + 1)
        · simp [h3]
    · simp [hi]

theorem checkLoop_none {sm ph : List String} {k : Nat} :
    ∀ fuel i, k < fuel + i → checkLoop true sm ph k fuel i = none →
      ∀ j, i ≤ j → j < k → j < sm.length ∧ sm[j]?.getD "" = ph[j]?.getD "" := by
  intro fuel
  induction fuel with
  | zero => intro i hf _ j hij hjk; omega
  | succ n ih =>
    intro i hf h j hij hjk
    unfold checkLoop at h
    have hi : i < k := by omega
    simp only [hi, if_true] at h
    by_cases h1 : i ≥ sm.length
    · simp [h1] at h
    · simp only [h1, if_false] at h
      by_cases h2 : i ≥ ph.length
      · simp [h2] at h
      · simp only [h2, if_false] at h
        by_cases h3 : sm[i]?.getD "" = ph[i]?.getD ""
        · simp only [bne_iff_ne, ne_eq, h3, not_true_eq_false, if_false] at h
          by_cases hji : j = i
          · subst hji
            exact ⟨by omega, h3⟩
          · exact ih (i + 1) (by omega) h j (by omega) hjk
        · simp [h3] at h

theorem checkLoop_some_inl {sm ph : List String} {k : Nat} :
    ∀ fuel i x, checkLoop true sm ph k fuel i = some (.inl x) → i ≤ x ∧ x < k := by
  intro fuel
  induction fuel with
  | zero => intro i x h; simp [checkLoop] at h
  | succ n ih =>
    intro i x h
    unfold checkLoop at h
    by_cases hi : i < k
    · simp only [hi, if_true] at h
      by_cases h1 : i ≥ sm.length
      · simp [h1] at h; omega
      · simp only [h1, if_false] at h
        by_cases h2 : i ≥ ph.length
        · simp [h2] at h
        · simp only [h2, if_false] at h
          by_cases h3 : sm[i]?.getD "" = ph[i]?.getD ""
          · simp only [bne_iff_ne, ne_eq, h3, not_true_eq_false, if_false] at h
            have := ih (i + 1) x h
            omega
          · simp [h3] at h; omega
    · simp [hi] at h

theorem checkLoop_agree {sm ph : List String} {k : Nat}
    (h : ∀ j, j < k → j < sm.length ∧ j < ph.length ∧ sm[j]?.getD "" = ph[j]?.getD "") :
    ∀ fuel i, checkLoop true sm ph k fuel i = none := by
  intro fuel
  induction fuel with
  | zero => intro i; simp [checkLoop]
  | succ n ih =>
    intro i
    unfold checkLoop
    by_cases hi : i < k
    · obtain ⟨a, b, c⟩ := h i hi
      have h1 : ¬ i ≥ sm.length := by omega
      have h2 : ¬ i ≥ ph.length := by omega
      simp [hi, h1, h2, c, ih]
    · simp [hi]

/-! ### equal cumulative hashes force equal prefixes (or exhibit a collision) -/

theorem take_succ_flatten (s : List Text) (j : Nat) (h : j < s.length) :
    (s.take (j + 1)).flatten = (s.take j).flatten ++ s[j] := by
  rw [List.take_succ_eq_append_getElem h, List.flatten_append]
  simp only [List.flatten_cons, List.flatten_nil, List.append_nil]

theorem prefix_of_sums {H : Text → String} {old new : List Text} {k : Nat}
    (hko : k ≤ old.length) (hkn : k ≤ new.length)
    (h : ∀ j, j < k → H (new.take (j + 1)).flatten = H (old.take (j + 1)).flatten) :
    new.take k = old.take k ∨ Collision H := by
  induction k with
  | zero => left; simp
  | succ n ih =>
    have hn := ih (by omega) (by omega) (fun j hj => h j (by omega))
    rcases hn with hn | hc
    · have hj := h n (by omega)
      by_cases heq : (new.take (n + 1)).flatten = (old.take (n + 1)).flatten
      · left
        rw [take_succ_flatten new n (by omega), take_succ_flatten old n (by omega), hn] at heq
        have := List.append_cancel_left heq
        rw [List.take_succ_eq_append_getElem (by omega : n < new.length),
          List.take_succ_eq_append_getElem (by omega : n < old.length), hn, this]
      · right
        exact ⟨_, _, heq, hj⟩
    · right; exact hc

/-! ### small facts about the pieces of `execute` -/

theorem writeRevision_journal (w : World) (r : Revision) :
    (writeRevision w r).1.journal = w.journal ∧ (writeRevision w r).1.calls = w.calls ∧
    (writeRevision w r).1.faults = w.faults := by
  unfold writeRevision World.op
  by_cases h : w.tick ∈ w.faults <;> simp [h]

theorem writeRevision_lookup {w : World} {r : Revision} {v : String}
    (h : findRev v w.revs = some r) (v' : String) :
    findRev v' (writeRevision w r).1.revs = findRev v' w.revs := by
  unfold writeRevision World.op
  by_cases hf : w.tick ∈ w.faults
  · simp [hf]
  · simp [hf, findRev_upsert_self h]

theorem stmtLoop_res (sm : List String) (ss : List Text) (w : World) (r : Revision) :
    (stmtLoop sm ss w r).2.2 = .ok ∨ (stmtLoop sm ss w r).2.2 = .writeRev ∨
    (stmtLoop sm ss w r).2.2 = .stmt false := by
  induction ss generalizing w r with
  | nil => simp [stmtLoop]
  | cons s rest ih =>
    unfold stmtLoop
    rcases hE : execStmt w s with ⟨w1, b⟩
    cases b with
    | true => simp
    | false =>
      simp only
      rcases hW : writeRevision w1 (bump sm r) with ⟨w2, b2⟩
      cases b2 with
      | true => simp
      | false => exact ih _ _

theorem deferred_res_cases (w : World) (r : Revision) (res : Res) :
    (∀ i b, res ≠ .historyChanged i b) → res ≠ .panic →
    (∀ i b, (deferred w r res).2 ≠ .historyChanged i b) ∧ (deferred w r res).2 ≠ .panic := by
  intro h1 h2
  cases res with
  | ok => simp only [deferred]; split <;> simp
  | writeRev => simp [deferred]
  | stmt b => simp [deferred]
  | historyChanged i b => exact absurd rfl (h1 i b)
  | panic => exact absurd rfl h2

/-! ### unfolding equations of the pieces of `execute` -/

theorem executeFrom_fail {fixed : Bool} {H : Text → String} {w w1 : World} {m : MFile} {r : Revision}
    (h : writeRevision w r = (w1, true)) : executeFrom fixed H w m r = (w1, .writeRev) := by
  unfold executeFrom; rw [h]

theorem executeFrom_ok {fixed : Bool} {H : Text → String} {w w1 : World} {m : MFile} {r : Revision}
    (h : writeRevision w r = (w1, false)) : executeFrom fixed H w m r = afterStart fixed H w1 m r := by
  unfold executeFrom; rw [h]

/-- the value the hash check of `afterStart` scrutinises. -/
def checkOf (fixed : Bool) (H : Text → String) (m : MFile) (r : Revision) : Option (Sum Nat Unit) :=
  if r.applied > 0 then checkLoop fixed (sums H m.stmts) r.partialHashes r.applied (r.applied + 1) 0 else none

theorem afterStart_none {fixed : Bool} {H : Text → String} {w : World} {m : MFile} {r : Revision}
    (h : checkOf fixed H m r = none) : afterStart fixed H w m r = runStmts fixed H w m r := by
  unfold afterStart; unfold checkOf at h; rw [h]

theorem afterStart_inl {fixed : Bool} {H : Text → String} {w : World} {m : MFile} {r : Revision} {i : Nat}
    (h : checkOf fixed H m r = some (.inl i)) :
    afterStart fixed H w m r = deferred w r (.historyChanged (i + 1) false) := by
  unfold afterStart; unfold checkOf at h; rw [h]

theorem afterStart_inr {fixed : Bool} {H : Text → String} {w : World} {m : MFile} {r : Revision}
    (h : checkOf fixed H m r = some (.inr ())) : afterStart fixed H w m r = (w, .panic) := by
  unfold afterStart; unfold checkOf at h; rw [h]

theorem runStmts_res {H : Text → String} {w : World} {m : MFile} {r : Revision}
    (hle : r.applied ≤ m.stmts.length) :
    (runStmts true H w m r).2 ≠ .panic ∧ ∀ i b, (runStmts true H w m r).2 ≠ .historyChanged i b := by
  unfold runStmts
  have : ¬ r.applied > m.stmts.length := by omega
  simp only [this, if_false, if_true]
  have h3 := stmtLoop_res (sums H m.stmts) (m.stmts.drop r.applied) w { r with total := m.stmts.length, hash := m.hash }
  rcases hL : stmtLoop (sums H m.stmts) (m.stmts.drop r.applied) w { r with total := m.stmts.length, hash := m.hash }
    with ⟨w2, r2, res2⟩
  rw [hL] at h3
  simp only at h3
  rcases h3 with h3 | h3 | h3 <;> subst h3 <;> simp only
  · have := deferred_res_cases w2 { r2 with partialHashes := [] } .ok (by simp) (by simp)
    exact ⟨this.2, this.1⟩
  · have := deferred_res_cases w2 r2 .writeRev (by simp) (by simp)
    exact ⟨this.2, this.1⟩
  · have := deferred_res_cases w2 r2 (.stmt false) (by simp) (by simp)
    exact ⟨this.2, this.1⟩

theorem writeRevision_nofault (w : World) (r : Revision) (h : w.faults = []) :
    writeRevision w r = ({ w with tick := w.tick + 1, revs := upsert r w.revs }, false) := by
  unfold writeRevision World.op
  simp [h]

theorem execStmt_nofault (w : World) (s : Text) (h : w.faults = []) :
    execStmt w s = ({ w with tick := w.tick + 1, calls := w.calls ++ [s], journal := w.journal ++ [s] }, false) := by
  unfold execStmt World.op
  simp [h]

theorem stmtLoop_nofault (sm : List String) (ss : List Text) (w : World) (r : Revision)
    (h : w.faults = []) :
    (stmtLoop sm ss w r).2.2 = .ok ∧ (stmtLoop sm ss w r).1.journal = w.journal ++ ss ∧
    (stmtLoop sm ss w r).1.calls = w.calls ++ ss ∧ (stmtLoop sm ss w r).1.faults = [] ∧
    (stmtLoop sm ss w r).2.1.applied = r.applied + ss.length ∧
    (stmtLoop sm ss w r).2.1.total = r.total ∧ (stmtLoop sm ss w r).2.1.version = r.version := by
  induction ss generalizing w r with
  | nil => simp [stmtLoop, h]
  | cons s rest ih =>
    unfold stmtLoop
    rw [execStmt_nofault w s h]
    simp only
    rw [writeRevision_nofault _ _ (by simpa using h)]
    simp only
    obtain ⟨h1, h2, h3, h4, h5, h6, h7⟩ := ih
      { w with tick := w.tick + 1 + 1, calls := w.calls ++ [s], journal := w.journal ++ [s],
               revs := upsert (bump sm r) w.revs } (bump sm r) (by simpa using h)
    refine ⟨h1, ?_, ?_, h4, ?_, h6, h7⟩
    · rw [h2]; simp
    · rw [h3]; simp
    · rw [h5]; simp [bump]; omega

end Atlas.Exec
