/-
Directories whose files carry `-- atlas:txmode` directives (C10 / C13): every file runs in the mode
`modeFor` gives it — its own transaction (`file`) or none — and the command with the repaired per-file
commit decision (`cfg.fixed = true`) is the concatenation of the per-file blocks.
-/
import Lemmas.TxFail

namespace Atlas.Tx

/-- `fileOps` never reads the directive. -/
theorem fileOps_nodir (db : Db) (fi : Nat) (f : TFile) :
    fileOps db fi f = fileOps db fi { ok := f.ok, directive := none } := rfl

/-- a succeeding file that `modeFor` lets run in `file` or `none` mode (any directive). -/
structure TFile.OkIn (cfg : Cfg) (f : TFile) : Prop where
  stmts : ∀ b ∈ f.ok, b = true
  mode : modeFor cfg f = some .file ∨ modeFor cfg f = some .none

/-- a file whose statement `j` fails, in `file` or `none` mode (any directive). -/
structure TFile.FailsIn (cfg : Cfg) (f : TFile) (j : Nat) : Prop where
  lt : j < f.ok.length
  bad : f.ok[j]? = some false
  good : ∀ i, i < j → f.ok[i]? = some true
  mode : modeFor cfg f = some .file ∨ modeFor cfg f = some .none

theorem fileOps_fresh' (db : Db) (fi : Nat) (f : TFile) (hf : ∀ b ∈ f.ok, b = true) (hn : db.revs[fi]? = none) :
    fileOps db fi f = (body fi f.ok.length 0, true) := by
  rw [fileOps_nodir]
  exact fileOps_fresh db fi { ok := f.ok, directive := none } ⟨rfl, hf⟩ hn

theorem fileOps_fail' (db : Db) (fi : Nat) (f : TFile) (j : Nat) (hlt : j < f.ok.length) (hbad : f.ok[j]? = some false)
    (hgood : ∀ i, i < j → f.ok[i]? = some true) (hn : db.revs[fi]? = none) :
    fileOps db fi f = (failBody fi f.ok.length j, false) := by
  rw [fileOps_nodir]
  exact fileOps_fail db fi { ok := f.ok, directive := none } j ⟨rfl, hlt, hbad, hgood⟩ hn

/-- the operations of one succeeding file in its mode. -/
def mblock (cfg : Cfg) (fi : Nat) (f : TFile) : List Op :=
  if modeFor cfg f = some .file then Op.begin :: body fi f.ok.length 0 ++ [Op.commit] else body fi f.ok.length 0

def mblocks (cfg : Cfg) : Nat → List TFile → List Op
  | _, [] => []
  | fi, f :: rest => mblock cfg fi f ++ mblocks cfg (fi + 1) rest

/-- the operations of the failing file in its mode. -/
def mfail (cfg : Cfg) (fi : Nat) (f : TFile) (j : Nat) : List Op :=
  if modeFor cfg f = some .file then Op.begin :: failBody fi f.ok.length j ++ [Op.rollback] else failBody fi f.ok.length j

theorem planFiles_mixed (cfg : Cfg) (hfix : cfg.fixed = true) (db0 : Db) :
    ∀ (rest : List TFile) (fi : Nat), (∀ f ∈ rest, f.OkIn cfg) → db0.revs.length ≤ fi →
      planFiles cfg db0 false fi rest = (mblocks cfg fi rest, true) := by
  intro rest
  induction rest with
  | nil => intro fi _ _; rfl
  | cons f fs ih =>
    intro fi h hle
    have hf := h f (List.mem_cons_self ..)
    have hfresh : db0.revs[fi]? = none := List.getElem?_eq_none (by omega)
    have ih' := ih (fi + 1) (fun x hx => h x (List.mem_cons_of_mem _ hx)) (by omega)
    rcases hf.mode with hm | hm
    · simp only [planFiles, hm, fileOps_fresh' db0 fi f hf.stmts hfresh, hfix]
      simp [ih', mblocks, mblock, hm]
    · simp only [planFiles, hm, fileOps_fresh' db0 fi f hf.stmts hfresh]
      simp [ih', mblocks, mblock, hm]

theorem planFiles_mixed_fail (cfg : Cfg) (hfix : cfg.fixed = true) (db0 : Db) (bad : TFile) (j : Nat)
    (hb : bad.FailsIn cfg j) (rest : List TFile) :
    ∀ (good : List TFile) (fi : Nat), (∀ f ∈ good, f.OkIn cfg) → db0.revs.length ≤ fi →
      planFiles cfg db0 false fi (good ++ bad :: rest) =
        (mblocks cfg fi good ++ mfail cfg (fi + good.length) bad j, false) := by
  intro good
  induction good with
  | nil =>
    intro fi _ hle
    have hfresh : db0.revs[fi]? = none := List.getElem?_eq_none (by omega)
    rcases hb.mode with hm | hm
    · simp only [List.nil_append, planFiles, hm, fileOps_fail' db0 fi bad j hb.lt hb.bad hb.good hfresh]
      simp [mblocks, mfail, hm]
    · simp only [List.nil_append, planFiles, hm, fileOps_fail' db0 fi bad j hb.lt hb.bad hb.good hfresh]
      simp [mblocks, mfail, hm]
  | cons f fs ih =>
    intro fi h hle
    have hf := h f (List.mem_cons_self ..)
    have hfresh : db0.revs[fi]? = none := List.getElem?_eq_none (by omega)
    have ih' := ih (fi + 1) (fun x hx => h x (List.mem_cons_of_mem _ hx)) (by omega)
    have e : fi + 1 + fs.length = fi + (fs.length + 1) := by omega
    rcases hf.mode with hm | hm
    · simp only [List.cons_append, planFiles, hm, fileOps_fresh' db0 fi f hf.stmts hfresh, hfix]
      simp [ih', mblocks, mblock, hm, e]
    · simp only [List.cons_append, planFiles, hm, fileOps_fresh' db0 fi f hf.stmts hfresh]
      simp [ih', mblocks, mblock, hm, e]

theorem mblock_full (cfg : Cfg) (d : Db) (f : TFile) :
    applyOps { dur := d, work := none } (mblock cfg d.revs.length f) = { dur := applyFile d f, work := none } := by
  unfold mblock
  split
  · rw [block_full _ (body_pure _ _ _), body_effect_file]
  · rw [applyOps_pure_none _ (body_pure _ _ _), body_effect_file]

theorem mblocks_full (cfg : Cfg) : ∀ (rest : List TFile) (d : Db),
    applyOps { dur := d, work := none } (mblocks cfg d.revs.length rest) = { dur := applyFiles d rest, work := none } := by
  intro rest
  induction rest with
  | nil => intro d; rfl
  | cons f fs ih =>
    intro d
    simp only [mblocks]
    rw [applyOps_append, mblock_full]
    have : (applyFile d f).revs.length = d.revs.length + 1 := by simp [applyFile]
    rw [← this, ih]
    rfl

/-- the failing file: rolled back in `file` mode, the successful prefix with the error in `none` mode. -/
theorem mfail_effect (cfg : Cfg) (d : Db) (f : TFile) (j : Nat) :
    applyOps { dur := d, work := none } (mfail cfg d.revs.length f j) =
      { dur := if modeFor cfg f = some .file then d else failedFile d j f.ok.length, work := none } := by
  unfold mfail
  split
  · rw [block_rollback _ (failBody_pure _ _ _)]
  · rw [applyOps_pure_none _ (failBody_pure _ _ _), failBody_effect]

/-- a crash inside one file's block: nothing of the file, or (none mode only) a recorded prefix. -/
theorem mblock_crash (cfg : Cfg) (d : Db) (f : TFile) (k : Nat) (hk : k < (mblock cfg d.revs.length f).length) :
    (applyOps { dur := d, work := none } ((mblock cfg d.revs.length f).take k)).dur = d ∨
    (modeFor cfg f ≠ some .file ∧ ∃ i a, a ≤ i ∧ i ≤ a + 1 ∧ i ≤ f.ok.length ∧
      (applyOps { dur := d, work := none } ((mblock cfg d.revs.length f).take k)).dur = partFile d i a f.ok.length) := by
  unfold mblock at hk ⊢
  split
  · rename_i hm
    left
    rw [if_pos hm] at hk
    exact block_prefix _ (body_pure _ _ _) d k (by simp at hk; omega)
  · rename_i hm
    rw [applyOps_pure_none _ (fun o ho => body_pure _ _ _ o (List.mem_of_mem_take ho))]
    rcases body_prefix d f.ok.length k with h | ⟨i, a, he, h1, h2, h3⟩
    · left; exact h
    · right; exact ⟨hm, i, a, h1, h2, h3, he⟩

/-- a crash anywhere in the blocks of a directive mix: `t` complete files, plus possibly a recorded
prefix of file `t` — only when that file runs without a transaction. -/
theorem mblocks_crash (cfg : Cfg) : ∀ (rest : List TFile) (d : Db) (k : Nat),
    ∃ t, t ≤ rest.length ∧
      ((applyOps { dur := d, work := none } ((mblocks cfg d.revs.length rest).take k)).dur = applyFiles d (rest.take t) ∨
       ∃ f i a, rest[t]? = some f ∧ modeFor cfg f ≠ some .file ∧ a ≤ i ∧ i ≤ a + 1 ∧ i ≤ f.ok.length ∧
         (applyOps { dur := d, work := none } ((mblocks cfg d.revs.length rest).take k)).dur =
           partFile (applyFiles d (rest.take t)) i a f.ok.length) := by
  intro rest
  induction rest with
  | nil => intro d k; exact ⟨0, Nat.le_refl _, Or.inl (by simp [mblocks, applyOps, applyFiles])⟩
  | cons f fs ih =>
    intro d k
    simp only [mblocks]
    by_cases hk : k < (mblock cfg d.revs.length f).length
    · rw [List.take_append_of_le_length (by omega)]
      refine ⟨0, Nat.zero_le _, ?_⟩
      rcases mblock_crash cfg d f k hk with h | ⟨hm, i, a, h1, h2, h3, he⟩
      · left; rw [h]; rfl
      · right; exact ⟨f, i, a, rfl, hm, h1, h2, h3, by rw [he]; rfl⟩
    · rw [List.take_append, List.take_of_length_le (by omega), applyOps_append, mblock_full]
      have hl : (applyFile d f).revs.length = d.revs.length + 1 := by simp [applyFile]
      rw [← hl]
      obtain ⟨t, ht, h⟩ := ih (applyFile d f) (k - (mblock cfg d.revs.length f).length)
      refine ⟨t + 1, by simp; omega, ?_⟩
      rcases h with h | ⟨g, i, a, hg, hm, h1, h2, h3, he⟩
      · left; rw [h]; rfl
      · right; exact ⟨g, i, a, by simpa using hg, hm, h1, h2, h3, by rw [he]; rfl⟩

/-! ### resuming a file recorded with an error, in a directive mix -/

theorem fileOps_resumeE' (db : Db) (fi : Nat) (f : TFile) (hf : ∀ b ∈ f.ok, b = true) (a : Nat) (e : Bool)
    (hn : db.revs[fi]? = some ⟨a, f.ok.length, e⟩) :
    fileOps db fi f = (bodyE fi f.ok.length a e, true) := by
  rw [fileOps_nodir]
  exact fileOps_resumeE db fi { ok := f.ok, directive := none } ⟨rfl, hf⟩ a e hn

theorem planFiles_mixed_resumeE (cfg : Cfg) (hfix : cfg.fixed = true) (db0 : Db) (f : TFile) (fs : List TFile)
    (fi a : Nat) (e : Bool) (hf : ∀ b ∈ f.ok, b = true) (hm : modeFor cfg f = some .none)
    (hrest : ∀ x ∈ fs, x.OkIn cfg) (hlen : db0.revs.length = fi + 1)
    (hr : db0.revs[fi]? = some ⟨a, f.ok.length, e⟩) :
    planFiles cfg db0 false fi (f :: fs) = (bodyE fi f.ok.length a e ++ mblocks cfg (fi + 1) fs, true) := by
  have h' := planFiles_mixed cfg hfix db0 fs (fi + 1) hrest (by omega)
  simp only [planFiles, hm, fileOps_resumeE' db0 fi f hf a e hr, h']
  simp

theorem resumeE_mixed_effect (cfg : Cfg) (D : Db) (m : Nat) (rest : List TFile) (j : Nat) (hj : j ≤ m) :
    applyOps { dur := failedFile D j m, work := none } (bodyE D.revs.length m j true ++ mblocks cfg (D.revs.length + 1) rest) =
      { dur := applyFiles { journal := D.journal ++ (List.range m).map (fun x => (D.revs.length, x)),
                            revs := D.revs ++ [⟨m, m, false⟩] } rest, work := none } := by
  rw [applyOps_append, applyOps_pure_none _ (bodyE_pure _ _ _ _)]
  unfold failedFile
  rw [bodyE_effect]
  have hr : List.range m = List.range j ++ List.range' j (m - j) := by
    rw [List.range_eq_range', List.range_eq_range']
    have := List.range'_append (s := 0) (m := j) (n := m - j) (step := 1)
    simp only [Nat.one_mul, Nat.zero_add] at this
    rw [this]; congr 1; omega
  have hl : ({ journal := D.journal ++ (List.range j).map (fun x => (D.revs.length, x)) ++
      (List.range' j (m - j)).map (fun x => (D.revs.length, x)), revs := D.revs ++ [⟨m, m, false⟩] } : Db).revs.length
      = D.revs.length + 1 := by simp
  rw [← hl, mblocks_full]
  congr 2
  simp [hr]

end Atlas.Tx
