/-
The single-file specification of `execute` used by the C09 invariant: what one `Execute` does to the
journal and to the file's revision, under ANY fault schedule.
-/
import Lemmas.Exec

namespace Atlas.Exec
open Atlas

/-- the table holds the complete record of file `m`. -/
def Complete (revs : List Revision) (m : MFile) : Prop :=
  ∃ r, findRev m.version revs = some r ∧ r.applied = m.stmts.length ∧ r.total = m.stmts.length

/-- `a` statements of `m` are recorded (no record at all counts as 0), with the hashes the resume
check will look for. -/
def Recorded (H : Text → String) (revs : List Revision) (m : MFile) (a : Nat) : Prop :=
  (findRev m.version revs = none ∧ a = 0) ∨
  (∃ r, findRev m.version revs = some r ∧ r.applied = a ∧ r.total = m.stmts.length ∧
    r.partialHashes = (sums H m.stmts).take a)

/-! ### writeRevision -/

theorem writeRevision_cases (w : World) (r : Revision) :
    ((writeRevision w r).2 = true ∧ (writeRevision w r).1 = { w with tick := w.tick + 1, wfails := w.wfails + 1 }) ∨
    ((writeRevision w r).2 = false ∧ (writeRevision w r).1 = { w with tick := w.tick + 1, revs := upsert r w.revs }) := by
  unfold writeRevision World.op
  by_cases h : w.tick ∈ w.faults <;> simp [h]

/-! ### the statement loop -/

/-- Specification of the statement loop started with the in-memory revision `r` persisted. -/
structure LoopPost (sm : List String) (rest : List Text) (w : World) (r : Revision)
    (o : World × Revision × Res) : Prop where
  other : ∀ v, v ≠ r.version → findRev v o.1.revs = findRev v w.revs
  calls : ∃ c, o.1.calls = w.calls ++ c
  faults : o.1.faults = w.faults
  shape :
    -- all statements ran and were recorded
    (o.2.2 = .ok ∧ o.1.journal = w.journal ++ rest ∧ o.1.wfails = w.wfails ∧
      findRev r.version o.1.revs = some o.2.1 ∧ o.2.1.applied = r.applied + rest.length ∧
      o.2.1.partialHashes = r.partialHashes ++ (sm.drop r.applied).take rest.length ∧
      o.2.1.total = r.total ∧ o.2.1.version = r.version) ∨
    -- statement t failed: t recorded, nothing unrecorded
    (∃ t, t < rest.length ∧ o.2.2 = .stmt false ∧ o.1.journal = w.journal ++ rest.take t ∧
      o.1.wfails = w.wfails ∧ o.2.1.applied = r.applied + t ∧ o.2.1.version = r.version ∧
      o.2.1.total = r.total ∧
      o.2.1.partialHashes = r.partialHashes ++ (sm.drop r.applied).take t ∧
      ∃ p, findRev r.version o.1.revs = some p ∧ p.applied = r.applied + t ∧ p.total = r.total ∧
        p.partialHashes = r.partialHashes ++ (sm.drop r.applied).take t) ∨
    -- the write after statement t failed: t recorded, one executed but unrecorded
    (∃ t, t < rest.length ∧ o.2.2 = .writeRev ∧ o.1.journal = w.journal ++ rest.take (t + 1) ∧
      o.1.wfails = w.wfails + 1 ∧
      ∃ p, findRev r.version o.1.revs = some p ∧ p.applied = r.applied + t ∧ p.total = r.total ∧
        p.partialHashes = r.partialHashes ++ (sm.drop r.applied).take t)

theorem execStmt_cases (w : World) (s : Text) :
    ((execStmt w s).2 = true ∧
      (execStmt w s).1 = { w with tick := w.tick + 1, calls := w.calls ++ [s] }) ∨
    ((execStmt w s).2 = false ∧
      (execStmt w s).1 = { w with tick := w.tick + 1, calls := w.calls ++ [s], journal := w.journal ++ [s] }) := by
  unfold execStmt World.op
  by_cases h : w.tick ∈ w.faults <;> simp [h]

theorem bump_partial (sm : List String) (r : Revision) (h : r.applied < sm.length) :
    (bump sm r).partialHashes = r.partialHashes ++ (sm.drop r.applied).take 1 := by
  simp only [bump]
  rw [List.getElem?_eq_getElem h, List.drop_eq_getElem_cons h]
  rfl

theorem drop_take_succ (sm : List String) (a n : Nat) (h : a < sm.length) :
    (sm.drop a).take 1 ++ (sm.drop (a + 1)).take n = (sm.drop a).take (n + 1) := by
  rw [List.drop_eq_getElem_cons h]
  rfl

/-- the persisted record only has to agree with the in-memory revision on progress (the file hash of
the in-memory revision may have been refreshed); exact equality is needed when nothing is left to run. -/
theorem stmtLoop_spec_weak (sm : List String) :
    ∀ (rest : List Text) (w : World) (r : Revision),
      (rest = [] → findRev r.version w.revs = some r) →
      (∃ p, findRev r.version w.revs = some p ∧ p.applied = r.applied ∧ p.total = r.total ∧
        p.partialHashes = r.partialHashes) →
      r.applied + rest.length ≤ sm.length →
      LoopPost sm rest w r (stmtLoop sm rest w r) := by
  intro rest
  induction rest with
  | nil =>
    intro w r hnil _ _
    have hp := hnil rfl
    refine ⟨fun v _ => by simp [stmtLoop], ⟨[], by simp [stmtLoop]⟩, by simp [stmtLoop], ?_⟩
    left
    simp [stmtLoop, hp]
  | cons s rest ih =>
    intro w r _ hweak hlen
    obtain ⟨p0, hp, hp0a, hp0t, hp0p⟩ := hweak
    have hal : r.applied < sm.length := by simp at hlen; omega
    unfold stmtLoop
    rcases hE : execStmt w s with ⟨w1, b⟩
    rcases execStmt_cases w s with ⟨hb, hw1⟩ | ⟨hb, hw1⟩
    · -- the statement fails
      rw [hE] at hb hw1; simp only at hb hw1; subst hb
      simp only
      refine ⟨fun v _ => by rw [hw1], ⟨[s], by rw [hw1]⟩, by rw [hw1], ?_⟩
      right; left
      refine ⟨0, by simp, rfl, by rw [hw1]; simp, by rw [hw1], by simp, rfl, rfl, by simp, p0,
        by rw [hw1]; exact hp, by simp [hp0a], hp0t, by simp [hp0p]⟩
    · rw [hE] at hb hw1; simp only at hb hw1; subst hb
      simp only
      have hw1j : w1.journal = w.journal ++ [s] := by rw [hw1]
      have hw1c : w1.calls = w.calls ++ [s] := by rw [hw1]
      have hw1r : w1.revs = w.revs := by rw [hw1]
      have hw1f : w1.faults = w.faults := by rw [hw1]
      have hw1w : w1.wfails = w.wfails := by rw [hw1]
      have hr1v : (bump sm r).version = r.version := rfl
      have hr1a : (bump sm r).applied = r.applied + 1 := rfl
      have hr1t : (bump sm r).total = r.total := rfl
      have hr1p := bump_partial sm r hal
      rcases hW : writeRevision w1 (bump sm r) with ⟨w2, b2⟩
      rcases writeRevision_cases w1 (bump sm r) with ⟨hb, hwr⟩ | ⟨hb, hwr⟩
      · -- write failed
        rw [hW] at hb hwr; simp only at hb hwr; subst hb
        simp only
        refine ⟨fun v _ => by rw [hwr]; simp [hw1r], ⟨[s], by rw [hwr]; simp [hw1c]⟩,
          by rw [hwr]; simp [hw1f], ?_⟩
        right; right
        refine ⟨0, by simp, rfl, by rw [hwr]; simp [hw1j], by rw [hwr]; simp [hw1w], p0, ?_, by simp [hp0a], hp0t, by simp [hp0p]⟩
        rw [hwr]; simp only; rw [hw1r]; exact hp
      · rw [hW] at hb hwr; simp only at hb hwr; subst hb
        simp only
        have hw2r : w2.revs = upsert (bump sm r) w.revs := by rw [hwr]; simp [hw1r]
        have hp2 : findRev (bump sm r).version w2.revs = some (bump sm r) := by
          rw [hw2r, findRev_upsert]; simp
        have hlen2 : (bump sm r).applied + rest.length ≤ sm.length := by
          rw [hr1a]; simp at hlen; omega
        have post := ih w2 (bump sm r) (fun _ => hp2) ⟨_, hp2, rfl, rfl, rfl⟩ hlen2
        have hoth : ∀ v, v ≠ r.version → findRev v w2.revs = findRev v w.revs := by
          intro v hv
          rw [hw2r, findRev_upsert, if_neg]
          rw [hr1v]; exact fun h => hv h.symm
        refine ⟨fun v hv => by rw [post.other v (by rw [hr1v]; exact hv), hoth v hv], ?_, ?_, ?_⟩
        · obtain ⟨c, hc⟩ := post.calls
          exact ⟨s :: c, by rw [hc, hwr]; simp [hw1c]⟩
        · rw [post.faults, hwr]; simp [hw1f]
        · have hj2 : w2.journal = w.journal ++ [s] := by rw [hwr]; simp [hw1j]
          have hwf2 : w2.wfails = w.wfails := by rw [hwr]; simp [hw1w]
          have hdt := fun n => drop_take_succ sm r.applied n hal
          rcases post.shape with ⟨a1, a2, a3, a4, a5, a6, a7, a8⟩ | ⟨t, b1, b2, b3, b4, b5, b6, b7, b8, p, b9, b10, b11, b12⟩ |
              ⟨t, c1, c2, c3, c4, p, c5, c6, c7, c8⟩
          · left
            refine ⟨a1, by rw [a2, hj2]; simp, by rw [a3, hwf2], by rw [← hr1v]; exact a4,
              by rw [a5, hr1a]; simp; omega, ?_, by rw [a7, hr1t], by rw [a8, hr1v]⟩
            rw [a6, hr1p, hr1a, List.append_assoc, hdt]; simp
          · right; left
            refine ⟨t + 1, by simp; omega, b2, by rw [b3, hj2]; simp, by rw [b4, hwf2],
              by rw [b5, hr1a]; omega, by rw [b6, hr1v], by rw [b7, hr1t], ?_, p, by rw [← hr1v]; exact b9,
              by rw [b10, hr1a]; omega, by rw [b11, hr1t], ?_⟩
            · rw [b8, hr1p, hr1a, List.append_assoc, hdt]
            · rw [b12, hr1p, hr1a, List.append_assoc, hdt]
          · right; right
            refine ⟨t + 1, by simp; omega, c2, by rw [c3, hj2]; simp, by rw [c4, hwf2], p,
              by rw [← hr1v]; exact c5, by rw [c6, hr1a]; omega, by rw [c7, hr1t], ?_⟩
            rw [c8, hr1p, hr1a, List.append_assoc, hdt]

theorem stmtLoop_spec (sm : List String) (rest : List Text) (w : World) (r : Revision)
    (hp : findRev r.version w.revs = some r) (hlen : r.applied + rest.length ≤ sm.length) :
    LoopPost sm rest w r (stmtLoop sm rest w r) :=
  stmtLoop_spec_weak sm rest w r (fun _ => hp) ⟨r, hp, rfl, rfl, rfl⟩ hlen

/-! ### one `Execute` -/

theorem total_eta (r : Revision) (n : Nat) (h : r.total = n) : { r with total := n } = r := by
  cases r; simp at h; simp [h]

/-- What one `Execute` of file `m` does when `a` of its statements are recorded, under any faults:
`t` more statements get recorded, `e ≤ 1` is executed without being recorded (and then a revision
write failed), the journal grows by exactly those `t + e` statements, other files' records are
untouched. -/
structure FilePost (H : Text → String) (m : MFile) (a : Nat) (w : World) (o : World × Res) : Prop where
  other : ∀ v, v ≠ m.version → findRev v o.1.revs = findRev v w.revs
  faults : o.1.faults = w.faults
  shape :
    (o.2 = .ok ∧ o.1.journal = w.journal ++ m.stmts.drop a ∧ o.1.wfails = w.wfails ∧ Complete o.1.revs m) ∨
    (o.2 ≠ .ok ∧ o.2 ≠ .panic ∧ (∀ i b, o.2 ≠ .historyChanged i b) ∧ w.faults ≠ [] ∧
      ∃ t e, e ≤ 1 ∧ a + t + e ≤ m.stmts.length ∧
        o.1.journal = w.journal ++ (m.stmts.drop a).take (t + e) ∧ w.wfails + e ≤ o.1.wfails ∧
        ((Recorded H o.1.revs m (a + t) ∧ (a + t < m.stmts.length ∨ findRev m.version o.1.revs = none)) ∨
         (a + t = m.stmts.length ∧ e = 0 ∧ Complete o.1.revs m)))

theorem faults_ne_of_fail {w : World} {r : Revision} (h : (writeRevision w r).2 = true) : w.faults ≠ [] := by
  intro hf
  rw [writeRevision_nofault w r hf] at h
  simp at h

theorem loadRev_spec (H : Text → String) (w : World) (m : MFile) (a : Nat)
    (hrec : Recorded H w.revs m a) :
    (loadRev w m).applied = a ∧ (loadRev w m).total = m.stmts.length ∧
    (loadRev w m).partialHashes = (sums H m.stmts).take a ∧ (loadRev w m).version = m.version := by
  unfold loadRev
  rcases hrec with ⟨hn, ha0⟩ | ⟨r, hf, h1, h2, h3⟩
  · rw [hn]; simp [ha0]
  · rw [hf]; exact ⟨h1, h2, h3, findRev_version hf⟩

theorem hashes_extend (H : Text → String) (m : MFile) (a t : Nat) :
    (sums H m.stmts).take a ++ ((sums H m.stmts).drop a).take t = (sums H m.stmts).take (a + t) := by
  rw [← List.take_append_drop a ((sums H m.stmts).take (a + t))]
  congr 1
  · rw [List.take_take]; congr 1; omega
  · rw [List.drop_take]; congr 1; omega

theorem execute_spec (H : Text → String) (w : World) (m : MFile) (a : Nat)
    (hrec : Recorded H w.revs m a) (hal : a ≤ m.stmts.length)
    (hst : a < m.stmts.length ∨ findRev m.version w.revs = none) :
    FilePost H m a w (execute true H w m) := by
  obtain ⟨hra, hrt, hrp, hrv⟩ := loadRev_spec H w m a hrec
  have hrh : findRev m.version w.revs = none → (loadRev w m).hash = m.hash := by
    intro hn; unfold loadRev; rw [hn]
  unfold execute
  generalize loadRev w m = r at hra hrt hrp hrv hrh
  rcases hW : writeRevision w r with ⟨w1, b1⟩
  rcases writeRevision_cases w r with ⟨hb, hw1⟩ | ⟨hb, hw1⟩
  · -- the "mark as started" write failed
    rw [hW] at hb hw1; simp only at hb hw1; subst hb
    rw [executeFrom_fail hW]
    refine ⟨fun v _ => by rw [hw1], by rw [hw1], ?_⟩
    right
    refine ⟨by simp, by simp, by simp, faults_ne_of_fail (by rw [hW]), 0, 0, by omega, by omega,
      by rw [hw1]; simp, by rw [hw1]; simp, ?_⟩
    left
    exact ⟨by rw [hw1]; simpa using hrec, by rw [hw1]; simpa using hst⟩
  · rw [hW] at hb hw1; simp only at hb hw1; subst hb
    rw [executeFrom_ok hW]
    have hw1r : w1.revs = upsert r w.revs := by rw [hw1]
    have hw1j : w1.journal = w.journal := by rw [hw1]
    have hw1w : w1.wfails = w.wfails := by rw [hw1]
    have hw1f : w1.faults = w.faults := by rw [hw1]
    have hp1 : findRev r.version w1.revs = some r := by rw [hw1r, findRev_upsert]; simp
    have hoth1 : ∀ v, v ≠ m.version → findRev v w1.revs = findRev v w.revs := by
      intro v hv; rw [hw1r, findRev_upsert, if_neg]; rw [hrv]; exact fun h => hv h.symm
    -- the hash check passes
    have hagree : ∀ j, j < r.applied → j < (sums H m.stmts).length ∧ j < r.partialHashes.length ∧
        (sums H m.stmts)[j]?.getD "" = r.partialHashes[j]?.getD "" := by
      intro j hj
      rw [hra] at hj
      refine ⟨by simp; omega, by rw [hrp]; simp; omega, ?_⟩
      rw [hrp, List.getElem?_take_of_lt hj]
    have hC : checkOf true H m r = none := by
      unfold checkOf
      split
      · exact checkLoop_agree hagree _ _
      · rfl
    rw [afterStart_none hC]
    unfold runStmts
    have hle : ¬ r.applied > m.stmts.length := by rw [hra]; omega
    simp only [hle, if_false, if_true]
    -- the in-memory revision now carries the current length and hash of the file
    have hra2 : ({ r with total := m.stmts.length, hash := m.hash } : Revision).applied = a := hra
    have hrt2 : ({ r with total := m.stmts.length, hash := m.hash } : Revision).total = m.stmts.length := rfl
    have hrp2 : ({ r with total := m.stmts.length, hash := m.hash } : Revision).partialHashes = (sums H m.stmts).take a := hrp
    have hrv2 : ({ r with total := m.stmts.length, hash := m.hash } : Revision).version = m.version := hrv
    have hweak : ∃ p, findRev ({ r with total := m.stmts.length, hash := m.hash } : Revision).version w1.revs = some p ∧
        p.applied = ({ r with total := m.stmts.length, hash := m.hash } : Revision).applied ∧
        p.total = ({ r with total := m.stmts.length, hash := m.hash } : Revision).total ∧
        p.partialHashes = ({ r with total := m.stmts.length, hash := m.hash } : Revision).partialHashes :=
      ⟨r, hp1, rfl, hrt, rfl⟩
    have hnil : m.stmts.drop ({ r with total := m.stmts.length, hash := m.hash } : Revision).applied = [] →
        findRev ({ r with total := m.stmts.length, hash := m.hash } : Revision).version w1.revs =
          some { r with total := m.stmts.length, hash := m.hash } := by
      intro hd
      have hge : m.stmts.length ≤ r.applied := by simpa using hd
      have hfresh : findRev m.version w.revs = none := by
        rcases hst with h | h
        · omega
        · exact h
      have heq : ({ r with total := m.stmts.length, hash := m.hash } : Revision) = r := by
        have h1 := hrh hfresh
        cases r; simp at hrt h1; simp [hrt, h1]
      rw [heq]; exact hp1
    have hoth1' : ∀ v, v ≠ m.version → findRev v w1.revs = findRev v w.revs := hoth1
    clear hp1 hrh hoth1
    generalize ({ r with total := m.stmts.length, hash := m.hash } : Revision) = r' at hra2 hrt2 hrp2 hrv2 hweak hnil ⊢
    rw [show r.applied = r'.applied from by rw [hra, hra2]]
    have hlen : r'.applied + (m.stmts.drop r'.applied).length ≤ (sums H m.stmts).length := by
      simp; omega
    have post := stmtLoop_spec_weak (sums H m.stmts) (m.stmts.drop r'.applied) w1 r' hnil hweak hlen
    rcases hL : stmtLoop (sums H m.stmts) (m.stmts.drop r'.applied) w1 r' with ⟨w2, r2, res2⟩
    rw [hL] at post
    have hoth2 : ∀ v, v ≠ m.version → findRev v w2.revs = findRev v w.revs := by
      intro v hv; rw [post.other v (by rw [hrv2]; exact hv), hoth1' v hv]
    have hf2 : w2.faults = w.faults := by rw [post.faults, hw1f]
    have hdl : (m.stmts.drop r'.applied).length = m.stmts.length - a := by simp [hra2]
    rcases post.shape with ⟨a1, a2, a3, a4, a5, a6, a7, a8⟩ | ⟨t, b1, b2, b3, b4, b5, b6, b7, b8, p, b9, b10, b11, b12⟩ |
        ⟨t, c1, c2, c3, c4, p, c5, c6, c7, c8⟩
    · -- all statements done: the deferred final write
      simp only at a1 a2 a3 a4 a5 a6 a7 a8
      subst a1
      simp only [deferred]
      have hr2L : r2.applied = m.stmts.length := by rw [a5, hdl, hra2]; omega
      have hr2t : r2.total = m.stmts.length := by rw [a7, hrt2]
      rcases hW3 : writeRevision w2 { r2 with partialHashes := [] } with ⟨w3, b3⟩
      rcases writeRevision_cases w2 { r2 with partialHashes := [] } with ⟨hb, hw3⟩ | ⟨hb, hw3⟩
      · rw [hW3] at hb hw3; simp only at hb hw3; subst hb
        simp only [if_true]
        refine ⟨fun v hv => by rw [hw3]; exact hoth2 v hv, by rw [hw3]; exact hf2, ?_⟩
        right
        refine ⟨by simp, by simp, by simp, ?_, m.stmts.length - a, 0, by omega, by omega, ?_, ?_, ?_⟩
        · rw [← hf2]; exact faults_ne_of_fail (by rw [hW3])
        · rw [hw3]; simp only; rw [a2, hw1j, hra2]; congr 1
          rw [Nat.add_zero, List.take_of_length_le (by simp)]
        · rw [hw3]; simp only; rw [a3, hw1w]; omega
        · right
          refine ⟨by omega, rfl, r2, ?_, hr2L, hr2t⟩
          rw [hw3]; simp only; rw [← hrv2]; exact a4
      · rw [hW3] at hb hw3; simp only at hb hw3; subst hb
        simp only [Bool.false_eq_true, if_false]
        refine ⟨fun v hv => ?_, by rw [hw3]; exact hf2, ?_⟩
        · rw [hw3]; simp only; rw [findRev_upsert, if_neg]
          · exact hoth2 v hv
          · simp only; rw [a8, hrv2]; exact fun h => hv h.symm
        · left
          refine ⟨rfl, by rw [hw3]; simp only; rw [a2, hw1j, hra2], by rw [hw3]; simp only; rw [a3, hw1w], ?_⟩
          refine ⟨{ r2 with partialHashes := [] }, ?_, hr2L, hr2t⟩
          rw [hw3]; simp only; rw [findRev_upsert, if_pos]; simp only; rw [a8, hrv2]
    · -- statement t failed: deferred write of the revision with the error
      simp only at b1 b2 b3 b4 b5 b6 b7 b8 b9
      subst b2
      have hlt : a + t < m.stmts.length := by rw [hdl] at b1; omega
      have hne : w.faults ≠ [] := by
        intro hnf
        have := (stmtLoop_nofault (sums H m.stmts) (m.stmts.drop r'.applied) w1 r' (by rw [hw1f]; exact hnf)).1
        rw [hL] at this; simp at this
      simp only [deferred]
      rcases hW3 : writeRevision w2 r2 with ⟨w3, b3'⟩
      have hphash : r'.partialHashes ++ ((sums H m.stmts).drop r'.applied).take t = (sums H m.stmts).take (a + t) := by
        rw [hrp2, hra2]; exact hashes_extend H m a t
      rcases writeRevision_cases w2 r2 with ⟨hb, hw3⟩ | ⟨hb, hw3⟩
      · rw [hW3] at hb hw3; simp only at hb hw3; subst hb
        refine ⟨fun v hv => by rw [hw3]; exact hoth2 v hv, by rw [hw3]; exact hf2, ?_⟩
        right
        refine ⟨by simp, by simp, by simp, hne, t, 0, by omega, by omega, ?_, ?_, ?_⟩
        · rw [hw3]; simp only; rw [b3, hw1j, hra2]; rfl
        · rw [hw3]; simp only; rw [b4, hw1w]; omega
        · left
          refine ⟨Or.inr ⟨p, ?_, by rw [b10, hra2], by rw [b11, hrt2], by rw [b12, hphash]⟩, Or.inl hlt⟩
          rw [hw3]; simp only; rw [← hrv2]; exact b9
      · rw [hW3] at hb hw3; simp only at hb hw3; subst hb
        refine ⟨fun v hv => ?_, by rw [hw3]; exact hf2, ?_⟩
        · rw [hw3]; simp only; rw [findRev_upsert, if_neg]
          · exact hoth2 v hv
          · rw [b6, hrv2]; exact fun h => hv h.symm
        · right
          refine ⟨by simp, by simp, by simp, hne, t, 0, by omega, by omega, ?_, ?_, ?_⟩
          · rw [hw3]; simp only; rw [b3, hw1j, hra2]; rfl
          · rw [hw3]; simp only; rw [b4, hw1w]; omega
          · left
            refine ⟨Or.inr ⟨r2, ?_, by rw [b5, hra2], by rw [b7, hrt2], by rw [b8, hphash]⟩, Or.inl hlt⟩
            rw [hw3]; simp only; rw [findRev_upsert, if_pos]; rw [b6, hrv2]
    · -- the write after statement t failed: no deferred write
      simp only at c1 c2 c3 c4 c5
      subst c2
      have hlt : a + t < m.stmts.length := by rw [hdl] at c1; omega
      have hne : w.faults ≠ [] := by
        intro hnf
        have := (stmtLoop_nofault (sums H m.stmts) (m.stmts.drop r'.applied) w1 r' (by rw [hw1f]; exact hnf)).1
        rw [hL] at this; simp at this
      have hphash : r'.partialHashes ++ ((sums H m.stmts).drop r'.applied).take t = (sums H m.stmts).take (a + t) := by
        rw [hrp2, hra2]; exact hashes_extend H m a t
      simp only [deferred]
      refine ⟨hoth2, hf2, ?_⟩
      right
      refine ⟨by simp, by simp, by simp, hne, t, 1, by omega, by omega, ?_, ?_, ?_⟩
      · simp only; rw [c3, hw1j, hra2]
      · simp only; rw [c4, hw1w]; exact Nat.le_refl _
      · left
        refine ⟨Or.inr ⟨p, by rw [← hrv2]; exact c5, by rw [c6, hra2], by rw [c7, hrt2], by rw [c8, hphash]⟩, Or.inl hlt⟩

end Atlas.Exec
