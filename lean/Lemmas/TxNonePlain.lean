/- `--tx-mode none` on directories without directives, ANY content: the loop never opens a transaction, so
every operation performed is durable at once and nothing is ever undone. -/
import Lemmas.TxAllAtomic
namespace Atlas.Tx

/-- what an operation does to a database when no transaction is open. -/
def durApply (d : Db) : Op → Db
  | .stmt f i => d.addStmt f i
  | .rev f r => d.setRev f r
  | _ => d

theorem applyOps_plain_closed (ops : List Op) (d : Db) (h : ∀ op ∈ ops, op.plain = true) :
    applyOps { dur := d, work := none } ops = { dur := ops.foldl durApply d, work := none } := by
  induction ops generalizing d with
  | nil => rfl
  | cons op rest ih =>
    have hq := h op (by simp)
    have h1 : applyOp { dur := d, work := none } op = { dur := durApply d op, work := none } := by
      cases op <;> simp [Op.plain] at hq <;> simp [applyOp, St.write, durApply]
    simp only [applyOps, List.foldl_cons] at *
    rw [h1]
    exact ih _ (fun o ho => h o (by simp [ho]))

theorem modeFor_none (cfg : Cfg) (h : cfg.mode = .none) (f : TFile) (hd : f.directive = none) :
    modeFor cfg f = some .none := by
  unfold modeFor; simp [hd, h]

/-- `--tx-mode none`, files without directives: the loop never opens a transaction. -/
theorem planFiles_none_plain (cfg : Cfg) (h : cfg.mode = .none) (db : Db) (files : List TFile)
    (hd : ∀ f ∈ files, f.directive = none) :
    ∀ (fi : Nat), ∀ op ∈ (planFiles cfg db false fi files).1, op.plain = true := by
  induction files with
  | nil => intro fi op hop; simp [planFiles] at hop
  | cons f rest ih =>
    intro fi op hop
    have hm := modeFor_none cfg h f (hd f (by simp))
    unfold planFiles at hop
    simp only [hm, Bool.false_eq_true, ↓reduceIte] at hop
    cases hok : (fileOps db fi f).2 with
    | false =>
      simp only [hok, Bool.false_eq_true, ↓reduceIte] at hop
      exact fileOps_plain db fi f op hop
    | true =>
      simp only [hok, ↓reduceIte] at hop
      rcases List.mem_append.mp hop with h1 | h1
      · exact fileOps_plain db fi f op h1
      · exact ih (fun g hg => hd g (by simp [hg])) (fi + 1) op h1

/-- **crash in mode `none`** (any directory without directives - failing statements anywhere -, any count, any
revision table): whatever was performed before the process died is durable, in order; nothing is undone. -/
theorem plan_none_crash_any (cfg : Cfg) (h : cfg.mode = .none) (dir : List TFile)
    (hd : ∀ f ∈ dir, f.directive = none) (db : Db) (k : Nat) :
    crashAt db (plan cfg dir db).1 k = ((plan cfg dir db).1.take k).foldl durApply db := by
  unfold plan
  by_cases hdr : cfg.dryRun = true
  · simp [hdr, crashAt, St.crash, applyOps]
  · simp only [hdr, Bool.false_eq_true, ↓reduceIte]
    have hsub : ∀ f ∈ limit cfg.count (dir.drop (pendingStart db)), f.directive = none := by
      intro f hf
      apply hd
      unfold limit at hf
      cases hc : cfg.count with
      | none => simp [hc] at hf; exact List.mem_of_mem_drop hf
      | some n => simp [hc] at hf; exact List.mem_of_mem_drop (List.mem_of_mem_take hf)
    have hp := planFiles_none_plain cfg h db _ hsub (pendingStart db)
    unfold crashAt St.crash
    rw [applyOps_plain_closed _ db (fun op hop => hp op (List.mem_of_mem_take hop))]

end Atlas.Tx
