import Atlas.Clean
namespace Atlas.Clean

/-- what "clean" means for a set of tables: nothing but - possibly - the revision table. -/
def OnlyRev (tables : List String) (revT : String) : Prop := tables = [] ∨ tables = [revT]

theorem boundClean_iff (s : Sch) (revS revT : String) :
    boundClean s revS revT = true ↔ s.tables = [] ∨ ((revS = "" ∨ s.name = revS) ∧ s.tables = [revT]) := by
  unfold boundClean
  match h : s.tables with
  | [] => simp
  | [a] => simp
  | a :: b :: t => simp

/-- MySQL, realm connection: clean iff every database is the revision database and holds at most the revision
table (database names are distinct, so there is at most one such database). -/
theorem mysqlRealmClean_iff (r : List Sch) (revS revT : String) (hn : (r.map (·.name)).Nodup) :
    mysqlRealmClean r revS revT = true ↔ ∀ s ∈ r, s.name = revS ∧ OnlyRev s.tables revT := by
  unfold mysqlRealmClean OnlyRev
  match r with
  | [] => simp
  | [s] =>
    match h : s.tables with
    | [] => simp [h]
    | [a] => simp [h]
    | a :: b :: t => simp [h]
  | s1 :: s2 :: rest =>
    simp only [Bool.false_eq_true, false_iff]
    intro hall
    have h1 := (hall s1 (by simp)).1
    have h2 := (hall s2 (by simp)).1
    simp at hn
    exact hn.1.1 (h1.trans h2.symm)

/-- PostgreSQL, database connection: clean iff every schema is the empty `public` or the revision schema holding
exactly the revision table. -/
theorem pgRealmClean_iff (r : List Sch) (revS revT : String) :
    pgRealmClean r revS revT = true ↔
      ∀ s ∈ r, (s.tables = [] ∧ s.name = "public") ∨ (s.name = revS ∧ s.tables = [revT]) := by
  induction r with
  | nil => simp [pgRealmClean]
  | cons s rest ih =>
    unfold pgRealmClean
    match h : s.tables with
    | [] =>
      by_cases hp : s.name = "public"
      · simp [h, hp, ih]
      · simp [h, hp]
    | [a] =>
      by_cases hs : s.name = revS
      · by_cases ha : a = revT
        · simp [h, hs, ha, ih]
        · simp [h, hs, ha]
      · simp [h, hs]
    | a :: b :: t =>
      by_cases hs : s.name = revS
      · simp [h, hs]
      · simp [h, hs]

theorem sqliteClean_iff (r : List Sch) (revT : String) (hn : (r.map (·.name)).Nodup) :
    sqliteClean r revT = true ↔ ∀ s ∈ r, s.name = "main" ∧ OnlyRev s.tables revT := by
  unfold sqliteClean OnlyRev
  match r with
  | [] => simp
  | [s] =>
    match h : s.tables with
    | [] => simp [h]
    | [a] => simp [h]
    | a :: b :: t => simp [h]
  | s1 :: s2 :: rest =>
    simp only [Bool.false_eq_true, false_iff]
    intro hall
    have h1 := (hall s1 (by simp)).1
    have h2 := (hall s2 (by simp)).1
    simp at hn
    exact hn.1.1 (h1.trans h2.symm)

end Atlas.Clean
