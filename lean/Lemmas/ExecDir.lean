/-
The directory-level invariant of the executor (C09): what the journal and the revision table look
like after any number of `exec` runs under any fault schedules.
-/
import Lemmas.ExecInv

namespace Atlas.Exec
open Atlas

/-- `Stutter k l J`: the journal `J` is the list `l` in order, where `k` times an element was
executed again immediately after itself (nothing skipped, nothing out of order). -/
inductive Stutter {α : Type} : Nat → List α → List α → Prop
  | nil : Stutter 0 [] []
  | next {k l J} (x : α) : Stutter k l J → Stutter k (l ++ [x]) (J ++ [x])
  | rep {k l J} (x : α) : Stutter k (l ++ [x]) J → Stutter (k + 1) (l ++ [x]) (J ++ [x])

theorem Stutter.append {α : Type} {k : Nat} {l J : List α} (h : Stutter k l J) (xs : List α) :
    Stutter k (l ++ xs) (J ++ xs) := by
  induction xs generalizing l J with
  | nil => simpa using h
  | cons x xs ih =>
    have := ih (Stutter.next x h)
    simpa using this

theorem Stutter.zero_eq {α : Type} {l J : List α} (h : Stutter 0 l J) : J = l := by
  generalize hk : 0 = k at h
  induction h with
  | nil => rfl
  | next x _ ih => rw [ih hk]
  | rep x _ _ => omega

/-- the statements of a list of files, flattened in order. -/
def flat (fs : List MFile) : List Text := (fs.map (·.stmts)).flatten

@[simp] theorem flat_nil : flat [] = [] := rfl
theorem flat_append (a b : List MFile) : flat (a ++ b) = flat a ++ flat b := by simp [flat]
theorem flat_single (m : MFile) : flat [m] = m.stmts := by simp [flat]

/-- statements of the file at the head of the pending list. -/
def headStmts : List MFile → List Text
  | [] => []
  | m :: _ => m.stmts

/-- **The invariant.** `pre` are the files completely recorded, `rest` the others; `a` statements of
the first of `rest` are recorded, `e ≤ 1` more was executed but its bookkeeping write failed; the
journal is everything up to there, in order, with `k` immediate repetitions; every repetition and the
unrecorded statement are paid for by a failed revision write (`wfails`). -/
structure DInv (H : Text → String) (pre rest : List MFile) (w : World) (a e k : Nat) : Prop where
  done : ∀ m ∈ pre, Complete w.revs m
  cur : match rest with
    | [] => a = 0 ∧ e = 0
    | m :: post => Recorded H w.revs m a ∧ a + e ≤ m.stmts.length ∧
        (a < m.stmts.length ∨ findRev m.version w.revs = none) ∧
        ∀ m' ∈ post, findRev m'.version w.revs = none
  ele : e ≤ 1
  journal : Stutter k (flat pre ++ (headStmts rest).take (a + e)) w.journal
  paid : k + e ≤ w.wfails

theorem Complete.of_other {revs revs' : List Revision} {m : MFile}
    (h : findRev m.version revs' = findRev m.version revs) (c : Complete revs m) : Complete revs' m := by
  obtain ⟨r, h1, h2, h3⟩ := c
  exact ⟨r, by rw [h, h1], h2, h3⟩

theorem take_add_drop_take {α : Type} (ss : List α) (a n : Nat) :
    ss.take a ++ (ss.drop a).take n = ss.take (a + n) := by
  rw [← List.take_append_drop a (ss.take (a + n)), List.take_take, List.drop_take]
  congr 1
  · congr 1; omega
  · congr 1; omega

/-- journal bookkeeping for one file: appending the `n` newly executed statements starting at `a`
when `e` says whether statement `a` itself had already been executed once. -/
theorem stutter_file {k a e n : Nat} {base J ss : List Text} (he : e ≤ 1) (hae : a + e ≤ ss.length)
    (hn : a + n ≤ ss.length) (h : Stutter k (base ++ ss.take (a + e)) J) :
    ∃ k', Stutter k' (base ++ ss.take (max (a + e) (a + n))) (J ++ (ss.drop a).take n) ∧
      k' ≤ k + e ∧ (n = 0 → k' = k) := by
  rcases Nat.eq_zero_or_pos n with hn0 | hnpos
  · subst hn0
    refine ⟨k, ?_, by omega, fun _ => rfl⟩
    simpa using h
  · rcases Nat.eq_zero_or_pos e with he0 | hepos
    · subst he0
      refine ⟨k, ?_, by omega, fun h => by omega⟩
      have := h.append ((ss.drop a).take n)
      rw [List.append_assoc, Nat.add_zero, take_add_drop_take] at this
      have hm : max (a + 0) (a + n) = a + n := by omega
      rw [hm]; exact this
    · have he1 : e = 1 := by omega
      subst he1
      have ha : a < ss.length := by omega
      -- the first appended statement repeats the last executed one
      have h1 : ss.take (a + 1) = ss.take a ++ [ss[a]] := List.take_succ_eq_append_getElem ha
      have hd : (ss.drop a).take n = [ss[a]] ++ (ss.drop (a + 1)).take (n - 1) := by
        rw [List.drop_eq_getElem_cons ha]
        obtain ⟨n', rfl⟩ : ∃ n', n = n' + 1 := ⟨n - 1, by omega⟩
        rfl
      rw [h1, ← List.append_assoc] at h
      have h2 := (Stutter.rep ss[a] h).append ((ss.drop (a + 1)).take (n - 1))
      refine ⟨k + 1, ?_, by omega, fun h => by omega⟩
      have hm : max (a + 1) (a + n) = a + n := by omega
      rw [hm, hd, ← List.append_assoc J]
      have : base ++ ss.take (a + n) = base ++ ss.take a ++ [ss[a]] ++ (ss.drop (a + 1)).take (n - 1) := by
        rw [List.append_assoc, List.append_assoc, ← List.append_assoc (ss.take a), ← h1,
          take_add_drop_take]
        congr 2; omega
      rw [this]; exact h2

theorem nodup_mid {α : Type} {l1 l2 : List α} {a : α} (h : (l1 ++ a :: l2).Nodup) : a ∉ l1 ++ l2 := by
  rw [List.nodup_append] at h
  obtain ⟨_, h2, h3⟩ := h
  rw [List.nodup_cons] at h2
  intro hm
  rcases List.mem_append.mp hm with x | x
  · exact h3 a x a (List.mem_cons_self ..) rfl
  · exact h2.1 x

theorem execFiles_cons_ok {H : Text → String} {w w1 : World} {m : MFile} {post : List MFile}
    (h : execute true H w m = (w1, .ok)) : execFiles true H (m :: post) w = execFiles true H post w1 := by
  rw [execFiles, h]

theorem execFiles_cons_err {H : Text → String} {w w1 : World} {m : MFile} {post : List MFile} {res : Res}
    (h : execute true H w m = (w1, res)) (hne : res ≠ .ok) : execFiles true H (m :: post) w = (w1, res) := by
  rw [execFiles, h]
  cases res <;> simp at hne ⊢

/-- file `m` just became completely recorded: move it to `pre`. -/
theorem dinv_advance {H : Text → String} {pre post : List MFile} {m : MFile} {w w1 : World} {a e k k' : Nat}
    (hnd : ((pre ++ m :: post).map (·.version)).Nodup)
    (inv : DInv H pre (m :: post) w a e k)
    (hoth : ∀ v, v ≠ m.version → findRev v w1.revs = findRev v w.revs)
    (hc : Complete w1.revs m)
    (hj : Stutter k' (flat pre ++ m.stmts) w1.journal) (hk : k' ≤ w1.wfails) :
    DInv H (pre ++ [m]) post w1 0 0 k' := by
  have hvs : ∀ m' ∈ pre ++ post, m'.version ≠ m.version := by
    intro m' hm' heq
    rw [List.map_append, List.map_cons] at hnd
    apply nodup_mid hnd
    rw [← List.map_append, ← heq]
    exact List.mem_map_of_mem hm'
  obtain ⟨_, _, _, hpost⟩ := inv.cur
  refine ⟨?_, ?_, by omega, ?_, by omega⟩
  · intro m' hm'
    rcases List.mem_append.mp hm' with h | h
    · exact (inv.done m' h).of_other (hoth _ (hvs m' (List.mem_append_left _ h)))
    · simp at h; subst h; exact hc
  · cases post with
    | nil => exact ⟨rfl, rfl⟩
    | cons m2 post2 =>
      have hn2 : findRev m2.version w1.revs = none := by
        rw [hoth _ (hvs m2 (List.mem_append_right _ (List.mem_cons_self ..)))]
        exact hpost m2 (List.mem_cons_self ..)
      refine ⟨Or.inl ⟨hn2, rfl⟩, by omega, Or.inr hn2, ?_⟩
      intro m' hm'
      rw [hoth _ (hvs m' (List.mem_append_right _ (List.mem_cons_of_mem _ hm')))]
      exact hpost m' (List.mem_cons_of_mem _ hm')
  · simpa [flat_append, flat_single] using hj

theorem execFiles_inv (H : Text → String) :
    ∀ (rest pre : List MFile) (w : World) (a e k : Nat),
      ((pre ++ rest).map (·.version)).Nodup → DInv H pre rest w a e k →
      ∃ pre' rest' a' e' k', pre' ++ rest' = pre ++ rest ∧
        DInv H pre' rest' (execFiles true H rest w).1 a' e' k' ∧
        ((execFiles true H rest w).2 = .ok → rest' = []) ∧
        (execFiles true H rest w).2 ≠ .panic ∧
        (∀ i b, (execFiles true H rest w).2 ≠ .historyChanged i b) ∧
        (w.faults = [] → (execFiles true H rest w).2 = .ok) := by
  intro rest
  induction rest with
  | nil =>
    intro pre w a e k _ inv
    exact ⟨pre, [], a, e, k, rfl, by simpa [execFiles] using inv, fun _ => rfl, by simp [execFiles],
      by simp [execFiles], fun _ => by simp [execFiles]⟩
  | cons m post ih =>
    intro pre w a e k hnd inv
    obtain ⟨hrec, hae, hst, hpost⟩ := inv.cur
    have spec := execute_spec H w m a hrec (by omega) hst
    rcases hE : execute true H w m with ⟨w1, res⟩
    rw [hE] at spec
    have hoth := spec.other
    simp only at hoth
    have hvs : ∀ m' ∈ pre ++ post, m'.version ≠ m.version := by
      intro m' hm' heq
      rw [List.map_append, List.map_cons] at hnd
      apply nodup_mid hnd
      rw [← List.map_append, ← heq]
      exact List.mem_map_of_mem hm'
    have hjr := inv.journal
    simp only [headStmts] at hjr
    rcases spec.shape with ⟨s1, s2, s3, s4⟩ | ⟨s1, s2, s3, s4, t, e', s5, s6, s7, s8, s9⟩
    · -- the file completed
      simp only at s1 s2 s3 s4
      subst s1
      rw [execFiles_cons_ok hE]
      obtain ⟨k', hst', hk', _⟩ := stutter_file (n := m.stmts.length - a) inv.ele hae (by omega) hjr
      have hmax : max (a + e) (a + (m.stmts.length - a)) = m.stmts.length := by omega
      rw [hmax, List.take_length, List.take_of_length_le (by simp), ← s2] at hst'
      have inv1 := dinv_advance hnd inv hoth s4 hst' (by rw [s3]; have := inv.paid; omega)
      have hnd1 : (((pre ++ [m]) ++ post).map (·.version)).Nodup := by simpa using hnd
      obtain ⟨pre', rest', a', e', k'', h1, h2, h3, h4, h5, h6⟩ := ih (pre ++ [m]) w1 0 0 k' hnd1 inv1
      refine ⟨pre', rest', a', e', k'', by rw [h1]; simp, h2, h3, h4, h5, fun hf => h6 ?_⟩
      have := spec.faults; simp only at this; rw [this]; exact hf
    · -- the run stopped in this file
      simp only at s1 s2 s3 s4 s5 s6 s7 s8 s9
      rw [execFiles_cons_err hE s1]
      simp only
      obtain ⟨k', hst', hk', hk0⟩ := stutter_file (n := t + e') inv.ele hae (by omega) hjr
      rw [← s7] at hst'
      rcases s9 with ⟨hrec', hst''⟩ | ⟨hL, he0, hc⟩
      · -- still (or again) partially recorded
        refine ⟨pre, m :: post, ?_⟩
        have hdone : ∀ m' ∈ pre, Complete w1.revs m' := fun m' hm' =>
          (inv.done m' hm').of_other (hoth _ (hvs m' (List.mem_append_left _ hm')))
        have hpost' : ∀ m' ∈ post, findRev m'.version w1.revs = none := fun m' hm' => by
          rw [hoth _ (hvs m' (List.mem_append_right _ hm'))]; exact hpost m' hm'
        rcases Nat.eq_zero_or_pos (t + e') with hn0 | hnpos
        · have ht0 : t = 0 := by omega
          have he0 : e' = 0 := by omega
          subst ht0; subst he0
          refine ⟨a, e, k, rfl, ⟨hdone, ⟨by simpa using hrec', hae, by simpa using hst'', hpost'⟩, inv.ele, ?_,
            by have := inv.paid; omega⟩, fun h => absurd h s1, s2, s3, fun hf => absurd hf s4⟩
          have hm : max (a + e) (a + (0 + 0)) = a + e := by omega
          rw [hk0 rfl, hm] at hst'
          simpa [headStmts] using hst'
        · refine ⟨a + t, e', k', rfl, ⟨hdone, ⟨hrec', by omega, hst'', hpost'⟩, s5, ?_,
            by have := inv.paid; omega⟩, fun h => absurd h s1, s2, s3, fun hf => absurd hf s4⟩
          have hm : max (a + e) (a + (t + e')) = a + t + e' := by have := inv.ele; omega
          rw [hm] at hst'
          simpa [headStmts] using hst'
      · -- completely recorded although the run reported an error (final write failed)
        subst he0
        have hmax : max (a + e) (a + (t + 0)) = m.stmts.length := by omega
        have ht : t + 0 = m.stmts.length - a := by omega
        rw [hmax, List.take_length] at hst'
        have inv1 := dinv_advance hnd inv hoth hc hst' (by have := inv.paid; omega)
        exact ⟨pre ++ [m], post, 0, 0, k', by simp, inv1, fun h => absurd h s1, s2, s3, fun hf => absurd hf s4⟩

end Atlas.Exec
