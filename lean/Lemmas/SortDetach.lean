/-
`detachReferences` (sql/internal/sqlx/plan.go) on a change set that only creates tables: every table
is created without its foreign keys to other tables, and those keys are added afterwards by separate
ALTER changes. Explicit form of the result and the facts the ordering theorem needs.
-/
import Atlas.Sort

namespace Atlas.Sort

def extFks (c : Ch) : List FK := c.fks.filter (fun fk => fk.ref != c.table)
def selfFks (c : Ch) : List FK := c.fks.filter (fun fk => fk.ref == c.table)

/-- the `planned` half for a list of table creations, with `nid` the next fresh identity. -/
def plannedOf : Nat → List Ch → List Ch
  | _, [] => []
  | nid, c :: t =>
    if (extFks c).isEmpty then c :: plannedOf nid t
    else { c with id := nid, fks := selfFks c } :: plannedOf (nid + 2) t

/-- the `deferred` half. -/
def deferredOf : Nat → List Ch → List Ch
  | _, [] => []
  | nid, c :: t =>
    if (extFks c).isEmpty then deferredOf nid t
    else { id := nid + 1, kind := .modify, table := c.table, subs := (extFks c).map Sub.addFK } :: deferredOf (nid + 2) t

theorem detach_fold_add : ∀ (l : List Ch) (p d : List Ch) (nid : Nat), (∀ c ∈ l, c.kind = .add) →
    ∃ nid', l.foldl detachStep (p, d, nid) = (p ++ plannedOf nid l, d ++ deferredOf nid l, nid') := by
  intro l
  induction l with
  | nil => intro p d nid _; exact ⟨nid, by simp [plannedOf, deferredOf]⟩
  | cons c t ih =>
    intro p d nid h
    have hc := h c (List.mem_cons_self ..)
    have ht : ∀ x ∈ t, x.kind = .add := fun x hx => h x (List.mem_cons_of_mem _ hx)
    rw [List.foldl_cons]
    by_cases he : (extFks c).isEmpty = true
    · have hstep : detachStep (p, d, nid) c = (p ++ [c], d, nid) := by
        unfold detachStep; simp only [hc]
        have : (c.fks.filter (fun fk => fk.ref != c.table)).isEmpty = true := he
        simp [this]
      rw [hstep]
      obtain ⟨nid', h'⟩ := ih (p ++ [c]) d nid ht
      refine ⟨nid', ?_⟩
      rw [h']
      simp [plannedOf, deferredOf, he]
    · have he' : (extFks c).isEmpty = false := by simpa using he
      have hstep : detachStep (p, d, nid) c =
          (p ++ [{ c with id := nid, fks := selfFks c }],
           d ++ [{ id := nid + 1, kind := .modify, table := c.table, subs := (extFks c).map Sub.addFK }], nid + 2) := by
        unfold detachStep; simp only [hc]
        have : (c.fks.filter (fun fk => fk.ref != c.table)).isEmpty = false := he'
        simp [this, selfFks, extFks]
      rw [hstep]
      obtain ⟨nid', h'⟩ := ih _ _ (nid + 2) ht
      refine ⟨nid', ?_⟩
      rw [h']
      simp [plannedOf, deferredOf, he']

/-- explicit form of `detachReferences` on table creations. -/
theorem detachReferences_add (cs : List Ch) (h : ∀ c ∈ cs, c.kind = .add) :
    detachReferences cs = plannedOf (freshBase cs) cs ++ deferredOf (freshBase cs) cs := by
  unfold detachReferences
  obtain ⟨nid', h'⟩ := detach_fold_add cs [] [] (freshBase cs) h
  rw [h']
  simp

/-! ### facts about the two halves -/

theorem plannedOf_table : ∀ (l : List Ch) (nid : Nat), (plannedOf nid l).map (·.table) = l.map (·.table) := by
  intro l
  induction l with
  | nil => intro _; rfl
  | cons c t ih =>
    intro nid
    unfold plannedOf
    split <;> simp [ih]

theorem plannedOf_kind : ∀ (l : List Ch) (nid : Nat), (∀ c ∈ l, c.kind = .add) →
    ∀ p ∈ plannedOf nid l, p.kind = .add ∧ ∀ fk ∈ p.fks, fk.ref = p.table := by
  intro l
  induction l with
  | nil => intro _ _ p hp; cases hp
  | cons c t ih =>
    intro nid h p hp
    have hc := h c (List.mem_cons_self ..)
    have ht : ∀ x ∈ t, x.kind = .add := fun x hx => h x (List.mem_cons_of_mem _ hx)
    unfold plannedOf at hp
    split at hp
    · rename_i he
      rcases List.mem_cons.mp hp with rfl | hp
      · refine ⟨hc, ?_⟩
        intro fk hfk
        by_cases hr : fk.ref = p.table
        · exact hr
        · exfalso
          have : fk ∈ extFks p := by
            unfold extFks; rw [List.mem_filter]; exact ⟨hfk, by simpa using hr⟩
          have hne : extFks p ≠ [] := List.ne_nil_of_mem this
          exact hne (by simpa using he)
      · exact ih nid ht p hp
    · rcases List.mem_cons.mp hp with rfl | hp
      · refine ⟨hc, ?_⟩
        intro fk hfk
        simp only [selfFks, List.mem_filter, beq_iff_eq] at hfk
        exact hfk.2
      · exact ih (nid + 2) ht p hp

theorem deferredOf_spec : ∀ (l : List Ch) (nid : Nat),
    ∀ d ∈ deferredOf nid l, d.kind = .modify ∧ ∃ c ∈ l, d.table = c.table ∧ d.subs = (extFks c).map Sub.addFK := by
  intro l
  induction l with
  | nil => intro _ d hd; cases hd
  | cons c t ih =>
    intro nid d hd
    unfold deferredOf at hd
    split at hd
    · obtain ⟨h1, c', hc', h2⟩ := ih nid d hd
      exact ⟨h1, c', List.mem_cons_of_mem _ hc', h2⟩
    · rcases List.mem_cons.mp hd with rfl | hd
      · exact ⟨rfl, c, List.mem_cons_self .., rfl, rfl⟩
      · obtain ⟨h1, c', hc', h2⟩ := ih (nid + 2) d hd
        exact ⟨h1, c', List.mem_cons_of_mem _ hc', h2⟩

/-- every external foreign key of every created table is carried by a deferred ALTER of that table. -/
theorem deferredOf_complete : ∀ (l : List Ch) (nid : Nat) (c : Ch), c ∈ l → ∀ fk ∈ c.fks, fk.ref ≠ c.table →
    ∃ d ∈ deferredOf nid l, d.kind = .modify ∧ d.table = c.table ∧ Sub.addFK fk ∈ d.subs := by
  intro l
  induction l with
  | nil => intro _ c hc; cases hc
  | cons a t ih =>
    intro nid c hc fk hfk hne
    have hext : fk ∈ extFks c := by
      unfold extFks; rw [List.mem_filter]; exact ⟨hfk, by simpa using hne⟩
    unfold deferredOf
    rcases List.mem_cons.mp hc with rfl | hct
    · have he : (extFks c).isEmpty = false := by
        cases h : extFks c with
        | nil => rw [h] at hext; cases hext
        | cons _ _ => rfl
      simp only [he, Bool.false_eq_true, if_false]
      exact ⟨_, List.mem_cons_self .., rfl, rfl, List.mem_map_of_mem hext⟩
    · split
      · exact ih nid c hct fk hfk hne
      · obtain ⟨d, hd, h⟩ := ih (nid + 2) c hct fk hfk hne
        exact ⟨d, List.mem_cons_of_mem _ hd, h⟩

/-- identities: originals (all below `nid`) or fresh ones from `nid` on, pairwise different. -/
theorem ids_bound : ∀ (l : List Ch) (nid : Nat),
    ∀ x ∈ plannedOf nid l ++ deferredOf nid l, x.id ∈ l.map (·.id) ∨ nid ≤ x.id := by
  intro l
  induction l with
  | nil => intro _ x hx; simp [plannedOf, deferredOf] at hx
  | cons c t ih =>
    intro nid x hx
    unfold plannedOf deferredOf at hx
    split at hx
    · simp only [List.cons_append, List.mem_cons] at hx
      rcases hx with rfl | hx
      · left; simp
      · rcases ih nid x hx with h | h
        · left; exact List.mem_cons_of_mem _ h
        · right; exact h
    · simp only [List.cons_append, List.mem_cons, List.mem_append] at hx
      rcases hx with rfl | hx | rfl | hx
      · right; exact Nat.le_refl _
      · rcases ih (nid + 2) x (List.mem_append_left _ hx) with h | h
        · left; exact List.mem_cons_of_mem _ h
        · right; omega
      · right; simp
      · rcases ih (nid + 2) x (List.mem_append_right _ hx) with h | h
        · left; exact List.mem_cons_of_mem _ h
        · right; omega

theorem ids_nodup : ∀ (l : List Ch) (nid : Nat), (l.map (·.id)).Nodup → (∀ c ∈ l, c.id < nid) →
    ((plannedOf nid l ++ deferredOf nid l).map (·.id)).Nodup := by
  intro l
  induction l with
  | nil => intro _ _ _; simp [plannedOf, deferredOf]
  | cons c t ih =>
    intro nid hnd hlt
    rw [List.map_cons, List.nodup_cons] at hnd
    have hlt' : ∀ x ∈ t, x.id < nid := fun x hx => hlt x (List.mem_cons_of_mem _ hx)
    have hc := hlt c (List.mem_cons_self ..)
    unfold plannedOf deferredOf
    split
    · simp only [List.cons_append, List.map_cons, List.nodup_cons]
      refine ⟨?_, ih nid hnd.2 hlt'⟩
      intro hm
      obtain ⟨x, hx, hxi⟩ := List.mem_map.mp hm
      rcases ids_bound t nid x hx with h | h
      · rw [hxi] at h; exact hnd.1 h
      · omega
    · have ih' := ih (nid + 2) hnd.2 (fun x hx => Nat.lt_of_lt_of_le (hlt' x hx) (by omega))
      have hfresh : ∀ x ∈ plannedOf (nid + 2) t ++ deferredOf (nid + 2) t, x.id ≠ nid ∧ x.id ≠ nid + 1 := by
        intro x hx
        rcases ids_bound t (nid + 2) x hx with h | h
        · obtain ⟨y, hy, hyi⟩ := List.mem_map.mp h
          have := hlt' y hy
          omega
        · omega
      -- nid :: P ++ (nid+1) :: D
      have hperm : ((({ c with id := nid, fks := selfFks c } : Ch) :: plannedOf (nid + 2) t) ++
          (({ id := nid + 1, kind := .modify, table := c.table, subs := (extFks c).map Sub.addFK } : Ch) ::
            deferredOf (nid + 2) t)).Perm
          (({ c with id := nid, fks := selfFks c } : Ch) ::
            ({ id := nid + 1, kind := .modify, table := c.table, subs := (extFks c).map Sub.addFK } : Ch) ::
            (plannedOf (nid + 2) t ++ deferredOf (nid + 2) t)) := by
        simp only [List.cons_append]
        exact List.Perm.cons _ List.perm_middle
      rw [(hperm.map _).nodup_iff]
      simp only [List.map_cons, List.nodup_cons, List.mem_cons, List.mem_map]
      refine ⟨?_, ?_, ih'⟩
      · rintro (h | ⟨x, hx, hxi⟩)
        · omega
        · exact (hfresh x hx).1 hxi
      · rintro ⟨x, hx, hxi⟩
        exact (hfresh x hx).2 hxi

theorem foldl_max_ge : ∀ (l : List Nat) (a : Nat), a ≤ l.foldl max a ∧ ∀ x ∈ l, x ≤ l.foldl max a := by
  intro l
  induction l with
  | nil => intro a; simp
  | cons y t ih =>
    intro a
    rw [List.foldl_cons]
    obtain ⟨h1, h2⟩ := ih (max a y)
    refine ⟨by omega, ?_⟩
    intro x hx
    rcases List.mem_cons.mp hx with rfl | hx
    · omega
    · exact h2 x hx

theorem lt_freshBase (cs : List Ch) : ∀ c ∈ cs, c.id < freshBase cs := by
  intro c hc
  unfold freshBase
  have := (foldl_max_ge (cs.map (·.id)) 0).2 c.id (List.mem_map_of_mem hc)
  omega

end Atlas.Sort
