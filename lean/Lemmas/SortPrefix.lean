/-
`SortChanges` visits the changes that are not table drops first. When none of them has a dependency
(the case after `detachReferences` on a set of drops: the ALTERs that drop the foreign keys), they are
emitted first, in their order, and everything else follows.
-/
import Lemmas.SortDfs

namespace Atlas.Sort

section
variable (edges : Ch → List Ch)

theorem addCh_noedges (fuel : Nat) (c : Ch) (st : AddSt) (he : edges c = []) (h : st.added.contains c.id = false) :
    addCh edges (fuel + 1) c st = { added := c.id :: st.added, planned := st.planned ++ [c] } := by
  rw [addCh_succ edges fuel c st h, he, addAll_nil]

theorem addLoop_noedges (fuel : Nat) : ∀ (l : List Ch) (st : AddSt), (∀ c ∈ l, edges c = []) →
    (l.map (·.id)).Nodup → (∀ c ∈ l, c.id ∉ st.added) →
    addLoop edges (fuel + 1) l st = { added := (l.map (·.id)).reverse ++ st.added, planned := st.planned ++ l } := by
  intro l
  induction l with
  | nil => intro st _ _ _; simp [addLoop]
  | cons c t ih =>
    intro st he hnd hfresh
    rw [List.map_cons, List.nodup_cons] at hnd
    have hc : st.added.contains c.id = false := by
      have := hfresh c (List.mem_cons_self ..)
      simpa using this
    unfold addLoop
    rw [List.foldl_cons]
    simp only [hc, Bool.false_eq_true, if_false]
    rw [addCh_noedges edges fuel c st (he c (List.mem_cons_self ..)) hc]
    have := ih { added := c.id :: st.added, planned := st.planned ++ [c] }
      (fun x hx => he x (List.mem_cons_of_mem _ hx)) hnd.2
      (by intro x hx hmem
          rcases List.mem_cons.mp hmem with h | h
          · exact hnd.1 (by rw [← h]; exact List.mem_map_of_mem hx)
          · exact hfresh x (List.mem_cons_of_mem _ hx) h)
    unfold addLoop at this
    rw [this]
    simp

/-- `add` only appends to the planned list. -/
theorem add_ext : ∀ fuel,
    (∀ c st, ∃ new, (addCh edges fuel c st).planned = st.planned ++ new) ∧
    (∀ ds st, ∃ new, (addAll edges fuel ds st).planned = st.planned ++ new) := by
  intro fuel
  induction fuel with
  | zero =>
    refine ⟨fun c st => ⟨[], by simp [addCh]⟩, fun ds st => ⟨[], ?_⟩⟩
    cases ds <;> simp [addAll]
  | succ f ih =>
    have h1 : ∀ c st, ∃ new, (addCh edges (f + 1) c st).planned = st.planned ++ new := by
      intro c st
      by_cases hcon : st.added.contains c.id = true
      · refine ⟨[], ?_⟩
        have hmem : c.id ∈ st.added := by simpa using hcon
        simp [addCh, hmem]
      · have hcon' : st.added.contains c.id = false := by simpa using hcon
        rw [addCh_succ edges f c st hcon']
        obtain ⟨new, hnew⟩ := ih.2 (edges c) { st with added := c.id :: st.added }
        exact ⟨new ++ [c], by simp [hnew]⟩
    refine ⟨h1, ?_⟩
    intro ds st
    cases ds with
    | nil => exact ⟨[], by simp [addAll_nil]⟩
    | cons d ds =>
      rw [addAll_cons]
      by_cases hcon : st.added.contains d.id = true
      · simp only [hcon, if_true]
        exact ih.2 ds st
      · have hcon' : st.added.contains d.id = false := by simpa using hcon
        simp only [hcon', Bool.false_eq_true, if_false]
        obtain ⟨n1, e1⟩ := ih.1 d st
        obtain ⟨n2, e2⟩ := ih.2 ds (addCh edges f d st)
        exact ⟨n1 ++ n2, by rw [e2, e1, List.append_assoc]⟩

theorem addLoop_ext (fuel : Nat) : ∀ (l : List Ch) (st : AddSt),
    ∃ new, (addLoop edges fuel l st).planned = st.planned ++ new := by
  intro l
  induction l with
  | nil => intro st; exact ⟨[], by simp [addLoop]⟩
  | cons c t ih =>
    intro st
    unfold addLoop
    rw [List.foldl_cons]
    by_cases hcon : st.added.contains c.id = true
    · simp only [hcon, if_true]
      exact ih st
    · have hcon' : st.added.contains c.id = false := by simpa using hcon
      simp only [hcon', Bool.false_eq_true, if_false]
      obtain ⟨n1, e1⟩ := (add_ext edges fuel).1 c st
      obtain ⟨n2, e2⟩ := ih (addCh edges fuel c st)
      unfold addLoop at e2
      exact ⟨n1 ++ n2, by rw [e2, e1, List.append_assoc]⟩

theorem addLoop_append (fuel : Nat) (a b : List Ch) (st : AddSt) :
    addLoop edges fuel (a ++ b) st = addLoop edges fuel b (addLoop edges fuel a st) := by
  unfold addLoop; rw [List.foldl_append]

end

/-- **sortChanges_prefix**: when no change other than a table drop has a dependency edge, `SortChanges`
emits those changes first, in the given order; the drops follow. -/
theorem sortChanges_prefix (cs : List Ch) (hnd : (cs.map (·.id)).Nodup)
    (hno : ∀ c ∈ cs, c.kind ≠ .drop → edgesOf (allOf cs) c = []) :
    ∃ rest, sortChanges cs = cs.filter (·.kind != .drop) ++ rest := by
  rw [sortChanges_eq]
  obtain ⟨k, hk⟩ : ∃ k, ((allOf cs).length + 2) * ((allOf cs).length + 2) + ((allOf cs).length + 2) = k + 1 :=
    ⟨((allOf cs).length + 2) * ((allOf cs).length + 2) + ((allOf cs).length + 1), by omega⟩
  rw [hk]
  have hsplit : allOf cs = cs.filter (·.kind != .drop) ++ cs.filter (·.kind == .drop) := rfl
  conv => enter [1, rest, 1, 1, 3]; rw [hsplit]
  rw [addLoop_append]
  have hnd' : ((cs.filter (·.kind != .drop)).map (·.id)).Nodup :=
    hnd.sublist (List.filter_sublist.map _)
  rw [addLoop_noedges (edgesOf (allOf cs)) k (cs.filter (·.kind != .drop)) {}
    (by intro c hc
        rw [List.mem_filter] at hc
        exact hno c hc.1 (by simpa using hc.2))
    hnd' (by intro c _ h; cases h)]
  obtain ⟨new, hnew⟩ := addLoop_ext (edgesOf (allOf cs)) (k + 1) (cs.filter (·.kind == .drop))
    { added := ((cs.filter (·.kind != .drop)).map (·.id)).reverse ++ ({} : AddSt).added,
      planned := ({} : AddSt).planned ++ cs.filter (·.kind != .drop) }
  exact ⟨new, by rw [hnew]; simp⟩

end Atlas.Sort
