/-
Correctness of the depth-first ordering of `SortChanges` (sql/internal/sqlx/plan.go), for change sets
of any size: when the dependency edges are acyclic (a rank function decreases along every edge), the
planned list is a permutation of the changes and every change comes after everything it depends on.
-/
import Atlas.Sort

namespace Atlas.Sort

section Dfs
variable (edges : Ch → List Ch) (rk : Ch → Nat) (all : List Ch)

/-- every dependency of a planned change was planned before it. -/
def Closed (planned : List Ch) : Prop :=
  ∀ pre p post, planned = pre ++ p :: post → ∀ d ∈ edges p, d ∈ pre

/-- number of changes not yet visited. -/
def white (st : AddSt) : Nat := (all.filter (fun x => !st.added.contains x.id)).length

structure Inv (st : AddSt) : Prop where
  sub : ∀ p ∈ st.planned, p ∈ all ∧ p.id ∈ st.added
  nodup : (st.planned.map (·.id)).Nodup
  closed : Closed edges st.planned

/-- every visited but not yet planned change (one whose `add` call is still running) has rank ≥ `B`. -/
def GrayAbove (st : AddSt) (B : Nat) : Prop :=
  ∀ g ∈ all, g.id ∈ st.added → g ∉ st.planned → B ≤ rk g

/-- what a call leaves behind, relative to the state it started from. -/
structure Post (st st' : AddSt) : Prop where
  mono : ∀ i ∈ st.added, i ∈ st'.added
  ext : ∃ new, st'.planned = st.planned ++ new ∧ ∀ p ∈ new, p.id ∉ st.added
  inv : Inv edges all st'
  nogray : ∀ g ∈ all, g.id ∈ st'.added → g ∉ st'.planned → (g.id ∈ st.added ∧ g ∉ st.planned)


theorem filter_length_le {α : Type} (p q : α → Bool) (l : List α) (h : ∀ x ∈ l, q x = true → p x = true) :
    (l.filter q).length ≤ (l.filter p).length := by
  induction l with
  | nil => simp
  | cons a t ih =>
    have iht := ih (fun x hx => h x (List.mem_cons_of_mem _ hx))
    simp only [List.filter_cons]
    by_cases hq : q a = true
    · have hp := h a (List.mem_cons_self ..) hq
      simp only [hq, hp, if_true, List.length_cons]; omega
    · have hq' : q a = false := by simpa using hq
      simp only [hq', Bool.false_eq_true, if_false]
      split
      · simp only [List.length_cons]; omega
      · exact iht

theorem filter_length_lt {α : Type} (p q : α → Bool) (l : List α) (h : ∀ x ∈ l, q x = true → p x = true)
    (c : α) (hc : c ∈ l) (hpc : p c = true) (hqc : q c = false) :
    (l.filter q).length < (l.filter p).length := by
  induction l with
  | nil => cases hc
  | cons a t ih =>
    simp only [List.filter_cons]
    rcases List.mem_cons.mp hc with rfl | hct
    · have := filter_length_le p q t (fun x hx => h x (List.mem_cons_of_mem _ hx))
      simp only [hqc, hpc, Bool.false_eq_true, if_false, if_true, List.length_cons]; omega
    · have iht := ih (fun x hx => h x (List.mem_cons_of_mem _ hx)) hct
      by_cases hq : q a = true
      · have hp := h a (List.mem_cons_self ..) hq
        simp only [hq, hp, if_true, List.length_cons]; omega
      · have hq' : q a = false := by simpa using hq
        simp only [hq', Bool.false_eq_true, if_false]
        split
        · simp only [List.length_cons]; omega
        · exact iht

theorem white_le {st st' : AddSt} (h : ∀ i ∈ st.added, i ∈ st'.added) : white all st' ≤ white all st := by
  unfold white
  apply filter_length_le
  intro x _ hx
  simp only [Bool.not_eq_true', List.contains_eq_mem, decide_eq_false_iff_not] at hx ⊢
  exact fun hm => hx (h _ hm)

theorem white_lt {st st' : AddSt} (h : ∀ i ∈ st.added, i ∈ st'.added) (c : Ch) (hc : c ∈ all)
    (hw : c.id ∉ st.added) (hb : c.id ∈ st'.added) : white all st' < white all st := by
  unfold white
  apply filter_length_lt _ _ _ _ c hc
  · simpa using hw
  · simpa using hb
  · intro x _ hx
    simp only [Bool.not_eq_true', List.contains_eq_mem, decide_eq_false_iff_not] at hx ⊢
    exact fun hm => hx (h _ hm)

theorem white_pos {st : AddSt} (c : Ch) (hc : c ∈ all) (hw : c.id ∉ st.added) : 0 < white all st := by
  unfold white
  apply List.length_pos_of_mem (a := c)
  rw [List.mem_filter]
  exact ⟨hc, by simpa using hw⟩

theorem Post.refl {st : AddSt} (h : Inv edges all st) : Post edges all st st :=
  ⟨fun _ hi => hi, ⟨[], by simp, by simp⟩, h, fun _ _ h1 h2 => ⟨h1, h2⟩⟩

theorem Post.trans {a b c : AddSt} (h1 : Post edges all a b) (h2 : Post edges all b c) : Post edges all a c := by
  obtain ⟨n1, e1, w1⟩ := h1.ext
  obtain ⟨n2, e2, w2⟩ := h2.ext
  refine ⟨fun i hi => h2.mono i (h1.mono i hi), ⟨n1 ++ n2, by rw [e2, e1, List.append_assoc], ?_⟩, h2.inv, ?_⟩
  · intro p hp
    rcases List.mem_append.mp hp with hp | hp
    · exact w1 p hp
    · exact fun hm => w2 p hp (h1.mono _ hm)
  · intro g hg h3 h4
    obtain ⟨h5, h6⟩ := h2.nogray g hg h3 h4
    exact h1.nogray g hg h5 h6

theorem Post.planned_mem {a b : AddSt} (h : Post edges all a b) {x : Ch} (hx : x ∈ a.planned) : x ∈ b.planned := by
  obtain ⟨n, e, _⟩ := h.ext
  rw [e]; exact List.mem_append_left _ hx


theorem addCh_succ (fuel : Nat) (c : Ch) (st : AddSt) (h : st.added.contains c.id = false) :
    addCh edges (fuel + 1) c st =
      { (addAll edges fuel (edges c) { st with added := c.id :: st.added }) with
        planned := (addAll edges fuel (edges c) { st with added := c.id :: st.added }).planned ++ [c] } := by
  have h' : c.id ∉ st.added := by simpa using h
  rw [addCh]; simp [h']

theorem addAll_nil (fuel : Nat) (st : AddSt) : addAll edges fuel [] st = st := by
  cases fuel <;> simp [addAll]

theorem addAll_cons (fuel : Nat) (d : Ch) (ds : List Ch) (st : AddSt) :
    addAll edges (fuel + 1) (d :: ds) st =
      addAll edges fuel ds (if st.added.contains d.id then st else addCh edges fuel d st) := by
  rw [addAll]

theorem closed_snoc {planned : List Ch} {c : Ch} (h : Closed edges planned)
    (hc : ∀ d ∈ edges c, d ∈ planned) : Closed edges (planned ++ [c]) := by
  intro pre p post heq d hd
  rcases List.eq_nil_or_concat post with rfl | ⟨post', z, rfl⟩
  · have := List.append_inj' (heq.symm) rfl
    have h1 : pre = planned := this.1
    have h2 : p = c := by simpa using this.2
    subst h1; subst h2
    exact hc d hd
  · have heq' : planned ++ [c] = (pre ++ p :: post') ++ [z] := by rw [heq]; simp
    have := List.append_inj' heq' rfl
    exact h pre p post' this.1 d hd

variable {edges rk all}

theorem dfs_main (N : Nat)
    (hid : ∀ x ∈ all, ∀ y ∈ all, x.id = y.id → x = y)
    (hsub : ∀ c ∈ all, ∀ d ∈ edges c, d ∈ all)
    (hrk : ∀ c ∈ all, ∀ d ∈ edges c, rk d < rk c)
    (hlen : ∀ c ∈ all, (edges c).length ≤ N) :
    ∀ fuel,
      (∀ c st, c ∈ all → c.id ∉ st.added → Inv edges all st → GrayAbove rk all st (rk c + 1) →
          (N + 2) * white all st ≤ fuel →
          Post edges all st (addCh edges fuel c st) ∧ c ∈ (addCh edges fuel c st).planned) ∧
      (∀ ds st B, (∀ d ∈ ds, d ∈ all ∧ rk d < B) → Inv edges all st → GrayAbove rk all st B →
          ds.length + (N + 2) * white all st ≤ fuel →
          Post edges all st (addAll edges fuel ds st) ∧ ∀ d ∈ ds, d ∈ (addAll edges fuel ds st).planned) := by
  intro fuel
  induction fuel with
  | zero =>
    refine ⟨?_, ?_⟩
    · intro c st hc hw _ _ hf
      have := white_pos all c hc hw
      have : (N + 2) * white all st ≥ 1 := Nat.le_trans this (Nat.le_mul_of_pos_left _ (by omega))
      omega
    · intro ds st B _ hinv _ hf
      cases ds with
      | nil => rw [addAll_nil]; exact ⟨Post.refl edges all hinv, by simp⟩
      | cons d t => simp at hf
  | succ fuel ih =>
    obtain ⟨ihC, ihA⟩ := ih
    refine ⟨?_, ?_⟩
    · -- addCh
      intro c st hc hw hinv hgray hf
      have hcont : st.added.contains c.id = false := by simpa using hw
      rw [addCh_succ edges fuel c st hcont]
      -- the state after marking c
      have hinv1 : Inv edges all { st with added := c.id :: st.added } :=
        ⟨fun p hp => ⟨(hinv.sub p hp).1, List.mem_cons_of_mem _ (hinv.sub p hp).2⟩, hinv.nodup, hinv.closed⟩
      have hgray1 : GrayAbove rk all { st with added := c.id :: st.added } (rk c) := by
        intro g hg h1 h2
        rcases List.mem_cons.mp h1 with h1 | h1
        · have : g = c := hid g hg c hc h1
          subst this; exact Nat.le_refl _
        · exact Nat.le_of_succ_le (hgray g hg h1 h2)
      have hw1 : white all { st with added := c.id :: st.added } < white all st :=
        white_lt all (fun i hi => List.mem_cons_of_mem _ hi) c hc hw (List.mem_cons_self ..)
      have hf1 : (edges c).length + (N + 2) * white all { st with added := c.id :: st.added } ≤ fuel := by
        have h1 := hlen c hc
        have h2 : (N + 2) * (white all { st with added := c.id :: st.added } + 1) ≤ (N + 2) * white all st :=
          Nat.mul_le_mul_left _ hw1
        rw [Nat.mul_add] at h2
        omega
      obtain ⟨hpost, hall⟩ := ihA (edges c) { st with added := c.id :: st.added } (rk c)
        (fun d hd => ⟨hsub c hc d hd, hrk c hc d hd⟩) hinv1 hgray1 hf1
      generalize addAll edges fuel (edges c) { st with added := c.id :: st.added } = st2 at hpost hall
      obtain ⟨new, hnew, hnw⟩ := hpost.ext
      simp only at hnew
      have hcnot : c ∉ st2.planned := by
        intro hm
        rw [hnew] at hm
        rcases List.mem_append.mp hm with hm | hm
        · exact hw (hinv.sub c hm).2
        · exact hnw c hm (List.mem_cons_self ..)
      refine ⟨⟨?_, ?_, ?_, ?_⟩, by simp⟩
      · intro i hi; exact hpost.mono i (List.mem_cons_of_mem _ hi)
      · refine ⟨new ++ [c], by simp [hnew], ?_⟩
        intro p hp
        rcases List.mem_append.mp hp with hp | hp
        · exact fun hm => hnw p hp (List.mem_cons_of_mem _ hm)
        · simp at hp; subst hp; exact hw
      · refine ⟨?_, ?_, ?_⟩
        · intro p hp
          simp only at hp
          rcases List.mem_append.mp hp with hp | hp
          · exact hpost.inv.sub p hp
          · simp at hp; subst hp
            exact ⟨hc, hpost.mono _ (List.mem_cons_self ..)⟩
        · simp only [List.map_append, List.map_cons, List.map_nil]
          rw [List.nodup_append]
          refine ⟨hpost.inv.nodup, by simp, ?_⟩
          intro a ha b hb
          simp at hb; subst hb
          obtain ⟨p, hp, hpid⟩ := List.mem_map.mp ha
          intro heq
          have : p = c := hid p (hpost.inv.sub p hp).1 c hc (hpid.trans heq)
          subst this
          exact hcnot hp
        · exact closed_snoc edges hpost.inv.closed hall
      · intro g hg h1 h2
        simp only at h1 h2
        have h2' : g ∉ st2.planned := fun hm => h2 (List.mem_append_left _ hm)
        have hgc : g ≠ c := fun e => h2 (by rw [e]; simp)
        obtain ⟨h3, h4⟩ := hpost.nogray g hg h1 h2'
        simp only at h3 h4
        rcases List.mem_cons.mp h3 with h3 | h3
        · exact absurd (hid g hg c hc h3) hgc
        · exact ⟨h3, h4⟩
    · -- addAll
      intro ds st B hds hinv hgray hf
      cases ds with
      | nil => rw [addAll_nil]; exact ⟨Post.refl edges all hinv, by simp⟩
      | cons d t =>
        rw [addAll_cons]
        have hd := hds d (List.mem_cons_self ..)
        have ht : ∀ x ∈ t, x ∈ all ∧ rk x < B := fun x hx => hds x (List.mem_cons_of_mem _ hx)
        simp only [List.length_cons] at hf
        by_cases hcon : st.added.contains d.id = true
        · simp only [hcon, if_true]
          have hdm : d.id ∈ st.added := by simpa using hcon
          have hdp : d ∈ st.planned := by
            by_cases hp : d ∈ st.planned
            · exact hp
            · have := hgray d hd.1 hdm hp
              omega
          obtain ⟨hpost, hall⟩ := ihA t st B ht hinv hgray (by omega)
          refine ⟨hpost, ?_⟩
          intro x hx
          rcases List.mem_cons.mp hx with rfl | hx
          · exact hpost.planned_mem edges all hdp
          · exact hall x hx
        · have hcon' : st.added.contains d.id = false := by simpa using hcon
          have hdw : d.id ∉ st.added := by simpa using hcon'
          simp only [hcon', Bool.false_eq_true, if_false]
          have hgray' : GrayAbove rk all st (rk d + 1) := by
            intro g hg h1 h2
            have := hgray g hg h1 h2
            omega
          obtain ⟨hp1, hd1⟩ := ihC d st hd.1 hdw hinv hgray' (by omega)
          generalize addCh edges fuel d st = st1 at hp1 hd1
          have hgray1 : GrayAbove rk all st1 B := by
            intro g hg h1 h2
            obtain ⟨h3, h4⟩ := hp1.nogray g hg h1 h2
            exact hgray g hg h3 h4
          have hw1 := white_le all hp1.mono
          obtain ⟨hp2, hall⟩ := ihA t st1 B ht hp1.inv hgray1 (by
            have : (N + 2) * white all st1 ≤ (N + 2) * white all st := Nat.mul_le_mul_left _ hw1
            omega)
          refine ⟨hp1.trans edges all hp2, ?_⟩
          intro x hx
          rcases List.mem_cons.mp hx with rfl | hx
          · exact hp2.planned_mem edges all hd1
          · exact hall x hx


/-- the outer loop of `SortChanges`: `for _, c := range changes { if !added[c] { add(c) } }`. -/
def addLoop (edges : Ch → List Ch) (fuel : Nat) (cs : List Ch) (st : AddSt) : AddSt :=
  cs.foldl (fun st c => if st.added.contains c.id then st else addCh edges fuel c st) st

theorem nodup_of_map_id {l : List Ch} (h : (l.map (·.id)).Nodup) : l.Nodup := by
  unfold List.Nodup at h ⊢
  rw [List.pairwise_map] at h
  exact h.imp (fun hne e => hne (congrArg (·.id) e))

theorem white_le_length (st : AddSt) : white all st ≤ all.length := by
  unfold white; exact List.length_filter_le _ _

theorem dfs_loop (N fuel : Nat)
    (hid : ∀ x ∈ all, ∀ y ∈ all, x.id = y.id → x = y)
    (hsub : ∀ c ∈ all, ∀ d ∈ edges c, d ∈ all)
    (hrk : ∀ c ∈ all, ∀ d ∈ edges c, rk d < rk c)
    (hlen : ∀ c ∈ all, (edges c).length ≤ N)
    (hfuel : (N + 2) * all.length ≤ fuel) :
    ∀ (cs : List Ch) (st : AddSt), (∀ c ∈ cs, c ∈ all) → Inv edges all st →
      (∀ g ∈ all, g.id ∈ st.added → g ∈ st.planned) →
      Inv edges all (addLoop edges fuel cs st) ∧
      (∀ g ∈ all, g.id ∈ (addLoop edges fuel cs st).added → g ∈ (addLoop edges fuel cs st).planned) ∧
      (∀ i ∈ st.added, i ∈ (addLoop edges fuel cs st).added) ∧
      (∀ c ∈ cs, c.id ∈ (addLoop edges fuel cs st).added) := by
  intro cs
  induction cs with
  | nil => intro st _ hinv hng; exact ⟨hinv, hng, fun _ h => h, by simp⟩
  | cons c t ih =>
    intro st hcs hinv hng
    unfold addLoop
    rw [List.foldl_cons]
    have hc := hcs c (List.mem_cons_self ..)
    have ht : ∀ x ∈ t, x ∈ all := fun x hx => hcs x (List.mem_cons_of_mem _ hx)
    by_cases hcon : st.added.contains c.id = true
    · simp only [hcon, if_true]
      obtain ⟨h1, h2, h3, h4⟩ := ih st ht hinv hng
      refine ⟨h1, h2, h3, ?_⟩
      intro x hx
      rcases List.mem_cons.mp hx with rfl | hx
      · exact h3 _ (by simpa using hcon)
      · exact h4 x hx
    · have hcon' : st.added.contains c.id = false := by simpa using hcon
      have hw : c.id ∉ st.added := by simpa using hcon'
      simp only [hcon', Bool.false_eq_true, if_false]
      have hgray : GrayAbove rk all st (rk c + 1) := by
        intro g hg h1 h2; exact absurd (hng g hg h1) h2
      have hf : (N + 2) * white all st ≤ fuel :=
        Nat.le_trans (Nat.mul_le_mul_left _ (white_le_length (all := all) st)) hfuel
      obtain ⟨hpost, hcp⟩ := (dfs_main N hid hsub hrk hlen fuel).1 c st hc hw hinv hgray hf
      generalize addCh edges fuel c st = st1 at hpost hcp
      have hng1 : ∀ g ∈ all, g.id ∈ st1.added → g ∈ st1.planned := by
        intro g hg h1
        by_cases hp : g ∈ st1.planned
        · exact hp
        · obtain ⟨h3, h4⟩ := hpost.nogray g hg h1 hp
          exact absurd (hng g hg h3) h4
      obtain ⟨h1, h2, h3, h4⟩ := ih st1 ht hpost.inv hng1
      refine ⟨h1, h2, fun i hi => h3 i (hpost.mono i hi), ?_⟩
      intro x hx
      rcases List.mem_cons.mp hx with rfl | hx
      · exact h3 _ (hpost.inv.sub _ hcp).2
      · exact h4 x hx

/-- **dfs_correct**: with enough fuel and acyclic edges (rank decreasing along every edge), the
planned list is a permutation of the changes and every change comes after its dependencies. -/
theorem dfs_correct (N fuel : Nat)
    (hnd : (all.map (·.id)).Nodup)
    (hsub : ∀ c ∈ all, ∀ d ∈ edges c, d ∈ all)
    (hrk : ∀ c ∈ all, ∀ d ∈ edges c, rk d < rk c)
    (hlen : ∀ c ∈ all, (edges c).length ≤ N)
    (hfuel : (N + 2) * all.length ≤ fuel) :
    (addLoop edges fuel all {}).planned.Perm all ∧ Closed edges (addLoop edges fuel all {}).planned := by
  have hid : ∀ x ∈ all, ∀ y ∈ all, x.id = y.id → x = y := by
    intro x hx y hy he
    have := hnd
    unfold List.Nodup at this
    rw [List.pairwise_map] at this
    by_cases hxy : x = y
    · exact hxy
    · exfalso
      obtain ⟨i, hi, rfl⟩ := List.getElem_of_mem hx
      obtain ⟨j, hj, rfl⟩ := List.getElem_of_mem hy
      rw [List.pairwise_iff_getElem] at this
      rcases Nat.lt_trichotomy i j with h | h | h
      · exact this i j hi hj h he
      · subst h; exact hxy rfl
      · exact this j i hj hi h he.symm
  have hinv0 : Inv edges all ({} : AddSt) := by
    refine ⟨?_, ?_, ?_⟩
    · intro p hp; cases hp
    · simp
    · intro pre p post h; cases pre <;> simp at h
  obtain ⟨h1, h2, _, h4⟩ := dfs_loop (rk := rk) N fuel hid hsub hrk hlen hfuel all {} (fun _ h => h) hinv0
    (by intro g _ h; cases h)
  refine ⟨?_, h1.closed⟩
  rw [List.perm_ext_iff_of_nodup (nodup_of_map_id h1.nodup) (nodup_of_map_id hnd)]
  intro a
  exact ⟨fun ha => (h1.sub a ha).1, fun ha => h2 a ha (h4 a ha)⟩

end Dfs

/-! ### the edge set of `SortChanges` -/

def allOf (cs : List Ch) : List Ch := cs.filter (·.kind != .drop) ++ cs.filter (·.kind == .drop)

def hasEStep (acc : List (Nat × Nat)) (p : Ch × Ch) : List (Nat × Nat) :=
  if p.1.id != p.2.id && !acc.contains (p.2.id, p.1.id) && dependsOn p.1 p.2 then acc ++ [(p.1.id, p.2.id)] else acc

def pairsOf (all : List Ch) : List (Ch × Ch) := all.flatMap (fun c1 => all.map (fun c2 => (c1, c2)))

def hasEOf (all : List Ch) : List (Nat × Nat) := (pairsOf all).foldl hasEStep []

def edgesOf (all : List Ch) (c : Ch) : List Ch := all.filter (fun d => (hasEOf all).contains (c.id, d.id))

theorem sortChanges_eq (cs : List Ch) :
    sortChanges cs =
      (addLoop (edgesOf (allOf cs)) (((allOf cs).length + 2) * ((allOf cs).length + 2) + ((allOf cs).length + 2))
        (allOf cs) {}).planned := rfl

theorem hasE_fold_sound : ∀ (ps : List (Ch × Ch)) (acc : List (Nat × Nat)) (P : Nat × Nat → Prop),
    (∀ e ∈ acc, P e) → (∀ p ∈ ps, p.1.id ≠ p.2.id → dependsOn p.1 p.2 = true → P (p.1.id, p.2.id)) →
    ∀ e ∈ ps.foldl hasEStep acc, P e := by
  intro ps
  induction ps with
  | nil => intro acc P h _ e he; exact h e he
  | cons p t ih =>
    intro acc P hacc hps
    rw [List.foldl_cons]
    apply ih
    · intro e he
      unfold hasEStep at he
      split at he
      · rename_i hc
        rcases List.mem_append.mp he with he | he
        · exact hacc e he
        · simp at he; subst he
          simp only [Bool.and_eq_true, bne_iff_ne, ne_eq] at hc
          exact hps p (List.mem_cons_self ..) hc.1.1 hc.2
      · exact hacc e he
    · intro q hq; exact hps q (List.mem_cons_of_mem _ hq)

theorem hasE_fold_mono : ∀ (ps : List (Ch × Ch)) (acc : List (Nat × Nat)) (e : Nat × Nat),
    e ∈ acc → e ∈ ps.foldl hasEStep acc := by
  intro ps
  induction ps with
  | nil => intro acc e h; exact h
  | cons p t ih =>
    intro acc e h
    rw [List.foldl_cons]
    apply ih
    unfold hasEStep
    split
    · exact List.mem_append_left _ h
    · exact h

theorem mem_pairsOf {all : List Ch} {a b : Ch} : (a, b) ∈ pairsOf all ↔ a ∈ all ∧ b ∈ all := by
  unfold pairsOf
  simp only [List.mem_flatMap, List.mem_map, Prod.mk.injEq]
  constructor
  · rintro ⟨x, hx, y, hy, rfl, rfl⟩; exact ⟨hx, hy⟩
  · rintro ⟨ha, hb⟩; exact ⟨a, ha, b, hb, rfl, rfl⟩

/-- soundness: every recorded edge is a real dependency between two different changes. -/
theorem hasE_sound {all : List Ch} {i j : Nat} (h : (i, j) ∈ hasEOf all) :
    ∃ a b, a ∈ all ∧ b ∈ all ∧ a.id = i ∧ b.id = j ∧ a.id ≠ b.id ∧ dependsOn a b = true := by
  have := hasE_fold_sound (pairsOf all) []
    (fun e => ∃ a b, a ∈ all ∧ b ∈ all ∧ a.id = e.1 ∧ b.id = e.2 ∧ a.id ≠ b.id ∧ dependsOn a b = true)
    (by simp)
    (by
      intro p hp h1 h2
      have := (mem_pairsOf (a := p.1) (b := p.2)).mp hp
      exact ⟨p.1, p.2, this.1, this.2, rfl, rfl, h1, h2⟩)
    (i, j) h
  simpa using this

/-- completeness: when no two changes depend on each other (here: a rank decreases along every
dependency), the inverse-edge suppression never fires and every dependency is recorded. -/
theorem hasE_complete {all : List Ch} (rk : Ch → Nat)
    (hid : ∀ x ∈ all, ∀ y ∈ all, x.id = y.id → x = y)
    (hrk : ∀ a ∈ all, ∀ b ∈ all, dependsOn a b = true → a.id ≠ b.id → rk b < rk a)
    {a b : Ch} (ha : a ∈ all) (hb : b ∈ all) (hne : a.id ≠ b.id) (hd : dependsOn a b = true) :
    (a.id, b.id) ∈ hasEOf all := by
  -- generalise over the processed prefix of the pair list
  suffices ∀ (ps : List (Ch × Ch)) (acc : List (Nat × Nat)),
      (∀ p ∈ ps, p.1 ∈ all ∧ p.2 ∈ all) →
      (∀ e ∈ acc, ∃ x y, x ∈ all ∧ y ∈ all ∧ x.id = e.1 ∧ y.id = e.2 ∧ x.id ≠ y.id ∧ dependsOn x y = true) →
      (a, b) ∈ ps → (a.id, b.id) ∈ ps.foldl hasEStep acc by
    exact this (pairsOf all) [] (fun p hp => (mem_pairsOf (a := p.1) (b := p.2)).mp hp) (by simp)
      (mem_pairsOf.mpr ⟨ha, hb⟩)
  intro ps
  induction ps with
  | nil => intro _ _ _ h; cases h
  | cons p t ih =>
    intro acc hps hacc hmem
    rw [List.foldl_cons]
    have hp := hps p (List.mem_cons_self ..)
    -- the accumulator stays sound
    have hacc' : ∀ e ∈ hasEStep acc p, ∃ x y, x ∈ all ∧ y ∈ all ∧ x.id = e.1 ∧ y.id = e.2 ∧ x.id ≠ y.id ∧
        dependsOn x y = true := by
      intro e he
      unfold hasEStep at he
      split at he
      · rename_i hc
        rcases List.mem_append.mp he with he | he
        · exact hacc e he
        · simp at he; subst he
          simp only [Bool.and_eq_true, bne_iff_ne, ne_eq] at hc
          exact ⟨p.1, p.2, hp.1, hp.2, rfl, rfl, hc.1.1, hc.2⟩
      · exact hacc e he
    rcases List.mem_cons.mp hmem with heq | hmem'
    · -- this is the pair (a, b): it is added now
      subst heq
      apply hasE_fold_mono
      unfold hasEStep
      have hinv : acc.contains (b.id, a.id) = false := by
        cases hcon : acc.contains (b.id, a.id) with
        | false => rfl
        | true =>
          exfalso
          have hm : (b.id, a.id) ∈ acc := by simpa using hcon
          obtain ⟨x, y, hx, hy, hxi, hyi, hxy, hdxy⟩ := hacc _ hm
          have h1 : x = b := hid x hx b hb hxi
          have h2 : y = a := hid y hy a ha hyi
          have hdba : dependsOn b a = true := by rw [← h1, ← h2]; exact hdxy
          have r1 := hrk a ha b hb hd hne
          have r2 := hrk b hb a ha hdba (fun e => hne e.symm)
          omega
      have hnm : (b.id, a.id) ∉ acc := by simpa using hinv
      simp [hne, hnm, hd]
    · exact ih _ (fun q hq => hps q (List.mem_cons_of_mem _ hq)) hacc' hmem'

end Atlas.Sort
