/-
The apply-count argument of `migrate apply` (`atlas migrate apply N`): the command with `count = some n`
is the command without a count on the directory cut after the first `n` pending files. This reduces
every count statement to the statements proved for `count = none`.
-/
import Lemmas.TxFail

namespace Atlas.Tx

/-- `planFiles` reads the configuration only through `mode` and `fixed`. -/
theorem planFiles_cfg_congr (cfg cfg' : Cfg) (hm : cfg'.mode = cfg.mode) (hf : cfg'.fixed = cfg.fixed) (db : Db) :
    ∀ (fs : List TFile) (txOpen : Bool) (fi : Nat), planFiles cfg' db txOpen fi fs = planFiles cfg db txOpen fi fs := by
  intro fs
  induction fs with
  | nil => intro txOpen fi; simp [planFiles]
  | cons f rest ih =>
    intro txOpen fi
    have hmf : modeFor cfg' f = modeFor cfg f := by simp [modeFor, hm]
    simp only [planFiles, hmf, hm, hf, ih]

/-- the configuration without its count. -/
def Cfg.noCount (cfg : Cfg) : Cfg := { cfg with count := none }

@[simp] theorem Cfg.noCount_mode (cfg : Cfg) : cfg.noCount.mode = cfg.mode := rfl
@[simp] theorem Cfg.noCount_fixed (cfg : Cfg) : cfg.noCount.fixed = cfg.fixed := rfl
@[simp] theorem Cfg.noCount_dryRun (cfg : Cfg) : cfg.noCount.dryRun = cfg.dryRun := rfl
@[simp] theorem Cfg.noCount_count (cfg : Cfg) : cfg.noCount.count = none := rfl

/-- **plan_count**: `migrate apply n` = `migrate apply` on the directory cut `n` files after the first
pending one. -/
theorem plan_count (cfg : Cfg) (n : Nat) (hc : cfg.count = some n) (dir : List TFile) (db : Db) :
    plan cfg dir db = plan cfg.noCount (dir.take (pendingStart db + n)) db := by
  unfold plan
  by_cases hd : cfg.dryRun = true
  · have hd' : cfg.noCount.dryRun = true := hd
    rw [if_pos hd, if_pos hd']
  · have hd' : ¬ cfg.noCount.dryRun = true := hd
    rw [if_neg hd, if_neg hd']
    simp only [Cfg.noCount_count, hc, limit]
    rw [planFiles_cfg_congr cfg cfg.noCount rfl rfl, List.drop_take]
    simp

end Atlas.Tx
