/-
`detachReferences` (sql/internal/sqlx/plan.go) on a change set that only drops tables: the foreign keys
to other tables are dropped first by separate ALTER changes, the tables afterwards (without those keys).
Explicit form of the result and the facts the ordering theorem needs.
-/
import Lemmas.SortDetach

namespace Atlas.Sort

/-- the `planned` half for a list of table drops: the ALTERs that drop the external foreign keys. -/
def plannedOfD : Nat → List Ch → List Ch
  | _, [] => []
  | nid, c :: t =>
    if (extFks c).isEmpty then plannedOfD nid t
    else { id := nid, kind := .modify, table := c.table, subs := (extFks c).map Sub.dropFK } :: plannedOfD (nid + 2) t

/-- the `deferred` half: the drops. -/
def deferredOfD : Nat → List Ch → List Ch
  | _, [] => []
  | nid, c :: t =>
    if (extFks c).isEmpty then c :: deferredOfD nid t
    else { c with id := nid + 1, fks := [] } :: deferredOfD (nid + 2) t

theorem detach_fold_drop : ∀ (l : List Ch) (p d : List Ch) (nid : Nat), (∀ c ∈ l, c.kind = .drop) →
    ∃ nid', l.foldl detachStep (p, d, nid) = (p ++ plannedOfD nid l, d ++ deferredOfD nid l, nid') := by
  intro l
  induction l with
  | nil => intro p d nid _; exact ⟨nid, by simp [plannedOfD, deferredOfD]⟩
  | cons c t ih =>
    intro p d nid h
    have hc := h c (List.mem_cons_self ..)
    have ht : ∀ x ∈ t, x.kind = .drop := fun x hx => h x (List.mem_cons_of_mem _ hx)
    rw [List.foldl_cons]
    by_cases he : (extFks c).isEmpty = true
    · have hstep : detachStep (p, d, nid) c = (p, d ++ [c], nid) := by
        unfold detachStep; simp only [hc]
        have : (c.fks.filter (fun fk => fk.ref != c.table)).isEmpty = true := he
        simp [this]
      rw [hstep]
      obtain ⟨nid', h'⟩ := ih p (d ++ [c]) nid ht
      refine ⟨nid', ?_⟩
      rw [h']
      simp [plannedOfD, deferredOfD, he]
    · have he' : (extFks c).isEmpty = false := by simpa using he
      have hstep : detachStep (p, d, nid) c =
          (p ++ [{ id := nid, kind := .modify, table := c.table, subs := (extFks c).map Sub.dropFK }],
           d ++ [{ c with id := nid + 1, fks := [] }], nid + 2) := by
        unfold detachStep; simp only [hc]
        have : (c.fks.filter (fun fk => fk.ref != c.table)).isEmpty = false := he'
        simp [this, extFks]
      rw [hstep]
      obtain ⟨nid', h'⟩ := ih _ _ (nid + 2) ht
      refine ⟨nid', ?_⟩
      rw [h']
      simp [plannedOfD, deferredOfD, he']

/-- explicit form of `detachReferences` on table drops. -/
theorem detachReferences_drop (cs : List Ch) (h : ∀ c ∈ cs, c.kind = .drop) :
    detachReferences cs = plannedOfD (freshBase cs) cs ++ deferredOfD (freshBase cs) cs := by
  unfold detachReferences
  obtain ⟨nid', h'⟩ := detach_fold_drop cs [] [] (freshBase cs) h
  rw [h']
  simp

/-! ### facts about the two halves -/

theorem deferredOfD_table : ∀ (l : List Ch) (nid : Nat), (deferredOfD nid l).map (·.table) = l.map (·.table) := by
  intro l
  induction l with
  | nil => intro _; rfl
  | cons c t ih =>
    intro nid
    unfold deferredOfD
    split <;> simp [ih]

/-- the drops that are left hold self references only. -/
theorem deferredOfD_kind : ∀ (l : List Ch) (nid : Nat), (∀ c ∈ l, c.kind = .drop) →
    ∀ p ∈ deferredOfD nid l, p.kind = .drop ∧ ∀ fk ∈ p.fks, fk.ref = p.table := by
  intro l
  induction l with
  | nil => intro _ _ p hp; cases hp
  | cons c t ih =>
    intro nid h p hp
    have hc := h c (List.mem_cons_self ..)
    have ht : ∀ x ∈ t, x.kind = .drop := fun x hx => h x (List.mem_cons_of_mem _ hx)
    unfold deferredOfD at hp
    split at hp
    · rename_i he
      rcases List.mem_cons.mp hp with rfl | hp
      · refine ⟨hc, ?_⟩
        intro fk hfk
        by_cases hr : fk.ref = p.table
        · exact hr
        · exfalso
          have : fk ∈ extFks p := by
            unfold extFks; rw [List.mem_filter]; exact ⟨hfk, by simpa using hr⟩
          have hne : extFks p ≠ [] := List.ne_nil_of_mem this
          exact hne (by simpa using he)
      · exact ih nid ht p hp
    · rcases List.mem_cons.mp hp with rfl | hp
      · exact ⟨hc, by intro fk hfk; cases hfk⟩
      · exact ih (nid + 2) ht p hp

theorem plannedOfD_kind : ∀ (l : List Ch) (nid : Nat), ∀ d ∈ plannedOfD nid l, d.kind = .modify := by
  intro l
  induction l with
  | nil => intro _ d hd; cases hd
  | cons c t ih =>
    intro nid d hd
    unfold plannedOfD at hd
    split at hd
    · exact ih nid d hd
    · rcases List.mem_cons.mp hd with rfl | hd
      · rfl
      · exact ih (nid + 2) d hd

/-- every external foreign key of every dropped table is dropped by a planned ALTER of that table. -/
theorem plannedOfD_complete : ∀ (l : List Ch) (nid : Nat) (c : Ch), c ∈ l → ∀ fk ∈ c.fks, fk.ref ≠ c.table →
    ∃ d ∈ plannedOfD nid l, d.kind = .modify ∧ d.table = c.table ∧ Sub.dropFK fk ∈ d.subs := by
  intro l
  induction l with
  | nil => intro _ c hc; cases hc
  | cons a t ih =>
    intro nid c hc fk hfk hne
    have hext : fk ∈ extFks c := by
      unfold extFks; rw [List.mem_filter]; exact ⟨hfk, by simpa using hne⟩
    unfold plannedOfD
    rcases List.mem_cons.mp hc with rfl | hct
    · have he : (extFks c).isEmpty = false := by
        cases h : extFks c with
        | nil => rw [h] at hext; cases hext
        | cons _ _ => rfl
      simp only [he, Bool.false_eq_true, if_false]
      exact ⟨_, List.mem_cons_self .., rfl, rfl, List.mem_map_of_mem hext⟩
    · split
      · exact ih nid c hct fk hfk hne
      · obtain ⟨d, hd, h⟩ := ih (nid + 2) c hct fk hfk hne
        exact ⟨d, List.mem_cons_of_mem _ hd, h⟩

/-- identities: originals (all below `nid`) or fresh ones from `nid` on. -/
theorem idsD_bound : ∀ (l : List Ch) (nid : Nat),
    ∀ x ∈ plannedOfD nid l ++ deferredOfD nid l, x.id ∈ l.map (·.id) ∨ nid ≤ x.id := by
  intro l
  induction l with
  | nil => intro _ x hx; simp [plannedOfD, deferredOfD] at hx
  | cons c t ih =>
    intro nid x hx
    unfold plannedOfD deferredOfD at hx
    split at hx
    · simp only [List.mem_append, List.mem_cons] at hx
      rcases hx with hx | rfl | hx
      · rcases ih nid x (List.mem_append_left _ hx) with h | h
        · left; exact List.mem_cons_of_mem _ h
        · right; exact h
      · left; simp
      · rcases ih nid x (List.mem_append_right _ hx) with h | h
        · left; exact List.mem_cons_of_mem _ h
        · right; exact h
    · simp only [List.cons_append, List.mem_cons, List.mem_append] at hx
      rcases hx with rfl | hx | rfl | hx
      · right; exact Nat.le_refl _
      · rcases ih (nid + 2) x (List.mem_append_left _ hx) with h | h
        · left; exact List.mem_cons_of_mem _ h
        · right; omega
      · right; simp
      · rcases ih (nid + 2) x (List.mem_append_right _ hx) with h | h
        · left; exact List.mem_cons_of_mem _ h
        · right; omega

theorem idsD_nodup : ∀ (l : List Ch) (nid : Nat), (l.map (·.id)).Nodup → (∀ c ∈ l, c.id < nid) →
    ((plannedOfD nid l ++ deferredOfD nid l).map (·.id)).Nodup := by
  intro l
  induction l with
  | nil => intro _ _ _; simp [plannedOfD, deferredOfD]
  | cons c t ih =>
    intro nid hnd hlt
    rw [List.map_cons, List.nodup_cons] at hnd
    have hlt' : ∀ x ∈ t, x.id < nid := fun x hx => hlt x (List.mem_cons_of_mem _ hx)
    have hc := hlt c (List.mem_cons_self ..)
    unfold plannedOfD deferredOfD
    split
    · have hperm : (plannedOfD nid t ++ c :: deferredOfD nid t).Perm (c :: (plannedOfD nid t ++ deferredOfD nid t)) :=
        List.perm_middle
      rw [(hperm.map _).nodup_iff]
      simp only [List.map_cons, List.nodup_cons]
      refine ⟨?_, ih nid hnd.2 hlt'⟩
      intro hm
      obtain ⟨x, hx, hxi⟩ := List.mem_map.mp hm
      rcases idsD_bound t nid x hx with h | h
      · rw [hxi] at h; exact hnd.1 h
      · omega
    · have ih' := ih (nid + 2) hnd.2 (fun x hx => Nat.lt_of_lt_of_le (hlt' x hx) (by omega))
      have hfresh : ∀ x ∈ plannedOfD (nid + 2) t ++ deferredOfD (nid + 2) t, x.id ≠ nid ∧ x.id ≠ nid + 1 := by
        intro x hx
        rcases idsD_bound t (nid + 2) x hx with h | h
        · obtain ⟨y, hy, hyi⟩ := List.mem_map.mp h
          have := hlt' y hy
          omega
        · omega
      have hperm : ((({ id := nid, kind := .modify, table := c.table, subs := (extFks c).map Sub.dropFK } : Ch) ::
            plannedOfD (nid + 2) t) ++
          (({ c with id := nid + 1, fks := [] } : Ch) :: deferredOfD (nid + 2) t)).Perm
          (({ id := nid, kind := .modify, table := c.table, subs := (extFks c).map Sub.dropFK } : Ch) ::
            ({ c with id := nid + 1, fks := [] } : Ch) ::
            (plannedOfD (nid + 2) t ++ deferredOfD (nid + 2) t)) := by
        simp only [List.cons_append]
        exact List.Perm.cons _ List.perm_middle
      rw [(hperm.map _).nodup_iff]
      simp only [List.map_cons, List.nodup_cons, List.mem_cons, List.mem_map]
      refine ⟨?_, ?_, ih'⟩
      · rintro (h | ⟨x, hx, hxi⟩)
        · omega
        · exact (hfresh x hx).1 hxi
      · rintro ⟨x, hx, hxi⟩
        exact (hfresh x hx).2 hxi

end Atlas.Sort
