/- Lemmas about the ordering step of the TiDB planner (`Atlas.Tidb.order`): sorted by priority, a permutation,
stable - and, as a consequence, a re-pointed foreign key is planned before the table it needs. -/
import Atlas.Tidb
namespace Atlas.Tidb

theorem le_trans' (a b c : TCh) : le a b = true → le b c = true → le a c = true := by
  simp only [le, decide_eq_true_eq]; omega

theorem le_total' (a b : TCh) : (le a b || le b a) = true := by
  simp only [le, Bool.or_eq_true, decide_eq_true_eq]; omega

theorem order_sorted (l : List TCh) : (order l).Pairwise (fun a b => priority a ≤ priority b) := by
  have := List.pairwise_mergeSort le_trans' le_total' l
  simpa [order, le] using this

theorem order_perm (l : List TCh) : (order l).Perm l := List.mergeSort_perm l le

/-- changes of equal priority keep the order the topological pre-sort gave them. -/
theorem order_stable (l : List TCh) (k : Nat) :
    ((order l).filter (fun c => priority c = k)) = l.filter (fun c => priority c = k) := by
  have hys : (l.filter (fun c => priority c = k)).Pairwise (fun a b => le a b = true) := by
    apply List.Pairwise.imp_of_mem (R := fun _ _ => True)
    · intro a b ha hb _
      simp only [List.mem_filter, decide_eq_true_eq] at ha hb
      simp [le, ha.2, hb.2]
    · exact List.pairwise_of_forall (fun _ _ => trivial)
  have hsub : (l.filter (fun c => priority c = k)).Sublist (order l) :=
    List.sublist_mergeSort le_trans' le_total' hys List.filter_sublist
  have h2 := hsub.filter (fun c => decide (priority c = k))
  rw [List.filter_filter] at h2
  simp only [Bool.and_self] at h2
  have hlen : ((order l).filter (fun c => decide (priority c = k))).length = (l.filter (fun c => decide (priority c = k))).length :=
    ((order_perm l).filter _).length_eq
  exact (h2.eq_of_length hlen.symm).symm

/-- every change of a lower priority is planned before every change of a higher one. -/
theorem lower_priority_first (l xs ys : List TCh) (a : TCh) (h : order l = xs ++ a :: ys) :
    ∀ b ∈ ys, priority a ≤ priority b := by
  have := order_sorted l
  rw [h] at this
  have := (List.pairwise_append.mp this).2.1
  exact fun b hb => (List.pairwise_cons.mp this).1 b hb

/-- a foreign key re-pointed to table `t` is planned BEFORE the `CREATE TABLE t` of the same change set,
wherever the two stand in the input. -/
theorem repoint_planned_before_parent (l xs ys : List TCh) (t : Nat) (hm : TCh.modifyFK t ∈ l)
    (h : order l = xs ++ TCh.addTable t :: ys) : TCh.modifyFK t ∈ xs := by
  have hin : TCh.modifyFK t ∈ order l := (order_perm l).mem_iff.mpr hm
  rw [h] at hin
  simp only [List.mem_append, List.mem_cons] at hin
  rcases hin with h1 | h1 | h1
  · exact h1
  · cases h1
  · have := lower_priority_first l xs ys (TCh.addTable t) h _ h1
    simp [priority] at this

end Atlas.Tidb

namespace Atlas.Tidb

/-- change sets whose atomic changes all have one priority (e.g. only CREATE TABLE / DROP TABLE) are planned in
the order of the topological pre-sort. -/
theorem order_of_one_priority (l : List TCh) (k : Nat) (h : ∀ c ∈ l, priority c = k) : order l = l := by
  have h1 := order_stable l k
  have hl : l.filter (fun c => decide (priority c = k)) = l := List.filter_eq_self.mpr (by simpa using h)
  have ho : (order l).filter (fun c => decide (priority c = k)) = order l :=
    List.filter_eq_self.mpr (by
      intro c hc
      have := (order_perm l).mem_iff.mp hc
      simpa using h c this)
  rw [ho, hl] at h1
  exact h1

end Atlas.Tidb
