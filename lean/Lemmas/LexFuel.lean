/-
Progress of the statement scanner (C08 `fuel_suffices`): every iteration of the `Scan:` loop that goes
on consumes at least one byte, every returned statement shortens the input, hence the fuel the model
hands to its loops is never exhausted and the result of `scan` does not depend on it.

The measure is `rem s = len(input) - pos` (truncated subtraction: no state invariant is needed).
-/
import Atlas.Lex
import Lemmas.Lex

namespace Atlas.Lex
open Atlas Atlas.Bytes

/-- bytes still in front of the cursor. -/
def rem (s : St) : Nat := s.input.length - s.pos

/-- `s'` is not behind `s`, and keeps a non-empty delimiter non-empty. -/
structure Le (s s' : St) : Prop where
  rem : rem s' ≤ rem s
  delim : s.delim ≠ [] → s'.delim ≠ []

theorem Le.refl (s : St) : Le s s := ⟨Nat.le_refl _, id⟩
theorem Le.trans {a b c : St} (h1 : Le a b) (h2 : Le b c) : Le a c :=
  ⟨Nat.le_trans h2.rem h1.rem, fun h => h2.delim (h1.delim h)⟩

/-! ### primitives -/

theorem next_le (s : St) : Le s (next s).1 := by
  obtain ⟨h1, h2, _, h4⟩ := next_input s
  exact ⟨by simp only [rem, h1]; omega, by rw [h2]; exact id⟩

/-- a successful `next` consumes at least one byte. -/
theorem next_strict {s : St} (h : (next s).2 ≠ .eos) : rem (next s).1 + 1 ≤ rem s := by
  obtain ⟨w, hw, hb, he⟩ := next_adv h
  rw [he]; simp only [rem]; omega

theorem addPos_le (s : St) (k : Nat) : Le s (s.addPos k) :=
  ⟨by simp only [rem, St.addPos]; omega, id⟩

theorem skipSpaces_le (s : St) : Le s (skipSpaces s) := by
  have := skipSpaces_len s
  refine ⟨?_, id⟩
  have hp : (skipSpaces s).pos = s.pos := rfl
  simp only [rem, hp]; omega

/-- dropping the consumed input and resetting the cursor keeps the measure. -/
theorem reset_le (s : St) (c : List Bytes) : Le s { s with input := s.input.drop s.pos, pos := 0, comments := c } :=
  ⟨by simp [rem], id⟩

theorem emit_le (o : Opts) (s : St) (t : Bytes) : Le s (emit o s t).1 := by
  unfold emit; exact reset_le s []

theorem emit_shape (o : Opts) (s : St) (t : Bytes) :
    (emit o s t).1.pos = 0 ∧ (emit o s t).1.input.length = rem s ∧ (emit o s t).1.delim = s.delim := by
  simp [emit, rem]

theorem skipQuoteLoop_le (q : UInt8) (e : Bool) :
    ∀ (fuel : Nat) (s s' : St), skipQuoteLoop q e fuel s = some s' → Le s s' := by
  intro fuel
  induction fuel with
  | zero => intro s s' h; simp [skipQuoteLoop] at h
  | succ n ih =>
    intro s s' h
    unfold skipQuoteLoop at h
    have l1 := next_le s
    rcases hn : next s with ⟨s1, r⟩
    rw [hn] at h l1
    simp only at l1
    cases r with
    | eos => simp at h
    | other => exact l1.trans (ih s1 s' h)
    | ch b =>
      simp only at h
      split at h
      · exact l1.trans ((next_le s1).trans (ih _ s' h))
      · split at h
        · simp only [Option.some.injEq] at h; subst h; exact l1
        · exact l1.trans (ih s1 s' h)

theorem skipQuote_le {o : Opts} {s s' : St} {q : UInt8} (h : skipQuote o s q = some s') : Le s s' := by
  unfold skipQuote at h
  exact skipQuoteLoop_le q _ _ s s' h

theorem dollarLoop_le (m : Bytes) : ∀ (fuel : Nat) (s : St), Le s (dollarLoop m fuel s) := by
  intro fuel
  induction fuel with
  | zero => intro s; exact Le.refl s
  | succ n ih =>
    intro s
    unfold dollarLoop
    have l1 := next_le s
    rcases hn : next s with ⟨s1, r⟩
    rw [hn] at l1
    simp only at l1
    cases r with
    | eos => exact l1
    | other => exact l1.trans (ih s1)
    | ch b =>
      simp only
      split
      · exact l1.trans (addPos_le s1 _)
      · exact l1.trans (ih s1)

theorem skipDollarQuote_le {s s' : St} (h : skipDollarQuote s = some s') : Le s s' := by
  unfold skipDollarQuote at h
  split at h
  · cases h
  · simp only [Option.some.injEq] at h
    subst h
    exact (addPos_le s _).trans (dollarLoop_le _ _ _)

theorem comment_le (s : St) (leftLen : Nat) (right : Bytes) : Le s (comment s leftLen right) := by
  unfold comment
  split
  · exact Le.refl s
  · simp only
    split
    · exact addPos_le s _
    · rename_i i _ _
      apply Le.trans (addPos_le s (i + right.length))
      refine Le.trans ?_ (skipSpaces_le _)
      exact ⟨by simp [rem], id⟩

theorem delimLoop_le : ∀ (fuel : Nat) (s : St) (r : R), Le s (delimLoop fuel s r) := by
  intro fuel
  induction fuel with
  | zero => intro s r; exact Le.refl s
  | succ n ih =>
    intro s r
    unfold delimLoop
    split
    · exact Le.refl s
    · exact Le.refl s
    · exact (next_le s).trans (ih _ _)

theorem unescape_ne_nil : ∀ (d : Bytes), d ≠ [] → unescape d ≠ [] := by
  intro d hd
  match d, hd with
  | [], h => exact absurd rfl h
  | b :: r, _ =>
    unfold unescape
    split <;> simp_all

theorem setDelim_le {s s' : St} {d : Bytes} (h : setDelim s d = some s') :
    rem s' = rem s ∧ s'.delim ≠ [] := by
  unfold setDelim at h
  split at h
  · cases h
  · rename_i hd
    simp only [Option.some.injEq] at h
    subst h
    refine ⟨rfl, unescape_ne_nil d ?_⟩
    intro he; apply hd; simp [he]

theorem delimCmd_le {fixed : Bool} {o : Opts} {s s' : St} (h : delimCmd fixed o s = .inr s') : Le s s' := by
  unfold delimCmd at h
  split at h
  · simp only [Sum.inr.injEq] at h; subst h; exact Le.refl s
  · simp only at h
    have l1 := delimLoop_le (s.input.length + 1) s (pick s)
    split at h
    · cases h
    · split at h
      · cases h
      · rename_i s2 hs
        simp only [Sum.inr.injEq] at h
        obtain ⟨e1, e2⟩ := setDelim_le hs
        subst h
        have l2 := emit_le o s2 (s2.input.take s2.pos)
        exact ⟨by have := l2.rem; have := l1.rem; omega, fun _ => l2.delim e2⟩

/-! ### one iteration -/

/-- what one iteration guarantees about progress: a continuing iteration has consumed at least one
byte; so has a `break`, unless it is the end-of-input break (then the cursor was not at 0). -/
def StepProg (s : St) : Step → Prop
  | .cont s' _ _ => rem s' + 1 ≤ rem s ∧ (s.delim ≠ [] → s'.delim ≠ [])
  | .brk s' _ => (s.delim ≠ [] → (rem s' + 1 ≤ rem s ∨ (0 < s.pos ∧ rem s' = 0))) ∧ (s.delim ≠ [] → s'.delim ≠ [])
  | .ret _ out => out ≠ .fuel

/-- the same, relative to the state `s1` after `next`: either the cursor did not move back, or the
iteration ended at the delimiter (then the cursor sits `len(delim)` behind where the rune started). -/
def StepProg1 (s1 : St) : Step → Prop
  | .cont s' _ _ => Le s1 s'
  | .brk s' _ => (s1.delim ≠ [] → s'.delim ≠ []) ∧
      (rem s' ≤ rem s1 ∨ (s'.input = s1.input ∧ s'.pos = s1.pos + s1.delim.length - s1.width))
  | .ret _ out => out ≠ .fuel

theorem brkLe {s1 s' : St} {t : Bytes} (h : Le s1 s') : StepProg1 s1 (.brk s' t) := ⟨h.delim, Or.inl h.rem⟩

theorem beginBlock_prog (fixed : Bool) (body : Bool → Bytes → St → Option Nat) (a : Bool) (s : St) (n d op : Nat) :
    StepProg1 s (beginBlock fixed body a s n d op) := by
  unfold beginBlock
  simp only
  split
  · exact addPos_le s _
  · split
    · exact brkLe ((addPos_le s _).trans (addPos_le _ _))
    · exact addPos_le s _

theorem stepE_prog (fixed : Bool) (o : Opts) (body : Bool → Bytes → St → Option Nat) (s : St) (d op : Nat) :
    StepProg1 s (stepE fixed o body s d op) := by
  unfold stepE
  split
  · split
    · exact Le.refl s
    · exact beginBlock_prog ..
  · exact Le.refl s

theorem stepD_prog (fixed : Bool) (o : Opts) (body : Bool → Bytes → St → Option Nat) (s : St) (d op : Nat) :
    StepProg1 s (stepD fixed o body s d op) := by
  unfold stepD
  split
  · split
    · exact Le.refl s
    · exact beginBlock_prog ..
  · exact stepE_prog ..

theorem stepC_prog (fixed : Bool) (o : Opts) (body : Bool → Bytes → St → Option Nat) (s : St) (r : R) (d op : Nat) :
    StepProg1 s (stepC fixed o body s r d op) := by
  unfold stepC
  split
  · split
    · simp [StepProg1]
    · rename_i s' h; exact skipDollarQuote_le h
  · split
    · exact comment_le s 1 _
    · split
      · exact (next_le s).trans (comment_le _ 2 _)
      · split
        · exact (next_le s).trans (comment_le _ 2 _)
        · exact stepD_prog ..

theorem delimCmd_ne_fuel (fixed : Bool) (o : Opts) (s : St) : delimCmd fixed o s ≠ .inl .fuel := by
  unfold delimCmd
  split
  · simp
  · simp only
    split
    · simp
    · split <;> simp

theorem stepB_prog (fixed : Bool) (o : Opts) (body : Bool → Bytes → St → Option Nat) (s : St) (r : R) (d op : Nat) :
    StepProg1 s (stepB fixed o body s r d op) := by
  unfold stepB
  split
  · split
    · rename_i out h
      intro he; subst he
      exact delimCmd_ne_fuel _ _ _ h
    · rename_i s' h
      exact (addPos_le s 8).trans ((delimCmd_le h).trans (skipSpaces_le _))
  · split
    · exact ⟨id, Or.inr ⟨rfl, rfl⟩⟩
    · exact stepC_prog ..

theorem stepCh_prog (fixed : Bool) (o : Opts) (body : Bool → Bytes → St → Option Nat) (s : St) (r : R) (d op : Nat) :
    StepProg1 s (stepCh fixed o body s r d op) := by
  unfold stepCh
  split
  · exact Le.refl s
  · split
    · split
      · simp [StepProg1]
      · exact Le.refl s
    · split
      · split
        · split
          · simp [StepProg1]
          · rename_i s' h; exact skipQuote_le h
        · simp [StepProg1]
      · exact stepB_prog ..

/-- **step_prog**: one iteration of the `Scan:` loop either ends the loop or has consumed a byte. -/
theorem step_prog (fixed : Bool) (o : Opts) (body : Bool → Bytes → St → Option Nat) (s : St) (d op : Nat) :
    StepProg s (step fixed o body s d op) := by
  unfold step
  by_cases he : (next s).2 = .eos
  · have hs := next_eos he
    rcases hn : next s with ⟨s1, r⟩
    rw [hn] at he hs
    simp only at he hs
    subst he
    simp only
    split
    · simp [StepProg]
    · split
      · rename_i hp
        obtain ⟨h1, h2⟩ := hs
        subst h1
        refine ⟨fun _ => Or.inr ⟨hp, ?_⟩, id⟩
        simp only [rem]; omega
      · simp [StepProg]
  · have hstrict := next_strict he
    have l1 := next_le s
    obtain ⟨w, hw, hb, hadv⟩ := next_adv he
    rcases hn : next s with ⟨s1, r⟩
    rw [hn] at he hstrict l1 hadv
    simp only at he hstrict l1 hadv
    have hp := stepCh_prog fixed o body s1 r d op
    cases r with
    | eos => exact absurd rfl he
    | ch b =>
      simp only
      revert hp
      cases stepCh fixed o body s1 (.ch b) d op with
      | cont s' d' op' =>
        intro hp
        exact ⟨by have := hp.rem; omega, fun h => hp.delim (l1.delim h)⟩
      | brk s' t =>
        intro hp
        refine ⟨fun hd => Or.inl ?_, fun h => hp.1 (l1.delim h)⟩
        rcases hp.2 with h | ⟨hi, hpos⟩
        · omega
        · have hdl : 1 ≤ s1.delim.length := by
            have := l1.delim hd
            cases hq : s1.delim with
            | nil => exact absurd hq this
            | cons _ _ => simp
          subst hadv
          simp only [rem, hi, hpos]
          simp only at hdl
          omega
      | ret s' out => exact id
    | other =>
      simp only
      revert hp
      cases stepCh fixed o body s1 .other d op with
      | cont s' d' op' =>
        intro hp
        exact ⟨by have := hp.rem; omega, fun h => hp.delim (l1.delim h)⟩
      | brk s' t =>
        intro hp
        refine ⟨fun hd => Or.inl ?_, fun h => hp.1 (l1.delim h)⟩
        rcases hp.2 with h | ⟨hi, hpos⟩
        · omega
        · have hdl : 1 ≤ s1.delim.length := by
            have := l1.delim hd
            cases hq : s1.delim with
            | nil => exact absurd hq this
            | cons _ _ => simp
          subst hadv
          simp only [rem, hi, hpos]
          simp only at hdl
          omega
      | ret s' out => exact id

/-! ### the nested-scanner oracle only matters on shorter inputs -/

/-- the two oracles agree on every nested scanner started on at most `r` bytes. -/
def BodyAgree (fixed : Bool) (body1 body2 : Bool → Bytes → St → Option Nat) (r : Nat) : Prop :=
  ∀ (a : Bool) (dl nsrc : Bytes) (b : St), nsrc.length ≤ r → init fixed nsrc = some b → body1 a dl b = body2 a dl b

theorem beginBlock_congr {fixed : Bool} {body1 body2 : Bool → Bytes → St → Option Nat} {s : St}
    (h : BodyAgree fixed body1 body2 (rem s)) (a : Bool) (n d op : Nat) :
    beginBlock fixed body1 a s n d op = beginBlock fixed body2 a s n d op := by
  unfold beginBlock
  simp only
  cases hi : init fixed ((s.addPos (n - 1)).input.drop (s.addPos (n - 1)).pos) with
  | none => rfl
  | some b =>
    simp only
    rw [h a s.delim _ b ?_ hi]
    simp only [List.length_drop, rem, St.addPos]
    omega

theorem stepE_congr {fixed : Bool} {o : Opts} {body1 body2 : Bool → Bytes → St → Option Nat} {s : St}
    (h : BodyAgree fixed body1 body2 (rem s)) (d op : Nat) :
    stepE fixed o body1 s d op = stepE fixed o body2 s d op := by
  unfold stepE
  split
  · split
    · rfl
    · exact beginBlock_congr h ..
  · rfl

theorem stepD_congr {fixed : Bool} {o : Opts} {body1 body2 : Bool → Bytes → St → Option Nat} {s : St}
    (h : BodyAgree fixed body1 body2 (rem s)) (d op : Nat) :
    stepD fixed o body1 s d op = stepD fixed o body2 s d op := by
  unfold stepD
  split
  · split
    · rfl
    · exact beginBlock_congr h ..
  · exact stepE_congr h ..

theorem stepCh_congr {fixed : Bool} {o : Opts} {body1 body2 : Bool → Bytes → St → Option Nat} {s : St}
    (h : BodyAgree fixed body1 body2 (rem s)) (r : R) (d op : Nat) :
    stepCh fixed o body1 s r d op = stepCh fixed o body2 s r d op := by
  unfold stepCh stepB stepC
  rw [stepD_congr h]

/-- **step_congr**: an iteration started with `rem s` bytes left consults the oracle only for nested
scanners on fewer bytes. -/
theorem step_congr {fixed : Bool} {o : Opts} {body1 body2 : Bool → Bytes → St → Option Nat} {s : St}
    (h : ∀ r, r + 1 ≤ rem s → BodyAgree fixed body1 body2 r) (d op : Nat) :
    step fixed o body1 s d op = step fixed o body2 s d op := by
  unfold step
  by_cases he : (next s).2 = .eos
  · rcases hn : next s with ⟨s1, r⟩
    rw [hn] at he
    simp only at he
    subst he
    rfl
  · have hstrict := next_strict he
    rcases hn : next s with ⟨s1, r⟩
    rw [hn] at he hstrict
    simp only at he hstrict
    have := stepCh_congr (o := o) (h _ hstrict) r d op
    cases r with
    | eos => exact absurd rfl he
    | ch b => simpa using this
    | other => simpa using this

/-! ### statements shorten the input -/

theorem init_shape {fixed : Bool} {nsrc : Bytes} {b : St} (h : init fixed nsrc = some b) :
    b.pos = 0 ∧ b.input.length ≤ nsrc.length ∧ b.delim ≠ [] := by
  unfold init at h
  simp only at h
  split at h
  · split at h
    · split at h
      · cases h
      · rename_i s1 hs
        split at h
        · cases h
        · simp only [Option.some.injEq] at h
          subst h
          obtain ⟨_, hd⟩ := setDelim_le hs
          have hp : s1.pos = 0 := by
            unfold setDelim at hs
            split at hs
            · cases hs
            · simp only [Option.some.injEq] at hs; subst hs; rfl
          exact ⟨hp, by simp only [List.length_drop]; omega, hd⟩
    · simp only [Option.some.injEq] at h; subst h; exact ⟨rfl, Nat.le_refl _, by simp⟩
  · simp only [Option.some.injEq] at h; subst h; exact ⟨rfl, Nat.le_refl _, by simp⟩

/-- the `Scan:` loop, when it breaks with a text, has consumed at least one byte – unless it broke at the
end of input at once (possible only when the cursor was not at 0). -/
theorem scanLoop_prog (fixed : Bool) (o : Opts) : ∀ (F : Nat) (s s' : St) (d op : Nat) (text : Bytes),
    scanLoop fixed o F s d op = (s', .inl text) → s.delim ≠ [] →
    (rem s' + 1 ≤ rem s ∨ (0 < s.pos ∧ rem s' = 0)) ∧ s'.delim ≠ [] := by
  intro F
  induction F with
  | zero => intro s s' d op text h; simp [scanLoop] at h
  | succ n ih =>
    intro s s' d op text h hd
    unfold scanLoop at h
    have hp := step_prog fixed o (fun a d b => bodyLoop fixed o a d n b) s d op
    revert hp h
    cases step fixed o (fun a d b => bodyLoop fixed o a d n b) s d op with
    | cont s1 d1 op1 =>
      intro h hp
      simp only at h
      obtain ⟨r1, r2⟩ := ih s1 s' d1 op1 text h (hp.2 hd)
      refine ⟨Or.inl ?_, r2⟩
      have := hp.1
      rcases r1 with r1 | ⟨_, r1⟩ <;> omega
    | brk s1 t1 =>
      intro h hp
      simp only [Prod.mk.injEq, Sum.inl.injEq] at h
      obtain ⟨h1, _⟩ := h
      subst h1
      exact ⟨hp.1 hd, hp.2 hd⟩
    | ret s1 out => intro h; simp at h

/-- **stmt_prog**: a returned statement shortens the input by at least one byte. -/
theorem stmt_prog (fixed : Bool) (o : Opts) (F : Nat) (s s' : St) (st : Stmt)
    (h : stmt fixed o F s = (s', .inr st)) (hp : s.pos = 0) (hd : s.delim ≠ []) :
    s'.pos = 0 ∧ s'.input.length + 1 ≤ s.input.length ∧ s'.delim ≠ [] := by
  cases F with
  | zero => simp [stmt] at h
  | succ n =>
    unfold stmt at h
    rcases hl : scanLoop fixed o n (skipSpaces s) 0 0 with ⟨s1, res⟩
    rw [hl] at h
    cases res with
    | inr out => simp at h
    | inl text =>
      simp only [Prod.mk.injEq, Sum.inr.injEq] at h
      obtain ⟨h1, _⟩ := h
      have hsp : (skipSpaces s).pos = 0 := hp
      obtain ⟨r1, r2⟩ := scanLoop_prog fixed o n _ s1 0 0 text hl hd
      obtain ⟨e1, e2, e3⟩ := emit_shape o s1 text
      rw [h1] at e1 e2 e3
      refine ⟨e1, ?_, by rw [e3]; exact r2⟩
      have hlen := skipSpaces_len s
      have hrem : rem (skipSpaces s) = (skipSpaces s).input.length := by simp [rem, hsp]
      rcases r1 with r1 | ⟨r1, _⟩
      · omega
      · omega

/-! ### the fuel is never exhausted -/

theorem scanLoop_no_fuel (fixed : Bool) (o : Opts) : ∀ (F : Nat) (s : St) (d op : Nat),
    3 * rem s + 1 ≤ F → (scanLoop fixed o F s d op).2 ≠ .inr .fuel := by
  intro F
  induction F with
  | zero => intro s d op h; omega
  | succ n ih =>
    intro s d op hF
    unfold scanLoop
    have hp := step_prog fixed o (fun a d b => bodyLoop fixed o a d n b) s d op
    revert hp
    cases step fixed o (fun a d b => bodyLoop fixed o a d n b) s d op with
    | cont s1 d1 op1 =>
      intro hp
      simp only
      exact ih s1 d1 op1 (by have := hp.1; omega)
    | brk s1 t1 => intro _; simp
    | ret s1 out => intro hp; simpa [StepProg] using hp

theorem stmt_no_fuel (fixed : Bool) (o : Opts) (F : Nat) (s : St) (hp : s.pos = 0)
    (hF : 3 * s.input.length + 2 ≤ F) : (stmt fixed o F s).2 ≠ .inl .fuel := by
  cases F with
  | zero => omega
  | succ n =>
    unfold stmt
    have hlen := skipSpaces_len s
    have hsp : (skipSpaces s).pos = 0 := hp
    have hrem : rem (skipSpaces s) = (skipSpaces s).input.length := by simp [rem, hsp]
    have := scanLoop_no_fuel fixed o n (skipSpaces s) 0 0 (by omega)
    revert this
    rcases scanLoop fixed o n (skipSpaces s) 0 0 with ⟨s1, res⟩
    cases res with
    | inr out => intro h; simpa using h
    | inl text => intro _; simp

/-! ### more fuel changes nothing -/

/-- with at least `3·rem + c` units, one more unit of fuel gives the same result. -/
structure Stable (fixed : Bool) (o : Opts) (F : Nat) : Prop where
  loop : ∀ (s : St) (d op : Nat), 3 * rem s + 1 ≤ F → s.delim ≠ [] →
    scanLoop fixed o (F + 1) s d op = scanLoop fixed o F s d op
  stmt : ∀ (s : St), s.pos = 0 → 3 * s.input.length + 2 ≤ F → s.delim ≠ [] →
    Lex.stmt fixed o (F + 1) s = Lex.stmt fixed o F s
  body : ∀ (a : Bool) (dl : Bytes) (b : St), b.pos = 0 → 3 * b.input.length + 3 ≤ F → b.delim ≠ [] →
    bodyLoop fixed o a dl (F + 1) b = bodyLoop fixed o a dl F b

theorem stable (fixed : Bool) (o : Opts) : ∀ F, Stable fixed o F := by
  intro F
  induction F with
  | zero =>
    refine ⟨?_, ?_, ?_⟩
    · intro s d op h; omega
    · intro s _ h; omega
    · intro a dl b _ h; omega
  | succ n ih =>
    refine ⟨?_, ?_, ?_⟩
    · intro s d op hF hd
      have hagree : ∀ r, r + 1 ≤ rem s →
          BodyAgree fixed (fun a d b => bodyLoop fixed o a d (n + 1) b) (fun a d b => bodyLoop fixed o a d n b) r := by
        intro r hr a dl nsrc b hl hi
        obtain ⟨b1, b2, b3⟩ := init_shape hi
        exact ih.body a dl b b1 (by omega) b3
      have hc := step_congr (o := o) hagree d op
      have hp := step_prog fixed o (fun a d b => bodyLoop fixed o a d n b) s d op
      rw [scanLoop, scanLoop, hc]
      revert hp
      cases step fixed o (fun a d b => bodyLoop fixed o a d n b) s d op with
      | cont s1 d1 op1 =>
        intro hp
        simp only
        exact ih.loop s1 d1 op1 (by have := hp.1; omega) (hp.2 hd)
      | brk s1 t1 => intro _; rfl
      | ret s1 out => intro _; rfl
    · intro s hp hF hd
      have hlen := skipSpaces_len s
      have hsp : (skipSpaces s).pos = 0 := hp
      have hrem : rem (skipSpaces s) = (skipSpaces s).input.length := by simp [rem, hsp]
      rw [Lex.stmt, Lex.stmt, ih.loop (skipSpaces s) 0 0 (by omega) hd]
    · intro a dl b hp hF hd
      rw [bodyLoop, bodyLoop, ih.stmt b hp (by omega) hd]
      rcases hs : Lex.stmt fixed o n b with ⟨b1, res⟩
      cases res with
      | inl e => rfl
      | inr st =>
        obtain ⟨p1, p2, p3⟩ := stmt_prog fixed o n b b1 st hs hp hd
        simp only
        rw [ih.body a dl b1 p1 (by omega) p3]

theorem stmt_stable (fixed : Bool) (o : Opts) (s : St) (hp : s.pos = 0) (hd : s.delim ≠ []) (F : Nat)
    (hF : 3 * s.input.length + 2 ≤ F) : ∀ k, stmt fixed o (F + k) s = stmt fixed o F s := by
  intro k
  induction k with
  | zero => rfl
  | succ k ih =>
    rw [← ih, ← Nat.add_assoc]
    exact (stable fixed o (F + k)).stmt s hp (by omega) hd

/-! ### the `for` loop of `Scan` -/

/-- with enough fuel for the statements and one iteration per input byte (and one for the end), the
loop of `Scan` never reports `fuel` and its result does not depend on either bound. -/
theorem scanAll_stable (fixed : Bool) (o : Opts) : ∀ (n : Nat) (s : St) (acc : List Stmt) (F : Nat),
    s.pos = 0 → s.delim ≠ [] → 3 * s.input.length + 2 ≤ F → s.input.length + 1 ≤ n →
    scanAll fixed o F n s acc ≠ .inl .fuel ∧
    ∀ k m, scanAll fixed o (F + k) (n + m) s acc = scanAll fixed o F n s acc := by
  intro n
  induction n with
  | zero => intro s acc F _ _ _ h; omega
  | succ n ih =>
    intro s acc F hp hd hF hn
    have hnf := stmt_no_fuel fixed o F s hp hF
    have hst := stmt_stable fixed o s hp hd F hF
    have key : ∀ k m, scanAll fixed o (F + k) (n + 1 + m) s acc = scanAll fixed o F (n + 1) s acc ∧
        scanAll fixed o F (n + 1) s acc ≠ .inl .fuel := by
      intro k m
      have e : n + 1 + m = (n + m) + 1 := by omega
      rw [e, scanAll, scanAll, hst k]
      rcases hs : stmt fixed o F s with ⟨s1, res⟩
      rw [hs] at hnf
      cases res with
      | inr st =>
        obtain ⟨p1, p2, p3⟩ := stmt_prog fixed o F s s1 st hs hp hd
        obtain ⟨r1, r2⟩ := ih s1 (st :: acc) F p1 p3 (by omega) (by omega)
        exact ⟨r2 k m, r1⟩
      | inl out =>
        cases out with
        | eof => exact ⟨rfl, by simp⟩
        | err => exact ⟨rfl, by simp⟩
        | panic => exact ⟨rfl, by simp⟩
        | fuel => exact absurd rfl hnf
    exact ⟨(key 0 0).2, fun k m => (key k m).1⟩

/-! ### the private fuel of the inner loops (`len(input) + 1`) suffices as well -/

theorem skipQuoteLoop_stable (q : UInt8) (e : Bool) : ∀ (f : Nat) (s : St), rem s + 1 ≤ f →
    skipQuoteLoop q e (f + 1) s = skipQuoteLoop q e f s := by
  intro f
  induction f with
  | zero => intro s h; omega
  | succ n ih =>
    intro s hf
    rw [skipQuoteLoop.eq_2 q e s (n + 1), skipQuoteLoop.eq_2 q e s n]
    by_cases he : (next s).2 = .eos
    · rcases hn : next s with ⟨s1, r⟩
      rw [hn] at he; simp only at he; subst he; rfl
    · have hs := next_strict he
      rcases hn : next s with ⟨s1, r⟩
      rw [hn] at he hs
      simp only at he hs
      cases r with
      | eos => exact absurd rfl he
      | other => simp only; exact ih s1 (by omega)
      | ch b =>
        simp only
        split
        · exact ih _ (by have := (next_le s1).rem; omega)
        · split
          · rfl
          · exact ih s1 (by omega)

/-- `skipQuote` gives its loop `len(input) + 1` units: never exhausted. -/
theorem skipQuote_fuel_ok (q : UInt8) (e : Bool) (s : St) (k : Nat) :
    skipQuoteLoop q e (s.input.length + 1 + k) s = skipQuoteLoop q e (s.input.length + 1) s := by
  induction k with
  | zero => rfl
  | succ k ih =>
    rw [← ih, ← Nat.add_assoc]
    exact skipQuoteLoop_stable q e _ s (by simp only [rem]; omega)

theorem dollarLoop_stable (m : Bytes) : ∀ (f : Nat) (s : St), rem s + 1 ≤ f →
    dollarLoop m (f + 1) s = dollarLoop m f s := by
  intro f
  induction f with
  | zero => intro s h; omega
  | succ n ih =>
    intro s hf
    rw [dollarLoop.eq_2 m s (n + 1), dollarLoop.eq_2 m s n]
    by_cases he : (next s).2 = .eos
    · rcases hn : next s with ⟨s1, r⟩
      rw [hn] at he; simp only at he; subst he; rfl
    · have hs := next_strict he
      rcases hn : next s with ⟨s1, r⟩
      rw [hn] at he hs
      simp only at he hs
      cases r with
      | eos => exact absurd rfl he
      | other => simp only; exact ih s1 (by omega)
      | ch b =>
        simp only
        split
        · rfl
        · exact ih s1 (by omega)

/-- `skipDollarQuote` gives its loop `len(input) + 1` units: never exhausted. -/
theorem dollarLoop_fuel_ok (m : Bytes) (s : St) (k : Nat) :
    dollarLoop m (s.input.length + 1 + k) s = dollarLoop m (s.input.length + 1) s := by
  induction k with
  | zero => rfl
  | succ k ih =>
    rw [← ih, ← Nat.add_assoc]
    exact dollarLoop_stable m _ s (by simp only [rem]; omega)

end Atlas.Lex
