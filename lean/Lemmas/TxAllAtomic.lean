/-
`--tx-mode all` is all-or-nothing for ANY directory: failing statements anywhere, `-- atlas:txmode`
directives of any kind (this mode rejects every one of them: `tx.modeFor`), a count argument. A failed command
never commits: the transaction is rolled back (statement failure) or closed with the connection (rejected
directive), so the durable state is the one the command started from.
-/
import Lemmas.Tx
namespace Atlas.Tx

/-- operations that neither open nor end a transaction. -/
def Op.plain : Op → Bool
  | .stmt _ _ | .fail _ _ | .rev _ _ | .locked _ => true
  | _ => false

theorem applyOp_plain_open (d w : Db) (op : Op) (h : op.plain = true) :
    ∃ w', applyOp { dur := d, work := some w } op = { dur := d, work := some w' } := by
  cases op <;> simp [Op.plain] at h <;> simp [applyOp, St.write]

theorem applyOps_plain_open (ops : List Op) (d w : Db) (h : ∀ op ∈ ops, op.plain = true) :
    ∃ w', applyOps { dur := d, work := some w } ops = { dur := d, work := some w' } := by
  induction ops generalizing w with
  | nil => exact ⟨w, rfl⟩
  | cons op rest ih =>
    obtain ⟨w1, h1⟩ := applyOp_plain_open d w op (h op (by simp))
    obtain ⟨w2, h2⟩ := ih w1 (fun o ho => h o (by simp [ho]))
    exact ⟨w2, by simp [applyOps, List.foldl] at *; rw [h1]; exact h2⟩

theorem stmtOps_plain (fi total : Nat) (i : Nat) (l : List Bool) :
    ∀ op ∈ (stmtOps fi total i l).1, op.plain = true := by
  induction l generalizing i with
  | nil => simp [stmtOps]
  | cons b rest ih =>
    cases b
    · simp [stmtOps, Op.plain]
    · simp only [stmtOps]
      intro op hop
      simp at hop
      rcases hop with rfl | rfl | h
      · rfl
      · rfl
      · exact ih (i + 1) op h

theorem fileOps_plain (db : Db) (fi : Nat) (f : TFile) :
    ∀ op ∈ (fileOps db fi f).1, op.plain = true := by
  intro op hop
  unfold fileOps at hop
  simp only at hop
  simp at hop
  rcases hop with rfl | h | h
  · rfl
  · exact stmtOps_plain _ _ _ _ op h
  · obtain ⟨_, rfl⟩ := h; rfl

end Atlas.Tx

namespace Atlas.Tx

theorem modeFor_all (cfg : Cfg) (h : cfg.mode = .all) (f : TFile) :
    modeFor cfg f = some .all ∨ modeFor cfg f = none := by
  unfold modeFor
  cases hd : f.directive with
  | none => simp [h]
  | some m => cases m <;> simp [h]

/-- `--tx-mode all`: whatever the files hold (failing statements anywhere, `txmode` directives of any kind,
which this mode rejects), a run of the loop that FAILS leaves the durable state as it was - from any state
whose transaction is open exactly when the loop thinks it is. -/
theorem planFiles_all_fail_any (cfg : Cfg) (h : cfg.mode = .all) (db : Db) (files : List TFile) :
    ∀ (txOpen : Bool) (fi : Nat) (s : St), (txOpen = true → s.work.isSome = true) → (txOpen = false → s.work = none) →
      (planFiles cfg db txOpen fi files).2 = false →
      (applyOps s (planFiles cfg db txOpen fi files).1).dur = s.dur := by
  induction files with
  | nil => intro txOpen fi s _ _ hf; simp [planFiles] at hf
  | cons f rest ih =>
    intro txOpen fi s ho hc hf
    rcases modeFor_all cfg h f with hm | hm
    · -- the file joins the transaction
      unfold planFiles at hf ⊢
      simp only [hm] at hf ⊢
      -- state after the optional BEGIN
      have hopen : ∃ w, applyOps s (if txOpen = true then [] else [Op.begin]) = { dur := s.dur, work := some w } := by
        cases txOpen with
        | true =>
          have := ho rfl
          cases hw : s.work with
          | none => simp [hw] at this
          | some w => exact ⟨w, by cases s; simp_all [applyOps]⟩
        | false =>
          have := hc rfl
          exact ⟨s.dur, by cases s; simp_all [applyOps, applyOp]⟩
      obtain ⟨w, hw⟩ := hopen
      obtain ⟨w', hw'⟩ := applyOps_plain_open (fileOps db fi f).1 s.dur w (fileOps_plain db fi f)
      cases hok : (fileOps db fi f).2 with
      | false =>
        simp only [hok] at hf ⊢
        simp only [Bool.false_eq_true, ↓reduceIte]
        rw [applyOps_append, applyOps_append, hw, hw']
        simp [applyOps, applyOp]
      | true =>
        simp only [hok, ↓reduceIte] at hf ⊢
        rw [applyOps_append, applyOps_append, hw, hw']
        have := ih true (fi + 1) { dur := s.dur, work := some w' } (by simp) (by simp) hf
        simpa using this
    · unfold planFiles
      simp only [hm]
      cases txOpen <;> simp [applyOps, applyOp]

/-- the command: `migrate apply --tx-mode all` (with or without a count) that fails has changed nothing. -/
theorem plan_all_fail_any (cfg : Cfg) (h : cfg.mode = .all) (dir : List TFile) (db : Db)
    (hf : (plan cfg dir db).2 = false) : runAll db (plan cfg dir db).1 = db := by
  unfold plan at hf ⊢
  by_cases hd : cfg.dryRun = true
  · simp [hd] at hf
  · simp only [hd] at hf ⊢
    simp only [Bool.false_eq_true, ↓reduceIte] at hf ⊢
    have := planFiles_all_fail_any cfg h db _ false (pendingStart db) { dur := db } (by simp) (by simp) hf
    simpa [runAll, St.crash] using this

end Atlas.Tx

namespace Atlas.Tx

/-- a successful run in mode `all` met no directive at all. -/
theorem planFiles_all_ok_directives (cfg : Cfg) (h : cfg.mode = .all) (db : Db) (files : List TFile) :
    ∀ (txOpen : Bool) (fi : Nat), (planFiles cfg db txOpen fi files).2 = true → ∀ f ∈ files, f.directive = none := by
  induction files with
  | nil => intro _ _ _ f hf; simp at hf
  | cons f rest ih =>
    intro txOpen fi hok g hg
    have hdir : f.directive = none := by
      cases hd : f.directive with
      | none => rfl
      | some m =>
        have : modeFor cfg f = none := by unfold modeFor; cases m <;> simp [hd, h]
        unfold planFiles at hok
        simp [this] at hok
    have hm : modeFor cfg f = some .all := by unfold modeFor; simp [hdir, h]
    unfold planFiles at hok
    simp only [hm] at hok
    cases hfo : (fileOps db fi f).2 with
    | false => simp [hfo] at hok
    | true =>
      simp only [hfo, ↓reduceIte] at hok
      rcases List.mem_cons.mp hg with rfl | hr
      · exact hdir
      · exact ih true (fi + 1) hok g hr

end Atlas.Tx

namespace Atlas.Tx

/-- operations that cannot end a transaction: plain ones and BEGIN. -/
def Op.quiet : Op → Bool
  | .begin => true
  | o => o.plain

theorem applyOps_quiet_open (ops : List Op) (d w : Db) (h : ∀ op ∈ ops, op.quiet = true) :
    ∃ w', applyOps { dur := d, work := some w } ops = { dur := d, work := some w' } := by
  induction ops generalizing w with
  | nil => exact ⟨w, rfl⟩
  | cons op rest ih =>
    have h1 : ∃ w1, applyOp { dur := d, work := some w } op = { dur := d, work := some w1 } := by
      have hq := h op (by simp)
      cases op <;> simp [Op.quiet, Op.plain] at hq <;> simp [applyOp, St.write]
    obtain ⟨w1, h1⟩ := h1
    obtain ⟨w2, h2⟩ := ih w1 (fun o ho => h o (by simp [ho]))
    exact ⟨w2, by simp only [applyOps, List.foldl_cons] at *; rw [h1]; exact h2⟩

/-- a list of quiet operations that starts with BEGIN (or is empty) keeps the durable state, from a state without
an open transaction too. -/
theorem applyOps_quiet_closed (ops : List Op) (d : Db) (h : ∀ op ∈ ops, op.quiet = true)
    (hb : ops = [] ∨ ops.head? = some Op.begin) : (applyOps { dur := d, work := none } ops).dur = d := by
  cases ops with
  | nil => rfl
  | cons op rest =>
    rcases hb with hb | hb
    · simp at hb
    · simp at hb
      subst hb
      obtain ⟨w', hw⟩ := applyOps_quiet_open rest d d (fun o ho => h o (by simp [ho]))
      simp only [applyOps, List.foldl_cons, applyOp] at *
      rw [hw]

/-- shape of the loop's operations in mode `all`: quiet operations, then at most one closing operation. -/
theorem planFiles_all_shape (cfg : Cfg) (h : cfg.mode = .all) (db : Db) (files : List TFile) :
    ∀ (txOpen : Bool) (fi : Nat), ∃ body tail, (planFiles cfg db txOpen fi files).1 = body ++ tail ∧ tail.length ≤ 1 ∧
      (∀ op ∈ body, op.quiet = true) ∧ (txOpen = false → body = [] ∨ body.head? = some Op.begin) := by
  induction files with
  | nil =>
    intro txOpen fi
    exact ⟨[], (planFiles cfg db txOpen fi []).1, by simp, by cases txOpen <;> simp [planFiles], by simp, by simp⟩
  | cons f rest ih =>
    intro txOpen fi
    rcases modeFor_all cfg h f with hm | hm
    · obtain ⟨body', tail', he, hl, hq, _⟩ := ih true (fi + 1)
      have hplain : ∀ op ∈ (fileOps db fi f).1, op.quiet = true := by
        intro op hop
        have := fileOps_plain db fi f op hop
        cases op <;> simp_all [Op.quiet, Op.plain]
      cases hok : (fileOps db fi f).2 with
      | true =>
        refine ⟨(if txOpen = true then [] else [Op.begin]) ++ (fileOps db fi f).1 ++ body', tail', ?_, hl, ?_, ?_⟩
        · unfold planFiles; simp only [hm, hok, ↓reduceIte]; rw [he]; simp [List.append_assoc]
        · intro op hop
          simp only [List.mem_append] at hop
          rcases hop with (hop | hop) | hop
          · cases txOpen <;> simp at hop; subst hop; rfl
          · exact hplain op hop
          · exact hq op hop
        · intro ht; subst ht; right; simp
      | false =>
        refine ⟨(if txOpen = true then [] else [Op.begin]) ++ (fileOps db fi f).1, [Op.rollback], ?_, by simp, ?_, ?_⟩
        · unfold planFiles; simp only [hm, hok]; simp
        · intro op hop
          simp only [List.mem_append] at hop
          rcases hop with hop | hop
          · cases txOpen <;> simp at hop; subst hop; rfl
          · exact hplain op hop
        · intro ht; subst ht; right; simp
    · refine ⟨[], (planFiles cfg db txOpen fi (f :: rest)).1, by simp, ?_, by simp, by simp⟩
      unfold planFiles; simp only [hm]; cases txOpen <;> simp

/-- **crash in mode `all`**: whatever the directory holds, a process that dies before the LAST operation of the
command (the only COMMIT, if there is one) has changed nothing durable. -/
theorem plan_all_crash_any (cfg : Cfg) (h : cfg.mode = .all) (dir : List TFile) (db : Db) (k : Nat)
    (hk : k < (plan cfg dir db).1.length) : crashAt db (plan cfg dir db).1 k = db := by
  unfold plan at hk ⊢
  by_cases hd : cfg.dryRun = true
  · simp [hd] at hk
  · simp only [hd, Bool.false_eq_true, ↓reduceIte] at hk ⊢
    obtain ⟨body, tail, he, hl, hq, hb⟩ := planFiles_all_shape cfg h db (limit cfg.count (dir.drop (pendingStart db))) false (pendingStart db)
    rw [he] at hk ⊢
    have hkb : k ≤ body.length := by simp at hk; omega
    have htake : (body ++ tail).take k = body.take k := by
      rw [List.take_append_of_le_length hkb]
    unfold crashAt St.crash
    rw [htake]
    apply applyOps_quiet_closed
    · intro op hop; exact hq op (List.mem_of_mem_take hop)
    · rcases hb rfl with hb | hb
      · left; simp [hb]
      · cases k with
        | zero => left; simp
        | succ k =>
          right
          cases body with
          | nil => simp at hb
          | cons b bs => simpa using hb

end Atlas.Tx
