/- Helper lemmas for failing statements in the transaction model (C13). -/
import Lemmas.Tx

namespace Atlas.Tx

/-- a file whose statement `j` fails, all earlier ones succeed; no directive. -/
structure TFile.FailsAt (f : TFile) (j : Nat) : Prop where
  nodir : f.directive = none
  lt : j < f.ok.length
  bad : f.ok[j]? = some false
  good : ∀ i, i < j → f.ok[i]? = some true

/-- operations of `Execute` on a fresh file whose statement `j` fails. -/
def failBody (fi m j : Nat) : List Op :=
  Op.rev fi ⟨0, m, false⟩ :: okOps fi m 0 j ++ [Op.fail fi j, Op.rev fi ⟨j, m, true⟩]

theorem stmtOps_fail (fi total : Nat) : ∀ (l : List Bool) (i j : Nat), j < l.length → l[j]? = some false →
    (∀ x, x < j → l[x]? = some true) →
    stmtOps fi total i l = (okOps fi total i j ++ [Op.fail fi (i + j), Op.rev fi ⟨i + j, total, true⟩], false) := by
  intro l
  induction l with
  | nil => intro i j h; simp at h
  | cons b bs ih =>
    intro i j hlt hbad hgood
    cases j with
    | zero =>
      simp at hbad; subst hbad
      simp [stmtOps, okOps]
    | succ j =>
      have hb : b = true := by have := hgood 0 (by omega); simpa using this
      subst hb
      have := ih (i + 1) j (by simpa using hlt) (by simpa using hbad)
        (fun x hx => by have := hgood (x + 1) (by omega); simpa using this)
      simp only [stmtOps, this, okOps]
      have e : i + 1 + j = i + (j + 1) := by omega
      simp [e]

theorem fileOps_fail (db : Db) (fi : Nat) (f : TFile) (j : Nat) (hf : f.FailsAt j) (hn : db.revs[fi]? = none) :
    fileOps db fi f = (failBody fi f.ok.length j, false) := by
  simp only [fileOps, startRev, hn, Option.getD_none, List.drop_zero]
  rw [stmtOps_fail _ _ _ 0 j hf.lt hf.bad hf.good]
  simp [failBody]

theorem failBody_pure (fi m j : Nat) : ∀ o ∈ failBody fi m j, o.pure = true := by
  intro o h
  simp only [failBody, List.mem_append, List.mem_cons, List.not_mem_nil, or_false] at h
  rcases h with (rfl | h) | rfl | rfl
  · rfl
  · exact okOps_pure _ _ _ _ o h
  · rfl
  · rfl

/-- the database after the statements before the failing one, recorded with the error. -/
def failedFile (d : Db) (j m : Nat) : Db :=
  { journal := d.journal ++ (List.range j).map (fun x => (d.revs.length, x)), revs := d.revs ++ [⟨j, m, true⟩] }

theorem failBody_effect (d : Db) (m j : Nat) :
    (failBody d.revs.length m j).foldl applyDb d = failedFile d j m := by
  have hd : d = { journal := d.journal, revs := d.revs } := rfl
  simp only [failBody, List.cons_append, List.foldl_cons, List.foldl_append, List.foldl_nil, applyDb]
  rw [hd, setRev_fresh, okOps_effect, setRev_last]
  simp [failedFile, List.range_eq_range']

theorem modeFor_fails (cfg : Cfg) (f : TFile) (j : Nat) (hf : f.FailsAt j) : modeFor cfg f = some cfg.mode := by
  simp [modeFor, hf.nodir]

theorem block_rollback (body : List Op) (h : ∀ o ∈ body, o.pure = true) (d : Db) :
    applyOps { dur := d, work := none } (Op.begin :: body ++ [Op.rollback]) = { dur := d, work := none } := by
  rw [List.cons_append, applyOps_cons]
  show applyOps { dur := d, work := some d } (body ++ [Op.rollback]) = _
  rw [applyOps_append, applyOps_pure_some _ h]
  rfl

/-! ### plans of a directory `good ++ bad :: rest` -/

theorem planFiles_file_fail (cfg : Cfg) (hm : cfg.mode = .file) (db0 : Db) (bad : TFile) (j : Nat)
    (hb : bad.FailsAt j) (rest : List TFile) :
    ∀ (good : List TFile) (fi : Nat), AllOk good → db0.revs.length ≤ fi →
      planFiles cfg db0 false fi (good ++ bad :: rest) =
        (blocks fi good ++ (Op.begin :: failBody (fi + good.length) bad.ok.length j ++ [Op.rollback]), false) := by
  intro good
  induction good with
  | nil =>
    intro fi _ hle
    have hfresh : db0.revs[fi]? = none := List.getElem?_eq_none (by omega)
    simp only [List.nil_append, planFiles, modeFor_fails cfg bad j hb, hm, fileOps_fail db0 fi bad j hb hfresh]
    simp [blocks]
  | cons f fs ih =>
    intro fi h hle
    have hf : f.AllOk := h f (List.mem_cons_self ..)
    have hfresh : db0.revs[fi]? = none := List.getElem?_eq_none (by omega)
    have ih' := ih (fi + 1) (fun x hx => h x (List.mem_cons_of_mem _ hx)) (by omega)
    have hc : (if cfg.fixed = true then true else decide True) = true := by simp
    simp only [List.cons_append, planFiles, modeFor_allOk cfg f hf, hm, fileOps_fresh db0 fi f hf hfresh]
    simp only [hc, Bool.not_true, ih', blocks, ite_true, List.cons_append, List.append_assoc]
    have e : fi + 1 + fs.length = fi + (fs.length + 1) := by omega
    simp [e]

theorem planFiles_all_fail_open (cfg : Cfg) (hm : cfg.mode = .all) (db0 : Db) (bad : TFile) (j : Nat)
    (hb : bad.FailsAt j) (rest : List TFile) :
    ∀ (good : List TFile) (fi : Nat), AllOk good → db0.revs.length ≤ fi →
      planFiles cfg db0 true fi (good ++ bad :: rest) =
        (bodies fi good ++ failBody (fi + good.length) bad.ok.length j ++ [Op.rollback], false) := by
  intro good
  induction good with
  | nil =>
    intro fi _ hle
    have hfresh : db0.revs[fi]? = none := List.getElem?_eq_none (by omega)
    simp only [List.nil_append, planFiles, modeFor_fails cfg bad j hb, hm, fileOps_fail db0 fi bad j hb hfresh]
    simp [bodies]
  | cons f fs ih =>
    intro fi h hle
    have hf : f.AllOk := h f (List.mem_cons_self ..)
    have hfresh : db0.revs[fi]? = none := List.getElem?_eq_none (by omega)
    have ih' := ih (fi + 1) (fun x hx => h x (List.mem_cons_of_mem _ hx)) (by omega)
    simp only [List.cons_append, planFiles, modeFor_allOk cfg f hf, hm, fileOps_fresh db0 fi f hf hfresh, ih']
    have e : fi + 1 + fs.length = fi + (fs.length + 1) := by omega
    simp [bodies, e]

theorem planFiles_all_fail (cfg : Cfg) (hm : cfg.mode = .all) (db0 : Db) (bad : TFile) (j : Nat)
    (hb : bad.FailsAt j) (rest : List TFile) (good : List TFile) (fi : Nat) (h : AllOk good) (hle : db0.revs.length ≤ fi) :
    planFiles cfg db0 false fi (good ++ bad :: rest) =
      (Op.begin :: (bodies fi good ++ failBody (fi + good.length) bad.ok.length j) ++ [Op.rollback], false) := by
  cases good with
  | nil =>
    have hfresh : db0.revs[fi]? = none := List.getElem?_eq_none (by omega)
    simp only [List.nil_append, planFiles, modeFor_fails cfg bad j hb, hm, fileOps_fail db0 fi bad j hb hfresh]
    simp [bodies]
  | cons f fs =>
    have hf : f.AllOk := h f (List.mem_cons_self ..)
    have hfresh : db0.revs[fi]? = none := List.getElem?_eq_none (by omega)
    have h' := planFiles_all_fail_open cfg hm db0 bad j hb rest fs (fi + 1) (fun x hx => h x (List.mem_cons_of_mem _ hx)) (by omega)
    simp only [List.cons_append, planFiles, modeFor_allOk cfg f hf, hm, fileOps_fresh db0 fi f hf hfresh, h']
    have e : fi + 1 + fs.length = fi + (fs.length + 1) := by omega
    simp [bodies, e]

theorem planFiles_none_fail (cfg : Cfg) (hm : cfg.mode = .none) (db0 : Db) (bad : TFile) (j : Nat)
    (hb : bad.FailsAt j) (rest : List TFile) :
    ∀ (good : List TFile) (fi : Nat), AllOk good → db0.revs.length ≤ fi →
      planFiles cfg db0 false fi (good ++ bad :: rest) =
        (bodies fi good ++ failBody (fi + good.length) bad.ok.length j, false) := by
  intro good
  induction good with
  | nil =>
    intro fi _ hle
    have hfresh : db0.revs[fi]? = none := List.getElem?_eq_none (by omega)
    simp only [List.nil_append, planFiles, modeFor_fails cfg bad j hb, hm, fileOps_fail db0 fi bad j hb hfresh]
    simp [bodies]
  | cons f fs ih =>
    intro fi h hle
    have hf : f.AllOk := h f (List.mem_cons_self ..)
    have hfresh : db0.revs[fi]? = none := List.getElem?_eq_none (by omega)
    have ih' := ih (fi + 1) (fun x hx => h x (List.mem_cons_of_mem _ hx)) (by omega)
    simp only [List.cons_append, planFiles, modeFor_allOk cfg f hf, hm, fileOps_fresh db0 fi f hf hfresh, ih']
    have e : fi + 1 + fs.length = fi + (fs.length + 1) := by omega
    simp [bodies, e]

/-! ### resuming a file recorded with an error (none mode) -/

/-- operations of `Execute` on a file whose stored revision is `⟨a, m, e⟩`. -/
def bodyE (fi m a : Nat) (e : Bool) : List Op :=
  Op.rev fi ⟨a, m, e⟩ :: okOps fi m a (m - a) ++ [Op.rev fi ⟨m, m, false⟩]

theorem fileOps_resumeE (db : Db) (fi : Nat) (f : TFile) (hf : f.AllOk) (a : Nat) (e : Bool)
    (hn : db.revs[fi]? = some ⟨a, f.ok.length, e⟩) :
    fileOps db fi f = (bodyE fi f.ok.length a e, true) := by
  simp only [fileOps, startRev, hn, Option.getD_some]
  rw [stmtOps_allTrue _ _ _ _ (fun b hb => hf.2 b (List.mem_of_mem_drop hb))]
  simp [bodyE]

theorem bodyE_pure (fi m a : Nat) (e : Bool) : ∀ o ∈ bodyE fi m a e, o.pure = true := by
  intro o h
  simp only [bodyE, List.mem_append, List.mem_cons, List.mem_singleton, List.not_mem_nil, or_false] at h
  rcases h with (rfl | h) | rfl
  · rfl
  · exact okOps_pure _ _ _ _ o h
  · rfl

theorem bodyE_effect (m a : Nat) (e : Bool) (pre : List Rev) (J : List (Nat × Nat)) (x : Rev) :
    (bodyE pre.length m a e).foldl applyDb { journal := J, revs := pre ++ [x] } =
      { journal := J ++ (List.range' a (m - a)).map (fun i => (pre.length, i)), revs := pre ++ [⟨m, m, false⟩] } := by
  simp only [bodyE, List.cons_append, List.foldl_cons, List.foldl_append, List.foldl_nil, applyDb]
  rw [setRev_last, okOps_effect, setRev_last]

theorem planFiles_none_resumeE (cfg : Cfg) (hm : cfg.mode = .none) (db0 : Db) (f : TFile) (fs : List TFile)
    (fi a : Nat) (e : Bool) (h : AllOk (f :: fs)) (hlen : db0.revs.length = fi + 1)
    (hr : db0.revs[fi]? = some ⟨a, f.ok.length, e⟩) :
    planFiles cfg db0 false fi (f :: fs) = (bodyE fi f.ok.length a e ++ bodies (fi + 1) fs, true) := by
  have hf : f.AllOk := h f (List.mem_cons_self ..)
  have h' := planFiles_none cfg hm db0 fs (fi + 1) (fun x hx => h x (List.mem_cons_of_mem _ hx)) (by omega)
  simp only [planFiles, modeFor_allOk cfg f hf, hm, fileOps_resumeE db0 fi f hf a e hr, h']
  simp

theorem resumeE_effect (D : Db) (m : Nat) (rest : List TFile) (j : Nat) (hj : j ≤ m) :
    (bodyE D.revs.length m j true ++ bodies (D.revs.length + 1) rest).foldl applyDb (failedFile D j m) =
      applyFiles { journal := D.journal ++ (List.range m).map (fun x => (D.revs.length, x)),
                   revs := D.revs ++ [⟨m, m, false⟩] } rest := by
  rw [List.foldl_append]
  unfold failedFile
  rw [bodyE_effect]
  have hr : List.range m = List.range j ++ List.range' j (m - j) := by
    rw [List.range_eq_range', List.range_eq_range']
    have := List.range'_append (s := 0) (m := j) (n := m - j) (step := 1)
    simp only [Nat.one_mul, Nat.zero_add] at this
    rw [this]; congr 1; omega
  have hl : ({ journal := D.journal ++ (List.range j).map (fun x => (D.revs.length, x)) ++
      (List.range' j (m - j)).map (fun x => (D.revs.length, x)), revs := D.revs ++ [⟨m, m, false⟩] } : Db).revs.length
      = D.revs.length + 1 := by simp
  rw [← hl, bodies_effect]
  congr 1
  simp [hr]

/-! ### schema apply -/

theorem schemaApplyOps_effect (d : Db) : ∀ (l : List Bool) (i : Nat) (w : Db),
    applyOps { dur := d, work := some w } (schemaApplyOps i l) =
      if l.all id then { dur := { w with journal := w.journal ++ (List.range' i l.length).map (fun x => (0, x)) }, work := none }
      else { dur := d, work := none } := by
  intro l
  induction l with
  | nil => intro i w; simp [schemaApplyOps, applyOps, applyOp]
  | cons b bs ih =>
    intro i w
    cases b with
    | true =>
      simp only [schemaApplyOps, applyOps_cons, applyOp, St.write, Db.addStmt]
      rw [ih]
      simp [List.range'_succ]
    | false => simp [schemaApplyOps, applyOps, applyOp]

end Atlas.Tx
