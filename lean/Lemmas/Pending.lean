/-
Lemmas about the helpers of the `Pending` model: FilesLastIndex, slices.IndexFunc and the Go binary
search, on lists sorted by version.
-/
import Atlas.Pending

namespace Atlas.Pending
open Atlas

/-! ### lastIndex / indexFunc -/

theorem lastIndex_none {α : Type} {p : α → Bool} {l : List α} :
    lastIndex p l = none ↔ ∀ x ∈ l, p x = false := by
  induction l with
  | nil => simp [lastIndex]
  | cons a l ih =>
    unfold lastIndex
    cases h : lastIndex p l with
    | some i =>
      simp only [reduceCtorEq, false_iff]
      intro hall
      have := ih.mpr (fun x hx => hall x (List.mem_cons_of_mem _ hx))
      rw [h] at this; cases this
    | none =>
      have hl := ih.mp h
      by_cases hp : p a = true
      · simp [hp]
      · simp only [hp, Bool.false_eq_true, if_false, true_iff]
        intro x hx
        rcases List.mem_cons.mp hx with rfl | hx
        · simpa using hp
        · exact hl x hx

/-- the last index satisfying `p` in `pre ++ a :: post` is `pre.length` when `a` satisfies it and
nothing of `post` does. -/
theorem lastIndex_split {α : Type} {p : α → Bool} (pre : List α) (a : α) (post : List α)
    (ha : p a = true) (hpost : ∀ x ∈ post, p x = false) :
    lastIndex p (pre ++ a :: post) = some pre.length := by
  induction pre with
  | nil =>
    simp only [List.nil_append, List.length_nil]
    unfold lastIndex
    rw [lastIndex_none.mpr hpost]
    simp [ha]
  | cons b pre ih =>
    simp only [List.cons_append, List.length_cons]
    unfold lastIndex
    rw [ih]

theorem lastIndex_all_false {α : Type} {p : α → Bool} (l : List α) (h : ∀ x ∈ l, p x = false) :
    lastIndex p l = none := lastIndex_none.mpr h

theorem indexFunc_head {α : Type} {p : α → Bool} (a : α) (l : List α) (h : p a = true) :
    indexFunc p (a :: l) = some 0 := by
  simp [indexFunc, h]

/-! ### the Go binary search on a list sorted w.r.t. `lt` -/

/-- `lt` is monotone on the list: once it is false it stays false (what sortedness by the compared
key gives). -/
def Mono {α : Type} (lt : α → Bool) (l : List α) : Prop :=
  ∀ i j (hi : i < l.length) (hj : j < l.length), i ≤ j → lt l[j] = true → lt l[i] = true

theorem bsearchLoop_spec {α : Type} [Inhabited α] (lt : α → Bool) (l : List α) (hm : Mono lt l) :
    ∀ fuel lo hi, hi ≤ l.length → lo ≤ hi → hi - lo < fuel →
      (∀ k (hk : k < l.length), k < lo → lt l[k] = true) →
      (∀ k (hk : k < l.length), hi ≤ k → lt l[k] = false) →
      let i := bsearchLoop lt l fuel lo hi
      lo ≤ i ∧ i ≤ hi ∧ (∀ k (hk : k < l.length), k < i → lt l[k] = true) ∧
        (∀ k (hk : k < l.length), i ≤ k → lt l[k] = false) := by
  intro fuel
  induction fuel with
  | zero => intro lo hi _ _ hf; omega
  | succ n ih =>
    intro lo hi hhi hlo hf hbelow habove
    unfold bsearchLoop
    by_cases hlt : lo < hi
    · simp only [hlt, if_true]
      have hh : (lo + hi) / 2 < l.length := by omega
      have hget : l[(lo + hi) / 2]! = l[(lo + hi) / 2] := by
        rw [getElem!_pos l ((lo + hi) / 2) hh]
      rw [hget]
      by_cases hc : lt l[(lo + hi) / 2] = true
      · simp only [hc, if_true]
        have := ih ((lo + hi) / 2 + 1) hi hhi (by omega) (by omega)
          (fun k hk hkl => by
            by_cases hk2 : k < lo
            · exact hbelow k hk hk2
            · exact hm k ((lo + hi) / 2) hk hh (by omega) hc)
          habove
        obtain ⟨h1, h2, h3, h4⟩ := this
        exact ⟨by omega, h2, h3, h4⟩
      · simp only [hc, Bool.false_eq_true, if_false]
        have hcf : lt l[(lo + hi) / 2] = false := by simpa using hc
        have := ih lo ((lo + hi) / 2) (by omega) (by omega) (by omega) hbelow
          (fun k hk hkl => by
            by_cases hk2 : hi ≤ k
            · exact habove k hk hk2
            · cases hx : lt l[k] with
              | false => rfl
              | true =>
                have := hm ((lo + hi) / 2) k hh hk hkl hx
                rw [hcf] at this; cases this)
        obtain ⟨h1, h2, h3, h4⟩ := this
        exact ⟨h1, by omega, h3, h4⟩
    · simp only [hlt, if_false]
      have : lo = hi := by omega
      subst this
      exact ⟨Nat.le_refl _, Nat.le_refl _, fun k hk hkl => hbelow k hk hkl, fun k hk hkl => habove k hk hkl⟩

/-- binary search finds the element at position `i` of a list on which `lt` is monotone, when `lt`
holds strictly before `i` and not from `i` on. -/
theorem bsearch_at {α : Type} [Inhabited α] (lt eq : α → Bool) (l : List α) (hm : Mono lt l) (i : Nat)
    (hi : i < l.length) (hbefore : ∀ k (hk : k < l.length), k < i → lt l[k] = true)
    (hat : lt l[i] = false) (heq : eq l[i] = true) :
    bsearch lt eq l = (i, true) := by
  unfold bsearch
  have := bsearchLoop_spec lt l hm (l.length + 1) 0 l.length (Nat.le_refl _) (Nat.zero_le _) (by omega)
    (fun k _ hk => by omega) (fun k hk hk2 => by omega)
  obtain ⟨_, h2, h3, h4⟩ := this
  have hres : bsearchLoop lt l (l.length + 1) 0 l.length = i := by
    apply Nat.le_antisymm
    · -- result ≤ i, otherwise lt l[i] would be true
      apply Nat.le_of_not_lt
      intro hgt
      have := h3 i hi hgt
      rw [hat] at this; cases this
    · apply Nat.le_of_not_lt
      intro hlt'
      have hk : bsearchLoop lt l (l.length + 1) 0 l.length < l.length := by omega
      have h1 := h4 _ hk (Nat.le_refl _)
      have h2' := hbefore _ hk hlt'
      rw [h1] at h2'; cases h2'
  rw [hres]
  simp [hi, getElem!_pos l i hi, heq]

/-- binary search reports "not found" when no element satisfies `eq`. -/
theorem bsearch_not_found {α : Type} [Inhabited α] (lt eq : α → Bool) (l : List α)
    (hne : ∀ x ∈ l, eq x = false) : (bsearch lt eq l).2 = false := by
  unfold bsearch
  simp only
  by_cases h : bsearchLoop lt l (l.length + 1) 0 l.length < l.length
  · simp only [h, decide_true, Bool.true_and]
    rw [getElem!_pos l _ h]
    exact hne _ (List.getElem_mem h)
  · simp [h]

end Atlas.Pending

/-! ### every pending file is a file of the directory -/

namespace Atlas.Pending


theorem finish_sub {p l : List MFile} (h : finish p = .ok l) : l = p := by
  unfold finish at h
  split at h
  · cases h
  · cases h; rfl

theorem skip_sub (all : List MFile) : ∀ f ∈ skipCheckpoints all, f ∈ all := by
  intro f hf; exact (List.mem_filter.mp hf).1

theorem outOfOrder_sub (cfg : Cfg) (m : List MFile) (revs : List Revision) (r0 : Revision) (idx : Nat) (s : List MFile)
    (h : outOfOrder cfg m revs r0 idx = some s) : ∀ f ∈ s, f ∈ m := by
  unfold outOfOrder at h
  split at h
  · split at h
    · cases h
      intro f hf
      have := (List.mem_filter.mp hf).1
      exact List.mem_of_mem_take (List.mem_of_mem_drop this)
    · cases h
  · cases h

theorem normal_sub (cfg : Cfg) (m : List MFile) (revs : List Revision) (r0 last : Revision) (l : List MFile)
    (h : normal cfg m revs r0 last = .ok l) : ∀ f ∈ l, f ∈ m := by
  unfold normal at h
  simp only at h
  split at h
  · split at h
    · cases h
    · cases h; exact fun f hf => hf
  · rename_i idx0 _
    split at h
    · have := finish_sub h; subst this
      exact fun f hf => List.mem_of_mem_drop hf
    · have := finish_sub h; subst this
      exact fun f hf => List.mem_of_mem_drop hf
    · rename_i skipped _ hs
      split at h
      · have := finish_sub h; subst this
        intro f hf
        rcases List.mem_append.mp hf with h1 | h1
        · exact outOfOrder_sub cfg m revs r0 _ skipped hs f h1
        · exact List.mem_of_mem_drop h1
      · cases h
      · have := finish_sub h; subst this
        exact fun f hf => List.mem_of_mem_drop hf

theorem fromLastCheckpoint_sub (all : List MFile) : ∀ f ∈ filesFromLastCheckpoint all, f ∈ all := by
  intro f hf
  unfold filesFromLastCheckpoint at hf
  split at hf
  · exact hf
  · exact List.mem_of_mem_drop hf

theorem firstRun_sub (cfg : Cfg) (all : List MFile) (l : List MFile)
    (h : (firstRun cfg all (skipCheckpoints all)).out = .ok l) : ∀ f ∈ l, f ∈ all := by
  unfold firstRun at h
  split at h
  · cases h
  · split at h
    · split at h
      · cases h
      · simp only at h
        split at h
        · cases h
        · cases h
          exact fun f hf => skip_sub all f (List.mem_of_mem_drop hf)
    · simp only at h
      split at h
      · cases h
      · cases h
        exact fromLastCheckpoint_sub all

/-- **every pending file is a file of the directory** - whatever the revision table, the options and the
execution order are. -/
theorem pending_sub (cfg : Cfg) (all : List MFile) (revs : List Revision) (l : List MFile)
    (h : (pending cfg all revs).out = .ok l) : ∀ f ∈ l, f ∈ all := by
  unfold pending at h
  simp only at h
  split at h
  · exact firstRun_sub cfg all l h
  · exact firstRun_sub cfg all l h
  · rename_i last r0 _ _
    split at h
    · split at h
      · rename_i hfound
        cases h
        intro f hf
        rcases List.mem_cons.mp hf with rfl | h1
        · -- all[idx]! with idx < all.length
          simp only [bsearch, Bool.and_eq_true, decide_eq_true_eq] at hfound
          have hlt := hfound.1.1
          rw [getElem!_pos all _ hlt]
          exact List.getElem_mem hlt
        · exact List.mem_of_mem_drop (skip_sub _ f h1)
      · split at h
        · cases h
        · exact fun f hf => skip_sub all f (normal_sub cfg _ revs r0 last l h f hf)
    · split at h
      · exact fun f hf => skip_sub all f (normal_sub cfg _ revs r0 last l h f hf)
      · cases h


end Atlas.Pending

/-! ### the pending files are a sub-sequence of the directory -/

namespace Atlas.Pending


theorem skip_sublist (all : List MFile) : (skipCheckpoints all).Sublist all := List.filter_sublist

theorem outOfOrder_sublist (cfg : Cfg) (m : List MFile) (revs : List Revision) (r0 : Revision) (idx : Nat) (s : List MFile)
    (h : outOfOrder cfg m revs r0 idx = some s) : s.Sublist (m.take idx) := by
  unfold outOfOrder at h
  split at h
  · split at h
    · cases h
      exact List.filter_sublist.trans (List.drop_sublist _ _)
    · cases h
  · cases h

theorem normal_sublist (cfg : Cfg) (m : List MFile) (revs : List Revision) (r0 last : Revision) (l : List MFile)
    (h : normal cfg m revs r0 last = .ok l) : l.Sublist m := by
  unfold normal at h
  simp only at h
  split at h
  · split at h
    · cases h
    · cases h; exact List.Sublist.refl _
  · rename_i idx0 _
    split at h
    · have := finish_sub h; subst this; exact List.drop_sublist _ _
    · have := finish_sub h; subst this; exact List.drop_sublist _ _
    · rename_i skipped _ hs
      split at h
      · have := finish_sub h; subst this
        have h1 := outOfOrder_sublist cfg m revs r0 _ skipped hs
        have := List.Sublist.append h1 (List.Sublist.refl (m.drop (if last.partially = true then idx0 else idx0 + 1)))
        rwa [List.take_append_drop] at this
      · cases h
      · have := finish_sub h; subst this; exact List.drop_sublist _ _

theorem firstRun_sublist (cfg : Cfg) (all : List MFile) (l : List MFile)
    (h : (firstRun cfg all (skipCheckpoints all)).out = .ok l) : l.Sublist all := by
  unfold firstRun at h
  split at h
  · cases h
  · split at h
    · split at h
      · cases h
      · simp only at h
        split at h
        · cases h
        · cases h
          exact (List.drop_sublist _ _).trans (skip_sublist all)
    · simp only at h
      split at h
      · cases h
      · cases h
        unfold filesFromLastCheckpoint
        split
        · exact List.Sublist.refl _
        · exact List.drop_sublist _ _

/-- **the pending files are a sub-sequence of the directory**: in directory order, each file at most once. -/
theorem pending_sublist (cfg : Cfg) (all : List MFile) (revs : List Revision) (l : List MFile)
    (h : (pending cfg all revs).out = .ok l) : l.Sublist all := by
  unfold pending at h
  simp only at h
  split at h
  · exact firstRun_sublist cfg all l h
  · exact firstRun_sublist cfg all l h
  · rename_i last r0 _ _
    split at h
    · split at h
      · rename_i hfound
        cases h
        simp only [bsearch, Bool.and_eq_true, decide_eq_true_eq] at hfound
        have hlt := hfound.1.1
        have hck := hfound.2
        rw [getElem!_pos all _ hlt] at hck ⊢
        have hd : all.drop (bsearchLoop (fun (f : MFile) => f.version < last.version) all (all.length + 1) 0 all.length) =
            all[bsearchLoop (fun (f : MFile) => f.version < last.version) all (all.length + 1) 0 all.length] ::
              all.drop (bsearchLoop (fun (f : MFile) => f.version < last.version) all (all.length + 1) 0 all.length + 1) :=
          List.drop_eq_getElem_cons hlt
        have : (all[bsearchLoop (fun (f : MFile) => f.version < last.version) all (all.length + 1) 0 all.length] ::
            skipCheckpoints (all.drop (bsearchLoop (fun (f : MFile) => f.version < last.version) all (all.length + 1) 0 all.length))).Sublist
            (all.drop (bsearchLoop (fun (f : MFile) => f.version < last.version) all (all.length + 1) 0 all.length)) := by
          rw [hd]
          unfold skipCheckpoints
          rw [List.filter_cons]
          simp only [hck, Bool.not_true, Bool.false_eq_true, ↓reduceIte]
          exact List.Sublist.cons_cons _ List.filter_sublist
        exact this.trans (List.drop_sublist _ _)
      · split at h
        · cases h
        · exact (normal_sublist cfg _ revs r0 last l h).trans (skip_sublist all)
    · split at h
      · exact (normal_sublist cfg _ revs r0 last l h).trans (skip_sublist all)
      · cases h


end Atlas.Pending

/-! ### `ExecuteTo` -/

namespace Atlas.Pending


/-- what `ExecuteTo` executes is a sub-sequence of the directory. -/
theorem executeTo_sublist (cfg : Cfg) (all : List MFile) (revs : List Revision) (v : String) (l : List MFile)
    (h : executeTo cfg all revs v = some (.ok l)) : l.Sublist all := by
  unfold executeTo at h
  split at h
  · cases h
  · rename_i idx _
    split at h
    · simp only [Option.some.injEq] at h
      exact (pending_sublist cfg _ revs l h).trans (List.take_sublist _ _)
    · split at h
      · cases h
      · rename_i p hp
        split at h
        · cases h
        · simp only [Option.some.injEq, Except.ok.injEq] at h
          subst h
          exact (List.take_sublist _ _).trans (pending_sublist cfg all revs p hp)

/-- with a checkpoint behind the target, nothing behind the target is executed. -/
theorem executeTo_before_checkpoint (cfg : Cfg) (all : List MFile) (revs : List Revision) (v : String) (idx : Nat)
    (l : List MFile) (hi : lastIndex (fun f => f.version == v) all = some idx)
    (hck : (all.drop (idx + 1)).any (fun f => f.checkpoint) = true)
    (h : executeTo cfg all revs v = some (.ok l)) : l.Sublist (all.take (idx + 1)) := by
  unfold executeTo at h
  simp only [hi, hck, ↓reduceIte, Option.some.injEq] at h
  exact pending_sublist cfg _ revs l h

/-- without one, what is executed is a prefix of what `Pending` returns, and it ends with the target. -/
theorem executeTo_prefix (cfg : Cfg) (all : List MFile) (revs : List Revision) (v : String) (idx : Nat)
    (l : List MFile) (hi : lastIndex (fun f => f.version == v) all = some idx)
    (hck : (all.drop (idx + 1)).any (fun f => f.checkpoint) = false)
    (h : executeTo cfg all revs v = some (.ok l)) :
    ∃ p i, (pending cfg all revs).out = .ok p ∧ lastIndex (fun f => f.version == v) p = some i ∧ l = p.take (i + 1) := by
  unfold executeTo at h
  simp only [hi, hck, Bool.false_eq_true, ↓reduceIte] at h
  split at h
  · cases h
  · rename_i p hp
    split at h
    · cases h
    · rename_i i hidx
      simp only [Option.some.injEq, Except.ok.injEq] at h
      exact ⟨p, i, hp, hidx, h.symm⟩


end Atlas.Pending
