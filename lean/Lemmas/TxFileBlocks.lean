/- `--tx-mode file` on directories without directives, ANY content (repaired `mayCommit`): every file runs in its
own BEGIN ... COMMIT / ROLLBACK block, so the durable state at every crash point is the state after some number
of complete files. -/
import Lemmas.TxAllAtomic
namespace Atlas.Tx

theorem modeFor_file (cfg : Cfg) (h : cfg.mode = .file) (f : TFile) (hd : f.directive = none) :
    modeFor cfg f = some .file := by
  unfold modeFor; simp [hd, h]

/-- a file's block in mode `file`: BEGIN, the file's operations, COMMIT - leaves a closed state. -/
theorem block_commit (d : Db) (fops : List Op) (hp : ∀ op ∈ fops, op.plain = true) :
    ∃ d', applyOps { dur := d, work := none } (Op.begin :: fops ++ [Op.commit]) = { dur := d', work := none } := by
  obtain ⟨w', hw⟩ := applyOps_plain_open fops d d hp
  refine ⟨w', ?_⟩
  have : Op.begin :: fops ++ [Op.commit] = [Op.begin] ++ fops ++ [Op.commit] := by simp
  rw [this, applyOps_append, applyOps_append]
  have hb : applyOps { dur := d, work := none } [Op.begin] = { dur := d, work := some d } := by
    simp [applyOps, applyOp]
  rw [hb, hw]
  simp [applyOps, applyOp]

theorem quiet_of_plain (l : List Op) (hp : ∀ op ∈ l, op.plain = true) : ∀ op ∈ l, op.quiet = true := by
  intro op hop
  have := hp op hop
  cases op <;> simp_all [Op.quiet, Op.plain]

/-- inside a block (before its last operation) nothing is durable yet. -/
theorem block_prefix_dur (d : Db) (fops : List Op) (last : Op) (hp : ∀ op ∈ fops, op.plain = true) (k : Nat)
    (hk : k ≤ fops.length + 1) :
    (applyOps { dur := d, work := none } ((Op.begin :: fops ++ [last]).take k)).dur = d := by
  have htake : (Op.begin :: fops ++ [last]).take k = (Op.begin :: fops).take k := by
    have : Op.begin :: fops ++ [last] = (Op.begin :: fops) ++ [last] := by simp
    rw [this, List.take_append_of_le_length (by simpa using hk)]
  rw [htake]
  apply applyOps_quiet_closed
  · intro op hop
    have := List.mem_of_mem_take hop
    rcases List.mem_cons.mp this with rfl | h1
    · rfl
    · exact quiet_of_plain fops hp op h1
  · cases k with
    | zero => left; simp
    | succ k => right; simp

/-- **crash in mode `file`** (files without directives, ANY content, repaired `mayCommit`): the durable state at
every crash point is the durable state after some number `t` of COMPLETE files of the run - no file is ever
half-applied, whatever fails where. -/
theorem planFiles_file_crash (cfg : Cfg) (h : cfg.mode = .file) (hfix : cfg.fixed = true) (db : Db)
    (files : List TFile) (hd : ∀ f ∈ files, f.directive = none) :
    ∀ (fi : Nat) (d : Db) (k : Nat), ∃ t, t ≤ files.length ∧
      (planFiles cfg db false fi (files.take t)).2 = true ∧
      (applyOps { dur := d, work := none } ((planFiles cfg db false fi files).1.take k)).dur =
        (applyOps { dur := d, work := none } (planFiles cfg db false fi (files.take t)).1).dur := by
  induction files with
  | nil => intro fi d k; exact ⟨0, by simp, by simp [planFiles], by simp [planFiles, applyOps]⟩
  | cons f rest ih =>
    intro fi d k
    have hm := modeFor_file cfg h f (hd f (by simp))
    have hp := fileOps_plain db fi f
    cases hok : (fileOps db fi f).2 with
    | false =>
      -- the failing file: BEGIN ... ROLLBACK, nothing durable at any point
      refine ⟨0, by simp, by simp [planFiles], ?_⟩
      have hops : (planFiles cfg db false fi (f :: rest)).1 = Op.begin :: (fileOps db fi f).1 ++ [Op.rollback] := by
        unfold planFiles; simp [hm, hok]
      rw [hops]
      simp only [List.take_zero, planFiles, Bool.false_eq_true, ↓reduceIte, applyOps, List.foldl_nil]
      by_cases hk : k ≤ (fileOps db fi f).1.length + 1
      · exact block_prefix_dur d _ Op.rollback hp k hk
      · have hfull : (Op.begin :: (fileOps db fi f).1 ++ [Op.rollback]).take k = Op.begin :: (fileOps db fi f).1 ++ [Op.rollback] :=
          List.take_of_length_le (by simp; omega)
        rw [hfull]
        obtain ⟨w', hw⟩ := applyOps_plain_open (fileOps db fi f).1 d d hp
        have : Op.begin :: (fileOps db fi f).1 ++ [Op.rollback] = [Op.begin] ++ (fileOps db fi f).1 ++ [Op.rollback] := by simp
        have hb : applyOps { dur := d, work := none } [Op.begin] = { dur := d, work := some d } := by
          simp [applyOps, applyOp]
        show (applyOps { dur := d, work := none } (Op.begin :: (fileOps db fi f).1 ++ [Op.rollback])).dur = d
        rw [this, applyOps_append, applyOps_append, hb, hw]
        simp [applyOps, applyOp]
    | true =>
      have hops : ∀ (l : List TFile), (planFiles cfg db false fi (f :: l)).1 =
          (Op.begin :: (fileOps db fi f).1 ++ [Op.commit]) ++ (planFiles cfg db false (fi + 1) l).1 ∧
          (planFiles cfg db false fi (f :: l)).2 = (planFiles cfg db false (fi + 1) l).2 := by
        intro l
        constructor <;> (conv => lhs; unfold planFiles) <;> simp [hm, hok, hfix]
      by_cases hk : k ≤ (fileOps db fi f).1.length + 1
      · -- inside the first block
        refine ⟨0, by simp, by simp [planFiles], ?_⟩
        rw [(hops rest).1]
        have hle : k ≤ (Op.begin :: (fileOps db fi f).1 ++ [Op.commit]).length := by simp; omega
        rw [List.take_append_of_le_length hle]
        simp only [List.take_zero, planFiles, Bool.false_eq_true, ↓reduceIte, applyOps, List.foldl_nil]
        exact block_prefix_dur d _ Op.commit hp k hk
      · -- the first block is complete: continue in the rest from the committed state
        obtain ⟨d', hd'⟩ := block_commit d (fileOps db fi f).1 hp
        obtain ⟨t, ht, hokt, heq⟩ := ih (fun g hg => hd g (by simp [hg])) (fi + 1) d'
          (k - (Op.begin :: (fileOps db fi f).1 ++ [Op.commit]).length)
        refine ⟨t + 1, by simp; omega, ?_, ?_⟩
        · rw [List.take_succ_cons, (hops (rest.take t)).2]; exact hokt
        · rw [(hops rest).1, List.take_succ_cons, (hops (rest.take t)).1]
          rw [List.take_append]
          have hfull : (Op.begin :: (fileOps db fi f).1 ++ [Op.commit]).take k = Op.begin :: (fileOps db fi f).1 ++ [Op.commit] :=
            List.take_of_length_le (by simp; omega)
          have eL := applyOps_append { dur := d, work := none } (Op.begin :: (fileOps db fi f).1 ++ [Op.commit])
            (List.take (k - (Op.begin :: (fileOps db fi f).1 ++ [Op.commit]).length) (planFiles cfg db false (fi + 1) rest).1)
          have eR := applyOps_append { dur := d, work := none } (Op.begin :: (fileOps db fi f).1 ++ [Op.commit])
            (planFiles cfg db false (fi + 1) (List.take t rest)).1
          rw [hfull, eL, eR, hd']
          exact heq

/-- the command: in mode `file` the state after a crash at ANY point is the state after a complete, successful
run over the first `t` pending files, for some `t`. -/
theorem plan_file_crash_any (cfg : Cfg) (h : cfg.mode = .file) (hfix : cfg.fixed = true) (hdr : cfg.dryRun = false)
    (dir : List TFile) (hd : ∀ f ∈ dir, f.directive = none) (db : Db) (k : Nat) :
    ∃ t, t ≤ (limit cfg.count (dir.drop (pendingStart db))).length ∧
      (planFiles cfg db false (pendingStart db) ((limit cfg.count (dir.drop (pendingStart db))).take t)).2 = true ∧
      crashAt db (plan cfg dir db).1 k =
        runAll db (planFiles cfg db false (pendingStart db) ((limit cfg.count (dir.drop (pendingStart db))).take t)).1 := by
  have hsub : ∀ f ∈ limit cfg.count (dir.drop (pendingStart db)), f.directive = none := by
    intro f hf
    apply hd
    unfold limit at hf
    cases hc : cfg.count with
    | none => simp [hc] at hf; exact List.mem_of_mem_drop hf
    | some n => simp [hc] at hf; exact List.mem_of_mem_drop (List.mem_of_mem_take hf)
  obtain ⟨t, ht, hok, heq⟩ := planFiles_file_crash cfg h hfix db _ hsub (pendingStart db) db k
  refine ⟨t, ht, hok, ?_⟩
  unfold plan crashAt runAll St.crash
  simp only [hdr, Bool.false_eq_true, ↓reduceIte]
  exact heq

end Atlas.Tx
