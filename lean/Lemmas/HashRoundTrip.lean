/-
`UnmarshalText ∘ MarshalText = id` for every list of well-formed entries (sql/migrate/dir.go:
HashFile.MarshalText / UnmarshalText): the text-level argument behind `Props.C06.RoundTrip`.

Well-formed: the name holds no line feed and survives `strings.TrimSpace` with the separating blank
appended (no leading / trailing Unicode white space, not empty); the hash text holds no line feed, no
carriage return and no colon (base64 of a SHA-256, as `NewHashFile` produces it, never does).
-/
import Lemmas.Hash

namespace Atlas.Hash
open Atlas Atlas.Bytes

/-- a hash text as `base64.StdEncoding` writes it: no LF, no CR, no ':'. -/
def GoodHash (h : Bytes) : Prop := ∀ b ∈ h, b ≠ 0x0a ∧ b ≠ 0x0d ∧ b ≠ 0x3a

/-- an entry that survives the text format. -/
def WFEntry (e : Entry) : Prop :=
  (∀ b ∈ e.1, b ≠ 0x0a) ∧ trimSpace (e.1 ++ [0x20]) = e.1 ∧ GoodHash e.2

/-! ### bufio.ScanLines -/

theorem splitLinesAux_line : ∀ (l rest cur : Bytes), (∀ b ∈ l, b ≠ 0x0a) →
    splitLinesAux (l ++ 0x0a :: rest) cur = (cur.reverse ++ l) :: splitLinesAux rest [] := by
  intro l
  induction l with
  | nil =>
    intro rest cur _
    simp [splitLinesAux]
  | cons b t ih =>
    intro rest cur h
    have hb : (b == 0x0a) = false := by simpa using h b (List.mem_cons_self ..)
    rw [List.cons_append]
    simp only [splitLinesAux, hb, Bool.false_eq_true, if_false]
    rw [ih rest (b :: cur) (fun x hx => h x (List.mem_cons_of_mem _ hx))]
    simp

theorem dropCR_id (l : Bytes) (h : l.getLast? ≠ some 0x0d) : dropCR l = l := by
  unfold dropCR
  split
  · rename_i r heq
    exfalso
    apply h
    have : l = (0x0d :: r).reverse := by rw [← heq, List.reverse_reverse]
    rw [this]
    simp
  · rfl

/-! ### strings.LastIndex(line, "h1:") -/

theorem splitLast_none_of_no_colon : ∀ (h : Bytes), (∀ b ∈ h, b ≠ 0x3a) → splitLast h1 h = none := by
  intro h
  induction h with
  | nil => intro _; simp [splitLast, h1]
  | cons b s ih =>
    intro hc
    unfold splitLast
    rw [ih (fun x hx => hc x (List.mem_cons_of_mem _ hx))]
    simp only
    have : h1.isPrefixOf (b :: s) = false := by
      cases hp : h1.isPrefixOf (b :: s) with
      | false => rfl
      | true =>
        exfalso
        rw [List.isPrefixOf_iff_prefix] at hp
        obtain ⟨t, ht⟩ := hp
        have : (0x3a : UInt8) ∈ b :: s := by rw [← ht]; simp [h1]
        exact (hc _ this) rfl
    rw [this]
    simp

theorem splitLast_h1 : ∀ (a h : Bytes), (∀ b ∈ h, b ≠ 0x3a) → splitLast h1 (a ++ h1 ++ h) = some (a, h) := by
  intro a
  induction a with
  | nil =>
    intro h hc
    have hn := splitLast_none_of_no_colon h hc
    simp only [List.nil_append, h1, List.cons_append]
    unfold splitLast
    have h3 : splitLast [0x68, 0x31, 0x3a] (0x3a :: h) = none := by
      unfold splitLast
      have : splitLast [0x68, 0x31, 0x3a] h = none := hn
      rw [this]
      simp [List.isPrefixOf]
    have h2 : splitLast [0x68, 0x31, 0x3a] (0x31 :: 0x3a :: h) = none := by
      unfold splitLast
      rw [h3]
      simp [List.isPrefixOf]
    rw [h2]
    simp [List.isPrefixOf]
  | cons b t ih =>
    intro h hc
    simp only [List.cons_append]
    unfold splitLast
    have := ih h hc
    simp only [List.append_assoc] at this ⊢
    rw [this]

/-! ### the entry lines -/

theorem entryLine_shape (e : Entry) : entryLine e = (e.1 ++ [0x20] ++ h1 ++ e.2) ++ 0x0a :: [] := by
  unfold entryLine; simp

theorem line_no_lf (e : Entry) (h : WFEntry e) : ∀ b ∈ e.1 ++ [0x20] ++ h1 ++ e.2, b ≠ 0x0a := by
  intro b hb
  simp only [List.mem_append, List.mem_singleton, h1, List.mem_cons, List.not_mem_nil, or_false] at hb
  rcases hb with ((hb | hb) | hb) | hb
  · exact h.1 b hb
  · subst hb; decide
  · rcases hb with hb | hb | hb <;> subst hb <;> decide
  · exact (h.2.2 b hb).1

theorem line_last (e : Entry) (h : WFEntry e) : (e.1 ++ [0x20] ++ h1 ++ e.2).getLast? ≠ some 0x0d := by
  intro hl
  rw [List.getLast?_append] at hl
  cases hh : e.2.getLast? with
  | some x =>
    rw [hh] at hl
    simp only [Option.some_or, Option.some.injEq] at hl
    subst hl
    exact (h.2.2 _ (List.mem_of_getLast? hh)).2.1 rfl
  | none =>
    rw [hh] at hl
    simp [h1] at hl

theorem splitLines_entries : ∀ (es : List Entry), (∀ e ∈ es, WFEntry e) →
    splitLinesAux (es.flatMap entryLine) [] = es.map (fun e => e.1 ++ [0x20] ++ h1 ++ e.2) := by
  intro es
  induction es with
  | nil => intro _; simp [splitLinesAux]
  | cons e t ih =>
    intro h
    rw [List.flatMap_cons, entryLine_shape, List.append_assoc, List.singleton_append]
    rw [splitLinesAux_line _ _ _ (line_no_lf e (h e (List.mem_cons_self ..)))]
    rw [ih (fun x hx => h x (List.mem_cons_of_mem _ hx))]
    simp

theorem parseLines_entries : ∀ (es : List Entry), (∀ e ∈ es, WFEntry e) →
    parseLines ((es.map (fun e => e.1 ++ [0x20] ++ h1 ++ e.2)).map dropCR) = .ok es := by
  intro es
  induction es with
  | nil => intro _; rfl
  | cons e t ih =>
    intro h
    have he := h e (List.mem_cons_self ..)
    simp only [List.map_cons]
    rw [dropCR_id _ (line_last e he)]
    unfold parseLines
    rw [splitLast_h1 (e.1 ++ [0x20]) e.2 (fun b hb => (he.2.2 b hb).2.2)]
    simp only
    rw [ih (fun x hx => h x (List.mem_cons_of_mem _ hx))]
    simp only
    rw [he.2.1]

/-- **unmarshal_marshal**: the sum file written for well-formed entries reads back as exactly these
entries, provided the header sum itself is a good hash text. -/
theorem unmarshal_marshal (H : Bytes → Bytes) (es : List Entry) (hsum : GoodHash (sumOf H es))
    (hwf : ∀ e ∈ es, WFEntry e) : unmarshal H (marshal H es) = .ok es := by
  unfold unmarshal marshal scanLines
  have hfirst : ∀ b ∈ h1 ++ sumOf H es, b ≠ 0x0a := by
    intro b hb
    rcases List.mem_append.mp hb with hb | hb
    · simp [h1] at hb; rcases hb with hb | hb | hb <;> subst hb <;> decide
    · exact (hsum b hb).1
  have hsplit : splitLinesAux (h1 ++ sumOf H es ++ [0x0a] ++ es.flatMap entryLine) [] =
      (h1 ++ sumOf H es) :: es.map (fun e => e.1 ++ [0x20] ++ h1 ++ e.2) := by
    rw [List.append_assoc (h1 ++ sumOf H es), List.singleton_append]
    rw [splitLinesAux_line _ _ _ hfirst, splitLines_entries es hwf]
    simp
  rw [hsplit]
  simp only [List.map_cons, List.headD_cons, List.tail_cons]
  have hlast : (h1 ++ sumOf H es).getLast? ≠ some 0x0d := by
    intro hl
    rw [List.getLast?_append] at hl
    cases hh : (sumOf H es).getLast? with
    | some x =>
      rw [hh] at hl
      simp only [Option.some_or, Option.some.injEq] at hl
      subst hl
      exact (hsum _ (List.mem_of_getLast? hh)).2.1 rfl
    | none => rw [hh] at hl; simp [h1] at hl
  rw [dropCR_id _ hlast, parseLines_entries es hwf]
  have hstrip : stripH1 (h1 ++ sumOf H es) = sumOf H es := by
    unfold stripH1
    have : h1.isPrefixOf (h1 ++ sumOf H es) = true := by
      rw [List.isPrefixOf_iff_prefix]; exact List.prefix_append _ _
    rw [this]
    simp [h1]
  simp only [hstrip, bne_self_eq_false, Bool.false_eq_true, if_false]

end Atlas.Hash
