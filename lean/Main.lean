/- `atlasmodel`: JSON-lines driver for the executable models. One request per line, one answer per
line. Imports only core Lean + the model (no Mathlib), so it links as a native executable. -/
import Driver.Exec
import Driver.Hash
import Driver.Lex
import Driver.Format
import Driver.Sort
import Driver.Exclude
import Driver.Qualify
import Driver.Tx
import Driver.Dev
import Driver.Lint
import Driver.Diff
import Driver.HclType
import Driver.Plan
import Driver.Copy
import Driver.Reverse
import Driver.Clean
import Driver.Tidb
open Lean

def dispatch (j : Json) : Json :=
  match Driver.str j "op" with
  | "pending" => Driver.handlePending j
  | "pending.to" => Driver.handlePendingTo j
  | "exec" => Driver.handleExec j
  | "set.run" => Driver.handleSetRun j
  | "hash.validate" => Driver.handleHashValidate j
  | "hash.sum" => Driver.handleHashSum j
  | "lex.scan" => Driver.handleLexScan j
  | "fmt" => Driver.handleFmt j
  | "sort.plan" => Driver.handleSortPlan j
  | "exclude" => Driver.handleExclude j
  | "glob" => Driver.handleGlob j
  | "qualify" => Driver.handleQualify j
  | "scope" => Driver.handleScope j
  | "tx.plan" => Driver.handleTxPlan j
  | "tx.schema" => Driver.handleTxSchema j
  | "dev.run" => Driver.handleDevRun j
  | "lint.analyze" => Driver.handleLintAnalyze j
  | "diff.schema" => Driver.handleDiffSchema j
  | "diff.objects" => Driver.handleDiffObjects j
  | "hcltype.convert" => Driver.handleHclTypeConvert j
  | "plan.shape" => Driver.handlePlanShape j
  | "copy.plan" => Driver.handleCopyPlan j
  | "rev.plan" => Driver.handleRevPlan j
  | "alter.flag" => Driver.handleAlterFlag j
  | "clean.check" => Driver.handleCleanCheck j
  | "tidb.order" => Driver.handleTidbOrder j
  | "h1" => Json.mkObj [("h", Atlas.Base.h1 (Driver.unhex (Driver.str j "hex")))]
  | op => Json.mkObj [("err", s!"unknown-op:{op}")]

partial def loop (hin hout : IO.FS.Stream) : IO Unit := do
  let line ← hin.getLine
  if line.isEmpty then return ()
  let t := line.trimAscii.toString
  if t.isEmpty then
    loop hin hout
  else
    let ans := match Json.parse t with
      | .ok j =>
        let a := dispatch j
        match j.getObjVal? "id" with
        | .ok i => a.setObjVal! "id" i
        | _ => a
      | .error e => Json.mkObj [("err", s!"bad-json:{e}")]
    hout.putStrLn ans.compress
    hout.flush
    loop hin hout

def main : IO Unit := do
  loop (← IO.getStdin) (← IO.getStdout)
