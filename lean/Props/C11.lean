/-
C11 — Pending-file computation follows the documented semantics for every history.

Model: `Atlas.Pending.pending` (sql/migrate/migrate.go `(*Executor).Pending`, with the Go binary
search, FilesLastIndex, SkipCheckpointFiles, FilesFromLastCheckpoint). Theorems are for directories
and revision tables of any length.
-/
import Lemmas.Pending
import Lemmas.ExecRevs
import Atlas.SetVersion
import Lemmas.Clean
import Props.C09

namespace Props.C11
open Atlas Atlas.Pending

/-- versions strictly increasing (what `Dir.Files()` gives when name order = version order). -/
def SortedV (fs : List MFile) : Prop := (fs.map (·.version)).Pairwise (· < ·)

/-! ### first run -/

/-- **dirty_requires_flag**: on a first run against a database that is not clean, without
`allow-dirty` and without a baseline, nothing is pending: the run is refused. -/
theorem dirty_requires_flag (cfg : Cfg) (all : List MFile) (hc : cfg.clean = false)
    (hd : cfg.allowDirty = false) (hb : cfg.baseline = "") :
    (pending cfg all []).out = .error .notClean ∧ (pending cfg all []).baselineWrite = none := by
  simp [pending, firstRun, hc, hd, hb]

/-- **pending_files_of_directory**: whatever the revision table, the options and the execution order are, every
file `Pending` returns is a file of the directory - nothing is ever run that the (validated) directory does not
hold. -/
theorem pending_files_of_directory (cfg : Cfg) (all : List MFile) (revs : List Revision) (l : List MFile)
    (h : (pending cfg all revs).out = .ok l) : ∀ f ∈ l, f ∈ all :=
  pending_sub cfg all revs l h

/-- **pending_is_subsequence**: the files `Pending` returns are a sub-sequence of the directory - in directory
order, each file at most once - for every revision table, option set and execution order (also `non-linear`,
where the out-of-order files come first: they all stand in front of the first pending file). -/
theorem pending_is_subsequence (cfg : Cfg) (all : List MFile) (revs : List Revision) (l : List MFile)
    (h : (pending cfg all revs).out = .ok l) : l.Sublist all :=
  pending_sublist cfg all revs l h

/-- **pending_versions_distinct**: no version is returned twice (directories have distinct versions). -/
theorem pending_versions_distinct (cfg : Cfg) (all : List MFile) (revs : List Revision) (l : List MFile)
    (hn : (all.map (·.version)).Nodup) (h : (pending cfg all revs).out = .ok l) : (l.map (·.version)).Nodup :=
  ((pending_sublist cfg all revs l h).map _).nodup hn

/-- **execute_to_is_subsequence / execute_to_stops_at_target**: `ExecuteTo(v)` (model `executeTo`) executes a
sub-sequence of the directory; when a checkpoint file stands behind the target nothing behind the target is
executed; otherwise it executes the prefix of `Pending`'s answer that ends with the target. -/
theorem execute_to_is_subsequence (cfg : Cfg) (all : List MFile) (revs : List Revision) (v : String) (l : List MFile)
    (h : executeTo cfg all revs v = some (.ok l)) : l.Sublist all :=
  executeTo_sublist cfg all revs v l h

theorem execute_to_stops_at_target (cfg : Cfg) (all : List MFile) (revs : List Revision) (v : String) (idx : Nat)
    (l : List MFile) (hi : lastIndex (fun f => f.version == v) all = some idx)
    (h : executeTo cfg all revs v = some (.ok l)) :
    ((all.drop (idx + 1)).any (fun f => f.checkpoint) = true → l.Sublist (all.take (idx + 1))) ∧
    ((all.drop (idx + 1)).any (fun f => f.checkpoint) = false →
      ∃ p i, (pending cfg all revs).out = .ok p ∧ lastIndex (fun f => f.version == v) p = some i ∧ l = p.take (i + 1)) :=
  ⟨fun hck => executeTo_before_checkpoint cfg all revs v idx l hi hck h,
   fun hck => executeTo_prefix cfg all revs v idx l hi hck h⟩

/-! ### what "not clean" is: the drivers' `CheckClean` (model `Atlas.Clean`) -/

section Gate
open Atlas.Clean

/-- **gate_mysql / gate_postgres / gate_sqlite / gate_bound**: the first-run gate of each driver accepts a
database exactly when it holds nothing but - possibly - the revision table in its own place (PostgreSQL: and
the empty default schema `public`): every other schema, ALSO AN EMPTY ONE, and every other table makes the
database "not clean". -/
theorem gate_mysql (r : List Sch) (revS revT : String) (hn : (r.map (·.name)).Nodup) :
    mysqlRealmClean r revS revT = true ↔ ∀ s ∈ r, s.name = revS ∧ OnlyRev s.tables revT :=
  mysqlRealmClean_iff r revS revT hn

theorem gate_postgres (r : List Sch) (revS revT : String) :
    pgRealmClean r revS revT = true ↔
      ∀ s ∈ r, (s.tables = [] ∧ s.name = "public") ∨ (s.name = revS ∧ s.tables = [revT]) :=
  pgRealmClean_iff r revS revT

theorem gate_sqlite (r : List Sch) (revT : String) (hn : (r.map (·.name)).Nodup) :
    sqliteClean r revT = true ↔ ∀ s ∈ r, s.name = "main" ∧ OnlyRev s.tables revT :=
  sqliteClean_iff r revT hn

theorem gate_bound (s : Sch) (revS revT : String) :
    boundClean s revS revT = true ↔ s.tables = [] ∨ ((revS = "" ∨ s.name = revS) ∧ s.tables = [revT]) :=
  boundClean_iff s revS revT

/-- **first_run_refuses_user_table**: a database holding any table that is not the revision table - or, for
a connection that manages the whole server, any schema that is not the revision schema (PostgreSQL: nor the
empty `public`) - is refused on the first run unless `--allow-dirty` or `--baseline` is given: whatever the
directory holds, nothing is pending and nothing is written. -/
theorem first_run_refuses_user_table (cfg : Cfg) (all : List MFile) (r : List Sch) (revS revT : String)
    (hn : (r.map (·.name)).Nodup) (hd : cfg.allowDirty = false) (hb : cfg.baseline = "")
    (hgate : cfg.clean = mysqlRealmClean r revS revT ∨ cfg.clean = pgRealmClean r revS revT)
    (s : Sch) (hs : s ∈ r) (t : String) (ht : t ∈ s.tables) (huser : t ≠ revT ∨ s.name ≠ revS) :
    (pending cfg all []).out = .error .notClean ∧ (pending cfg all []).baselineWrite = none := by
  apply dirty_requires_flag cfg all _ hd hb
  rcases hgate with hg | hg
  · rw [hg]
    cases hc : mysqlRealmClean r revS revT with
    | false => rfl
    | true =>
      exfalso
      have := (gate_mysql r revS revT hn).mp hc s hs
      rcases this with ⟨hname, hrev | hrev⟩
      · rw [hrev] at ht; simp at ht
      · rw [hrev] at ht; simp at ht
        rcases huser with h | h
        · exact h ht
        · exact h hname
  · rw [hg]
    cases hc : pgRealmClean r revS revT with
    | false => rfl
    | true =>
      exfalso
      have := (gate_postgres r revS revT).mp hc s hs
      rcases this with ⟨hemp, _⟩ | ⟨hname, hrev⟩
      · rw [hemp] at ht; simp at ht
      · rw [hrev] at ht; simp at ht
        rcases huser with h | h
        · exact h ht
        · exact h hname

/-- **first_run_refuses_extra_schema_mysql**: MySQL, whole-server connection: a second database - also one
without a single table - is something the directory did not create: refused. -/
theorem first_run_refuses_extra_schema_mysql (cfg : Cfg) (all : List MFile) (r : List Sch) (revS revT : String)
    (hn : (r.map (·.name)).Nodup) (hd : cfg.allowDirty = false) (hb : cfg.baseline = "")
    (hgate : cfg.clean = mysqlRealmClean r revS revT) (s : Sch) (hs : s ∈ r) (hname : s.name ≠ revS) :
    (pending cfg all []).out = .error .notClean := by
  apply (dirty_requires_flag cfg all _ hd hb).1
  rw [hgate]
  cases hc : mysqlRealmClean r revS revT with
  | false => rfl
  | true => exact absurd ((gate_mysql r revS revT hn).mp hc s hs).1 hname

/-- premises met, and the decisions on small servers (the cases of the correspondence grid). -/
example : mysqlRealmClean [⟨"app", []⟩] "atlas_schema_revisions" "atlas_schema_revisions" = false ∧
    mysqlRealmClean [⟨"atlas_schema_revisions", ["atlas_schema_revisions"]⟩] "atlas_schema_revisions" "atlas_schema_revisions" = true ∧
    mysqlRealmClean [⟨"app", []⟩, ⟨"atlas_schema_revisions", []⟩] "atlas_schema_revisions" "atlas_schema_revisions" = false ∧
    pgRealmClean [⟨"public", []⟩, ⟨"app", []⟩] "atlas_schema_revisions" "atlas_schema_revisions" = false ∧
    pgRealmClean [⟨"public", []⟩, ⟨"atlas_schema_revisions", ["atlas_schema_revisions"]⟩] "atlas_schema_revisions" "atlas_schema_revisions" = true ∧
    pgRealmClean [⟨"public", ["users"]⟩] "atlas_schema_revisions" "atlas_schema_revisions" = false ∧
    boundClean ⟨"app", ["atlas_schema_revisions"]⟩ "" "atlas_schema_revisions" = true ∧
    boundClean ⟨"app", ["users"]⟩ "" "atlas_schema_revisions" = false := by decide

end Gate

/-- **first_run_from_last_checkpoint_only**: a first run (clean database or allow-dirty, no baseline)
starts at the latest checkpoint, and only it: the result is the directory from the last checkpoint
file on, that file is a checkpoint and no later file is; without any checkpoint it is the whole
directory. Nothing is written. -/
theorem first_run_from_last_checkpoint_only (cfg : Cfg) (all : List MFile)
    (hc : cfg.clean = true ∨ cfg.allowDirty = true) (hb : cfg.baseline = "") (hne : all ≠ []) :
    (pending cfg all []).baselineWrite = none ∧
    ((∀ f ∈ all, f.checkpoint = false) ∧ (pending cfg all []).out = .ok all ∨
     ∃ pre ck post, all = pre ++ ck :: post ∧ ck.checkpoint = true ∧ (∀ f ∈ post, f.checkpoint = false) ∧
       (pending cfg all []).out = .ok (ck :: post)) := by
  have hnc : (!cfg.clean && !cfg.allowDirty && cfg.baseline == "") = false := by
    rcases hc with h | h <;> simp [h]
  have hb' : (cfg.baseline != "") = false := by simp [hb]
  -- a decomposition at the last checkpoint
  have key : ∀ l : List MFile, (lastIndex (fun f => f.checkpoint) l = none ∧ ∀ f ∈ l, f.checkpoint = false) ∨
      ∃ pre ck post, l = pre ++ ck :: post ∧ ck.checkpoint = true ∧ (∀ f ∈ post, f.checkpoint = false) ∧
        lastIndex (fun f => f.checkpoint) l = some pre.length := by
    intro l
    induction l with
    | nil => left; simp [lastIndex]
    | cons a l ih =>
      rcases ih with ⟨hn, hall⟩ | ⟨pre, ck, post, h1, h2, h3, h4⟩
      · by_cases ha : a.checkpoint = true
        · right
          exact ⟨[], a, l, rfl, ha, hall, by simp [lastIndex, hn, ha]⟩
        · left
          refine ⟨by simp [lastIndex, hn, ha], ?_⟩
          intro f hf
          rcases List.mem_cons.mp hf with rfl | hf
          · simpa using ha
          · exact hall f hf
      · right
        exact ⟨a :: pre, ck, post, by rw [h1]; rfl, h2, h3, by simp [lastIndex, h4]⟩
  refine ⟨by simp [pending, firstRun, hnc, hb'], ?_⟩
  rcases key all with ⟨hn, hall⟩ | ⟨pre, ck, post, h1, h2, h3, h4⟩
  · left
    refine ⟨hall, ?_⟩
    have : all.isEmpty = false := by cases all <;> simp at hne ⊢
    simp [pending, firstRun, hnc, hb', filesFromLastCheckpoint, hn, this]
  · right
    refine ⟨pre, ck, post, h1, h2, h3, ?_⟩
    have hd : all.drop pre.length = ck :: post := by rw [h1]; simp
    simp [pending, firstRun, hnc, hb', filesFromLastCheckpoint, h4, hd]

/-! ### the linear, checkpoint-free case (what C09 relies on) -/

theorem skip_nock {l : List MFile} (h : ∀ f ∈ l, f.checkpoint = false) : skipCheckpoints l = l := by
  unfold skipCheckpoints
  rw [List.filter_eq_self]
  intro a ha; simp [h a ha]

theorem mono_lt_version {α : Type} (key : α → String) (l : List α) (hs : (l.map key).Pairwise (· < ·))
    (t : String) : Mono (fun x => decide (key x < t)) l := by
  intro i j hi hj hij h
  rcases Nat.lt_or_eq_of_le hij with hlt | heq
  · rw [List.pairwise_map, List.pairwise_iff_getElem] at hs
    have := hs i j hi hj hlt
    simp only [decide_eq_true_eq] at h ⊢
    exact String.lt_trans this h
  · subst heq; exact h

/-- in a list sorted by key the binary search finds every key that is present. -/
theorem bsearch_found {α : Type} [Inhabited α] (key : α → String) (l : List α)
    (hs : (l.map key).Pairwise (· < ·)) (t : String) (i : Nat) (hi : i < l.length) (hk : key l[i] = t) :
    bsearch (fun x => decide (key x < t)) (fun x => key x == t) l = (i, true) := by
  apply bsearch_at _ _ l (mono_lt_version key l hs t) i hi
  · intro k hk' hki
    rw [List.pairwise_map, List.pairwise_iff_getElem] at hs
    have := hs k i hk' hi hki
    rw [hk] at this
    simpa using this
  · rw [hk]; simp
  · simp [hk]

/-- a linear history: the files of `pre` are recorded (one revision each, in directory order; only the
LAST revision matters to `Pending`: it must not be partially applied – completely applied or marked
resolved), or the first file of `rest` carries a partial revision after them. The inner revisions may
be anything (e.g. a failed file that `migrate set` stepped over). -/
structure LinearState (pre rest : List MFile) (revs : List Revision) : Prop where
  nock : ∀ f ∈ pre ++ rest, f.checkpoint = false
  sorted : SortedV (pre ++ rest)
  shape :
    (revs.map (·.version) = pre.map (·.version) ∧
      ∀ last, revs.getLast? = some last → last.partially = false) ∨
    (∃ m post rs rp, rest = m :: post ∧ revs = rs ++ [rp] ∧ rs.map (·.version) = pre.map (·.version) ∧
      rp.version = m.version ∧ rp.partially = true)

theorem sorted_lt_of_append {pre rest : List MFile} (hs : SortedV (pre ++ rest)) :
    ∀ a ∈ pre, ∀ b ∈ rest, a.version < b.version := by
  intro a ha b hb
  unfold SortedV at hs
  rw [List.map_append, List.pairwise_append] at hs
  exact hs.2.2 _ (List.mem_map_of_mem ha) _ (List.mem_map_of_mem hb)

theorem window_empty (cfg : Cfg) (pre rest : List MFile) (revs : List Revision) (r0 : Revision)
    (hsr : (revs.map (·.version)).Pairwise (· < ·))
    (hall : ∀ f ∈ pre, ∃ i, ∃ (hi : i < revs.length), revs[i].version = f.version) :
    outOfOrder cfg (pre ++ rest) revs r0 pre.length = none ∨
    outOfOrder cfg (pre ++ rest) revs r0 pre.length = some [] := by
  unfold outOfOrder
  have htake : (pre ++ rest).take pre.length = pre := by simp
  rw [htake]
  cases hidx : indexFunc (fun f => decide (f.version ≥ r0.version)) pre with
  | none => left; rfl
  | some first =>
    simp only
    split
    · right
      congr 1
      rw [List.filter_eq_nil_iff]
      intro f hf
      obtain ⟨i, hi, hv⟩ := hall f (List.mem_of_mem_drop hf)
      have := bsearch_found (fun (r : Revision) => r.version) revs hsr f.version i hi hv
      simp [this]
    · left; rfl

/-- **pending_linear** (never a fully applied version again; always every newer version; the
partially applied file first): in a checkpoint-free directory sorted by version whose history is
"a prefix completely applied, the next file possibly partially applied", `Pending` returns exactly
the files from the first not completely applied one on, in directory order – for every execution
order – and reports "no pending files" when there is none. It writes nothing. -/
theorem pending_linear (cfg : Cfg) (pre rest : List MFile) (revs : List Revision)
    (hb : cfg.baseline = "") (hc : cfg.clean = true) (st : LinearState pre rest revs) :
    (pending cfg (pre ++ rest) revs).baselineWrite = none ∧
    (pending cfg (pre ++ rest) revs).out = (if rest = [] then .error .noPending else .ok rest) := by
  have hskip : skipCheckpoints (pre ++ rest) = pre ++ rest := skip_nock st.nock
  have hlt := sorted_lt_of_append st.sorted
  rcases st.shape with ⟨hv, hcomp⟩ | ⟨m, post, rs, rp, hrest, hrevs, hv, hrpv, hrpa⟩
  · -- every revision complete
    cases hrl : revs.getLast? with
    | none =>
      -- no revision at all: first run
      have hre : revs = [] := by simpa using hrl
      subst hre
      have hpre : pre = [] := by simpa using hv.symm
      subst hpre
      have hnc : (!cfg.clean && !cfg.allowDirty && cfg.baseline == "") = false := by simp [hc]
      have hb' : (cfg.baseline != "") = false := by simp [hb]
      have hnone : lastIndex (fun f => f.checkpoint) rest = none :=
        lastIndex_all_false _ (by simpa using st.nock)
      simp only [List.nil_append]
      cases rest with
      | nil => simp [pending, firstRun, hnc, hb', filesFromLastCheckpoint, lastIndex]
      | cons a l => simp [pending, firstRun, hnc, hb', filesFromLastCheckpoint, hnone]
    | some last =>
      obtain ⟨r0, hr0⟩ : ∃ r0, revs.head? = some r0 := by
        cases revs with
        | nil => simp at hrl
        | cons a l => exact ⟨a, rfl⟩
      have hla : last.partially = false := hcomp last hrl
      -- pre = pre' ++ [ml], ml.version = last.version
      have hpne : pre ≠ [] := by
        intro h; subst h
        have : revs = [] := by simpa using hv
        rw [this] at hrl; simp at hrl
      obtain ⟨pre', ml, hpre⟩ : ∃ pre' ml, pre = pre' ++ [ml] :=
        ⟨pre.dropLast, pre.getLast hpne, (List.dropLast_concat_getLast hpne).symm⟩
      have hmlv : ml.version = last.version := by
        have h1 : (revs.map (·.version)).getLast? = some last.version := by
          rw [List.getLast?_map, hrl]; rfl
        rw [hv, hpre] at h1
        simpa using h1
      have hne : (pre ++ rest).isEmpty = false := by
        cases pre with
        | nil => exact absurd rfl hpne
        | cons a l => rfl
      have hidx : lastIndex (fun f => decide (f.version ≤ last.version)) (pre ++ rest) = some pre'.length := by
        rw [hpre, List.append_assoc]
        apply lastIndex_split pre' ml rest
        · simp [hmlv]
        · intro x hx
          have := hlt ml (by rw [hpre]; simp) x hx
          rw [hmlv] at this
          simpa using this
      have hdrop' : (pre ++ rest).drop pre.length = rest := by simp
      have hsr : (revs.map (·.version)).Pairwise (· < ·) := by
        rw [hv]
        have := st.sorted
        unfold SortedV at this
        rw [List.map_append, List.pairwise_append] at this
        exact this.1
      have hall : ∀ f ∈ pre, ∃ i, ∃ (hi : i < revs.length), revs[i].version = f.version := by
        intro f hf
        obtain ⟨i, hi, hfi⟩ := List.getElem_of_mem hf
        have hlen : revs.length = pre.length := by
          have := congrArg List.length hv; simpa using this
        refine ⟨i, by omega, ?_⟩
        have := congrArg (fun l => l[i]?) hv
        simp only [List.getElem?_map] at this
        rw [List.getElem?_eq_getElem (by omega), List.getElem?_eq_getElem hi] at this
        simp only [Option.map_some, Option.some.injEq] at this
        rw [this, hfi]
      have hwin := window_empty cfg pre rest revs r0 hsr hall
      have hplen : pre.length = pre'.length + 1 := by rw [hpre]; simp
      have hnorm : normal cfg (pre ++ rest) revs r0 last = finish rest := by
        unfold normal
        simp only [hla, Bool.false_eq_true, if_false, hidx]
        rw [← hplen, hdrop']
        rcases hwin with hw | hw <;> rw [hw]
      refine ⟨?_, ?_⟩
      · simp [pending, hrl, hr0, hla, hskip, hne]
      · simp only [pending, hrl, hr0, hskip, hne, hla, Bool.false_and,
          Bool.false_eq_true, if_false, Bool.not_false, if_true, hnorm, finish]
        cases rest <;> simp
  · -- the first file of `rest` is partially applied
    subst hrest
    have hrl : revs.getLast? = some rp := by rw [hrevs]; simp
    obtain ⟨r0, hr0⟩ : ∃ r0, revs.head? = some r0 := by
      rw [hrevs]; cases rs <;> simp
    have hne : (pre ++ m :: post).isEmpty = false := by cases pre <;> rfl
    have hsall := st.sorted
    have hbs : bsearch (fun (f : MFile) => decide (f.version < rp.version))
        (fun (f : MFile) => f.version == rp.version) (pre ++ m :: post) = (pre.length, true) := by
      apply bsearch_found (fun (f : MFile) => f.version) (pre ++ m :: post) hsall rp.version pre.length
        (by simp)
      simp [hrpv]
    have hmck : ((pre ++ m :: post)[pre.length]!).checkpoint = false := by
      rw [getElem!_pos _ _ (by simp)]
      simp only [List.getElem_append_right (Nat.le_refl _), Nat.sub_self, List.getElem_cons_zero]
      exact st.nock m (by simp)
    have hidx : lastIndex (fun f => decide (f.version = rp.version)) (pre ++ m :: post) = some pre.length := by
      apply lastIndex_split pre m post
      · simp [hrpv]
      · intro x hx
        have h1 : m.version < x.version := by
          have := st.sorted
          unfold SortedV at this
          rw [List.map_append, List.pairwise_append] at this
          have h2 := this.2.1
          rw [List.map_cons, List.pairwise_cons] at h2
          exact h2.1 _ (List.mem_map_of_mem hx)
        rw [hrpv]
        simp only [decide_eq_false_iff_not]
        intro h; rw [h] at h1; exact String.lt_irrefl _ h1
    have hdrop : (pre ++ m :: post).drop pre.length = m :: post := by simp
    have hsr : (revs.map (·.version)).Pairwise (· < ·) := by
      rw [hrevs, List.map_append, hv]
      have := st.sorted
      unfold SortedV at this
      rw [List.map_append, List.pairwise_append] at this
      rw [List.pairwise_append]
      refine ⟨this.1, by simp, ?_⟩
      intro a ha b hb
      simp only [List.map_cons, List.map_nil, List.mem_singleton] at hb
      subst hb
      rw [hrpv]
      exact this.2.2 a ha _ (by simp)
    have hall : ∀ f ∈ pre, ∃ i, ∃ (hi : i < revs.length), revs[i].version = f.version := by
      intro f hf
      obtain ⟨i, hi, hfi⟩ := List.getElem_of_mem hf
      have hlen : rs.length = pre.length := by
        have := congrArg List.length hv; simpa using this
      refine ⟨i, by rw [hrevs]; simp; omega, ?_⟩
      have := congrArg (fun l => l[i]?) hv
      simp only [List.getElem?_map] at this
      rw [List.getElem?_eq_getElem (by omega), List.getElem?_eq_getElem hi] at this
      simp only [Option.map_some, Option.some.injEq] at this
      have hget : revs[i]'(by rw [hrevs]; simp; omega) = rs[i]'(by omega) := by
        simp only [hrevs]; rw [List.getElem_append_left]
      rw [hget, this, hfi]
    have hwin := window_empty cfg pre (m :: post) revs r0 hsr hall
    have hnorm : normal cfg (pre ++ m :: post) revs r0 rp = finish (m :: post) := by
      unfold normal
      have hpa : rp.partially = true := hrpa
      have hfn : (fun (f : MFile) => f.version == rp.version) = (fun f => decide (f.version = rp.version)) := by
        funext f; rfl
      simp only [hpa, if_true, hfn, hidx, hdrop]
      rcases hwin with hw | hw <;> rw [hw]
    have hpa : rp.partially = true := hrpa
    have hm : m.checkpoint = false := st.nock m (by simp)
    refine ⟨?_, ?_⟩
    · simp [pending, hrl, hr0, hpa, hskip, hne, hbs, hm]
    · simp [pending, hrl, hr0, hskip, hne, hpa, hbs, hm, hnorm, finish]



/-! ### a partially applied checkpoint -/

/-- **partial_checkpoint_resumes**: the last revision is partially applied (and not resolved) and its
file is a checkpoint of the (version-sorted) directory: `Pending` returns that checkpoint file first
and then every later file that is not a checkpoint – for every execution order, whatever other
revisions exist; nothing is written. -/
theorem partial_checkpoint_resumes (cfg : Cfg) (pre post : List MFile) (ck : MFile)
    (revs : List Revision) (last : Revision)
    (hs : SortedV (pre ++ ck :: post)) (hck : ck.checkpoint = true)
    (hlast : revs.getLast? = some last) (hp : last.partially = true) (hv : last.version = ck.version) :
    pending cfg (pre ++ ck :: post) revs = ⟨none, .ok (ck :: skipCheckpoints post)⟩ := by
  obtain ⟨r0, hr0⟩ : ∃ r0, revs.head? = some r0 := by
    cases revs with
    | nil => simp at hlast
    | cons a l => exact ⟨a, rfl⟩
  have hne : (pre ++ ck :: post).isEmpty = false := by cases pre <;> rfl
  have hbs : bsearch (fun (f : MFile) => decide (f.version < last.version))
      (fun (f : MFile) => f.version == last.version) (pre ++ ck :: post) = (pre.length, true) := by
    apply bsearch_found (fun (f : MFile) => f.version) (pre ++ ck :: post) hs last.version pre.length (by simp)
    simp [hv]
  have hget : (pre ++ ck :: post)[pre.length]! = ck := by simp
  have hdrop : (pre ++ ck :: post).drop pre.length = ck :: post := by simp
  have hskip : skipCheckpoints (ck :: post) = skipCheckpoints post := by
    unfold skipCheckpoints; simp [hck]
  simp only [pending, hlast, hr0, hp, hne, Bool.not_false, Bool.and_true, if_true, hbs, hget, hck,
    hdrop, hskip]

/-- non-vacuity: checkpoint `2` partially applied, an older file and a later checkpoint around it. -/
example :
    (match (pending {} [⟨"1_a.sql", "1", "a", [], false, ""⟩, ⟨"2_c.sql", "2", "c", [], true, ""⟩,
        ⟨"3_b.sql", "3", "b", [], false, ""⟩, ⟨"4_c.sql", "4", "c", [], true, ""⟩, ⟨"5_b.sql", "5", "b", [], false, ""⟩]
      [{ version := "2", applied := 1, total := 3 }]).out with
     | .ok l => l.map (·.version) | .error _ => []) = ["2", "3", "5"] := by decide

/-! ### `migrate set`: a resolved revision counts as applied -/

theorem complete_not_partially (r : Revision) (h : r.applied = r.total) : r.partially = false := by
  simp [Revision.partially, h]

theorem resolved_not_partially (r : Revision) (h : r.resolved = true) : r.partially = false := by
  simp [Revision.partially, h]

/-- **set_agrees**: after `atlas migrate set v` on a linear directory – every file up to `v` has a
revision that is completely applied *or* marked resolved (what `migrateSetRun` writes for a partially
applied / failed `v`: `Execute|Resolved`, and `Resolved` for files it records itself) – `Pending`
returns exactly the files after `v`: the version `set` reports as current is not run or resumed again. -/
theorem set_agrees (cfg : Cfg) (pre rest : List MFile) (revs : List Revision)
    (hb : cfg.baseline = "") (hc : cfg.clean = true)
    (nock : ∀ f ∈ pre ++ rest, f.checkpoint = false) (sorted : SortedV (pre ++ rest))
    (hv : revs.map (·.version) = pre.map (·.version))
    (hdone : ∀ r ∈ revs, r.applied = r.total ∨ r.resolved = true) :
    (pending cfg (pre ++ rest) revs).out = (if rest = [] then .error .noPending else .ok rest) :=
  (pending_linear cfg pre rest revs hb hc
    ⟨nock, sorted, .inl ⟨hv, fun r hr => (hdone r (List.mem_of_getLast? hr)).elim (complete_not_partially r) (resolved_not_partially r)⟩⟩).2

/-- non-vacuity: version 1 failed after one of two statements and was then `set`; version 2 is what runs. -/
example :
    (match (pending {} [⟨"1_a.sql", "1", "a", [], false, ""⟩, ⟨"2_b.sql", "2", "b", [], false, ""⟩]
      [{ version := "1", typ := 6, applied := 1, total := 2 }]).out with
     | .ok l => l.map (·.version) | .error _ => []) = ["2"] := by decide

/-! ### the out-of-order window, the execution-order clauses, the baseline -/

/-- in a revision table sorted by version, the binary search of `outOfOrder` says "has a revision"
exactly for the versions that are in the table. -/
theorem has_revision_iff (revs : List Revision) (hs : (revs.map (·.version)).Pairwise (· < ·)) (v : String) :
    (bsearch (fun (r : Revision) => decide (r.version < v)) (fun (r : Revision) => r.version == v) revs).2 = true ↔
      v ∈ revs.map (·.version) := by
  constructor
  · intro h
    by_cases hm : v ∈ revs.map (·.version)
    · exact hm
    · have := bsearch_not_found (fun (r : Revision) => decide (r.version < v)) (fun (r : Revision) => r.version == v) revs
        (by intro x hx; simp; intro he; exact hm (List.mem_map.mpr ⟨x, hx, he⟩))
      rw [this] at h; cases h
  · intro hm
    obtain ⟨r, hr, hv⟩ := List.mem_map.mp hm
    obtain ⟨i, hi, hri⟩ := List.getElem_of_mem hr
    have := bsearch_found (fun (r : Revision) => r.version) revs hs v i hi (by rw [hri]; exact hv)
    rw [this]

/-- **out_of_order_exact**: when the window is examined, the skipped files are exactly the files of
the window `[first, idx)` that have no revision, in directory order. -/
theorem out_of_order_exact (cfg : Cfg) (migrations : List MFile) (revs : List Revision) (r0 : Revision) (idx first : Nat)
    (hs : (revs.map (·.version)).Pairwise (· < ·))
    (hf : indexFunc (fun f => decide (f.version ≥ r0.version)) (migrations.take idx) = some first)
    (hlt : first < idx) (ho : cfg.order ≠ .linearSkip) :
    outOfOrder cfg migrations revs r0 idx =
      some (((migrations.take idx).drop first).filter (fun f => decide (f.version ∉ revs.map (·.version)))) := by
  unfold outOfOrder
  rw [hf]
  have hcond : (decide (first < idx) && cfg.order != Order.linearSkip) = true := by
    simp [hlt, ho]
  simp only [hcond, if_true]
  congr 1
  apply List.filter_congr
  intro f _
  have := has_revision_iff revs hs f.version
  by_cases hm : f.version ∈ revs.map (·.version)
  · rw [this.mpr hm]; simp [hm]
  · have hb : (bsearch (fun (r : Revision) => decide (r.version < f.version)) (fun (r : Revision) => r.version == f.version) revs).2 = false := by
      cases hb' : (bsearch (fun (r : Revision) => decide (r.version < f.version)) (fun (r : Revision) => r.version == f.version) revs).2 with
      | false => rfl
      | true => exact absurd (this.mp hb') hm
    rw [hb]; simp [hm]

/-- **order_clauses**: what `Pending` does with a non-empty set of skipped (out-of-order) files:
`linear` rejects, `linear-skip` ignores them, `non-linear` runs them first. -/
theorem order_clauses (cfg : Cfg) (migrations : List MFile) (revs : List Revision) (r0 last : Revision)
    (idx0 : Nat) (s : MFile) (ss : List MFile)
    (hcomplete : last.partially = false)
    (hidx : lastIndex (fun f => decide (f.version ≤ last.version)) migrations = some idx0)
    (hskip : outOfOrder cfg migrations revs r0 (idx0 + 1) = some (s :: ss)) :
    normal cfg migrations revs r0 last =
      match cfg.order with
      | .nonLinear => finish ((s :: ss) ++ migrations.drop (idx0 + 1))
      | .linear => .error (.nonLinear (s :: ss) (migrations.drop (idx0 + 1)))
      | .linearSkip => finish (migrations.drop (idx0 + 1)) := by
  unfold normal
  simp only [hcomplete, Bool.false_eq_true, if_false, hidx, hskip]
  cases cfg.order <;> rfl

/-- **baseline_skips_le**: a first run with `--baseline v` writes the baseline revision for `v` and
returns exactly the files after `v` (none of `v` or before). -/
theorem baseline_skips_le (cfg : Cfg) (all pre post : List MFile) (b : MFile)
    (hsplit : skipCheckpoints all = pre ++ b :: post) (hb : cfg.baseline = b.version) (hne : b.version ≠ "")
    (hpost : ∀ f ∈ post, f.version ≠ b.version) :
    pending cfg all [] =
      ⟨some { version := b.version, desc := b.desc, typ := 1 },
       if post = [] then .error .noPending else .ok post⟩ := by
  have h1 : (!cfg.clean && !cfg.allowDirty && cfg.baseline == "") = false := by
    simp [hb, hne]
  have h2 : (cfg.baseline != "") = true := by simp [hb, hne]
  have hli : lastIndex (fun f => f.version == cfg.baseline) (pre ++ b :: post) = some pre.length := by
    apply lastIndex_split
    · simp [hb]
    · intro x hx; simp [hb, hpost x hx]
  simp only [pending, List.getLast?_nil, firstRun, h1, h2, Bool.false_eq_true, if_false, if_true, hsplit, hli]
  have hget : (pre ++ b :: post)[pre.length]! = b := by simp
  have hdrop : (pre ++ b :: post).drop (pre.length + 1) = post := by simp
  rw [hget, hdrop]
  cases post <;> simp



/-! ### link to C09: the states the executor reaches are linear states

`Props.C09` describes one attempt with the specification `pendingSpec` (everything from the first file
that is not completely recorded). The theorems below show that in every state described by the C09
invariant the real decision procedure `Pending.pending` returns exactly that list, so the C09 theorems
hold for `Atlas.Exec.executeN` – the function the correspondence run ties to `(*Executor).ExecuteN`. -/

open Atlas.Exec in
theorem sorted_ext : ∀ (l1 l2 : List String), l1.Pairwise (· < ·) → l2.Pairwise (· < ·) →
    (∀ x, x ∈ l1 ↔ x ∈ l2) → l1 = l2 := by
  intro l1
  induction l1 with
  | nil =>
    intro l2 _ _ h
    cases l2 with
    | nil => rfl
    | cons b t => exact absurd ((h b).mpr (List.mem_cons_self ..)) (by simp)
  | cons a t1 ih =>
    intro l2 h1 h2 h
    cases l2 with
    | nil => exact absurd ((h a).mp (List.mem_cons_self ..)) (by simp)
    | cons b t2 =>
      rw [List.pairwise_cons] at h1 h2
      have hab : a = b := by
        rcases List.mem_cons.mp ((h a).mp (List.mem_cons_self ..)) with e | ha
        · exact e
        · rcases List.mem_cons.mp ((h b).mpr (List.mem_cons_self ..)) with e | hb
          · exact e.symm
          · exact absurd (h2.1 a ha) (String.lt_asymm (h1.1 b hb))
      subst hab
      congr 1
      apply ih t2 h1.2 h2.2
      intro x
      constructor
      · intro hx
        rcases List.mem_cons.mp ((h x).mp (List.mem_cons_of_mem _ hx)) with e | hx2
        · subst e; exact absurd (h1.1 x hx) (String.lt_irrefl _)
        · exact hx2
      · intro hx
        rcases List.mem_cons.mp ((h x).mpr (List.mem_cons_of_mem _ hx)) with e | hx1
        · subst e; exact absurd (h2.1 x hx) (String.lt_irrefl _)
        · exact hx1

theorem eq_of_version_eq : ∀ (l : List Revision), (l.map (·.version)).Pairwise (· < ·) →
    ∀ r r', r ∈ l → r' ∈ l → r.version = r'.version → r = r' := by
  intro l
  induction l with
  | nil => intro _ r _ h; cases h
  | cons a t ih =>
    intro hs r r' hr hr' hv
    rw [List.map_cons, List.pairwise_cons] at hs
    rcases List.mem_cons.mp hr with rfl | hr1 <;> rcases List.mem_cons.mp hr' with rfl | hr2
    · rfl
    · exact absurd (hv ▸ hs.1 _ (List.mem_map_of_mem hr2)) (String.lt_irrefl _)
    · exact absurd (hv ▸ hs.1 _ (List.mem_map_of_mem hr1)) (String.lt_irrefl _)
    · exact ih hs.2 r r' hr1 hr2 hv

theorem findRev_none_iff (v : String) (revs : List Revision) :
    Atlas.Exec.findRev v revs = none ↔ v ∉ revs.map (·.version) := by
  unfold Atlas.Exec.findRev
  rw [List.find?_eq_none]
  constructor
  · intro h hv
    obtain ⟨r, hr, rfl⟩ := List.mem_map.mp hv
    exact absurd (h r hr) (by simp)
  · intro h r hr
    simp only [beq_iff_eq]
    intro e
    exact h (List.mem_map.mpr ⟨r, hr, e⟩)

open Atlas.Exec in
/-- a row the executor wrote is never "resolved". -/
theorem good_not_resolved {dir : List MFile} {r : Revision} (h : Good dir r) : r.resolved = false := by
  unfold Revision.resolved; rw [h.1]; decide

open Atlas.Exec in
/-- **linear_of_dinv**: every state described by the C09 invariant, with the reachable shape of the
revision table, is a linear state in the sense of `pending_linear`. -/
theorem linear_of_dinv {H : Text → String} {pre rest : List MFile} {w : World} {a e k : Nat}
    (inv : DInv H pre rest w a e k) (hr : RInv (pre ++ rest) w.revs)
    (nock : ∀ f ∈ pre ++ rest, f.checkpoint = false) (hs : SortedV (pre ++ rest)) :
    LinearState pre rest w.revs := by
  refine ⟨nock, hs, ?_⟩
  have hsorted := hs
  unfold SortedV at hsorted
  rw [List.map_append, List.pairwise_append] at hsorted
  obtain ⟨hspre, hsrest, hcross⟩ := hsorted
  -- rows of completely recorded files
  have hcomplete : ∀ r ∈ w.revs, r.version ∈ pre.map (·.version) → r.partially = false := by
    intro r hrm hv
    obtain ⟨m, hm, hmv⟩ := List.mem_map.mp hv
    obtain ⟨r', h1, h2, h3⟩ := inv.done m hm
    have hr' := findRev_mem h1
    have : r' = r := eq_of_version_eq _ hr.sorted r' r hr'.1 hrm (by rw [hr'.2, hmv])
    subst this
    exact complete_not_partially _ (by rw [h2, h3])
  have hpre_in : ∀ v ∈ pre.map (·.version), v ∈ w.revs.map (·.version) := by
    intro v hv
    obtain ⟨m, hm, rfl⟩ := List.mem_map.mp hv
    obtain ⟨r', h1, _, _⟩ := inv.done m hm
    have hr' := findRev_mem h1
    exact List.mem_map.mpr ⟨r', hr'.1, hr'.2⟩
  cases rest with
  | nil =>
    left
    have hv : w.revs.map (·.version) = pre.map (·.version) := by
      apply sorted_ext _ _ hr.sorted hspre
      intro x
      constructor
      · intro hx
        obtain ⟨r, hrm, rfl⟩ := List.mem_map.mp hx
        obtain ⟨_, m, hm, hmv⟩ := hr.good r hrm
        rw [List.append_nil] at hm
        exact List.mem_map.mpr ⟨m, hm, hmv⟩
      · exact hpre_in x
    exact ⟨hv, fun r hl => hcomplete r (List.mem_of_getLast? hl) (hv ▸ List.mem_map_of_mem (List.mem_of_getLast? hl))⟩
  | cons m post =>
    obtain ⟨hrec, _, hst, hpost⟩ := inv.cur
    have hmlt : ∀ v ∈ pre.map (·.version), v < m.version :=
      fun v hv => hcross v hv m.version (by simp)
    -- a row belongs to a file of `pre` or to `m`
    have hwhere : ∀ r ∈ w.revs, r.version ∈ pre.map (·.version) ∨ r.version = m.version := by
      intro r hrm
      obtain ⟨_, m0, hm0, hmv⟩ := hr.good r hrm
      rcases List.mem_append.mp hm0 with hp | hp
      · exact Or.inl (List.mem_map.mpr ⟨m0, hp, hmv⟩)
      · rcases List.mem_cons.mp hp with rfl | hp'
        · exact Or.inr hmv.symm
        · have := (findRev_none_iff m0.version w.revs).mp (hpost m0 hp')
          exact absurd (List.mem_map.mpr ⟨r, hrm, hmv.symm⟩) this
    cases hf : findRev m.version w.revs with
    | none =>
      left
      have hnot := (findRev_none_iff m.version w.revs).mp hf
      have hv : w.revs.map (·.version) = pre.map (·.version) := by
        apply sorted_ext _ _ hr.sorted hspre
        intro x
        constructor
        · intro hx
          obtain ⟨r, hrm, rfl⟩ := List.mem_map.mp hx
          rcases hwhere r hrm with h | h
          · exact h
          · exact absurd (h ▸ List.mem_map_of_mem hrm) hnot
        · exact hpre_in x
      exact ⟨hv, fun r hl => hcomplete r (List.mem_of_getLast? hl) (hv ▸ List.mem_map_of_mem (List.mem_of_getLast? hl))⟩
    | some rp =>
      right
      have hrp := findRev_mem hf
      -- the row of `m` is partial
      have hpart : rp.partially = true := by
        rcases hrec with ⟨hn, _⟩ | ⟨r, h1, h2, h3, _⟩
        · rw [hn] at hf; cases hf
        · rw [hf] at h1
          cases h1
          have hlt : a < m.stmts.length := by
            rcases hst with h | h
            · exact h
            · rw [h] at hf; cases hf
          unfold Revision.partially
          rw [good_not_resolved (hr.good rp hrp.1)]
          simp
          omega
      have hv : w.revs.map (·.version) = pre.map (·.version) ++ [m.version] := by
        apply sorted_ext _ _ hr.sorted
        · rw [List.pairwise_append]
          exact ⟨hspre, by simp, fun x hx y hy => by simp at hy; subst hy; exact hmlt x hx⟩
        · intro x
          constructor
          · intro hx
            obtain ⟨r, hrm, rfl⟩ := List.mem_map.mp hx
            rcases hwhere r hrm with h | h
            · exact List.mem_append_left _ h
            · exact List.mem_append_right _ (by simp [h])
          · intro hx
            rcases List.mem_append.mp hx with h | h
            · exact hpre_in x h
            · simp at h; subst h
              exact List.mem_map.mpr ⟨rp, hrp.1, hrp.2⟩
      have hne : w.revs ≠ [] := by
        intro h; rw [h] at hv; simp at hv
      have hsplit : w.revs = w.revs.dropLast ++ [w.revs.getLast hne] :=
        (List.dropLast_concat_getLast hne).symm
      have hv2 : (w.revs.dropLast).map (·.version) ++ [(w.revs.getLast hne).version] =
          pre.map (·.version) ++ [m.version] := by
        rw [← hv]; conv => rhs; rw [hsplit]
        simp
      have hinj := List.append_inj' hv2 rfl
      have hlast : w.revs.getLast hne = rp :=
        eq_of_version_eq _ hr.sorted _ _ (List.getLast_mem hne) hrp.1 (by
          have := hinj.2; simp at this; rw [this, hrp.2])
      exact ⟨m, post, w.revs.dropLast, rp, rfl, by rw [← hlast]; exact hsplit, hinj.1, hrp.2, hpart⟩

open Atlas.Exec in
/-- **pending_of_dinv**: in every such state `Pending` decides exactly what C09 assumes: the files
from the first not completely recorded one on (and "no pending files" when there is none). -/
theorem pending_of_dinv {H : Text → String} {pre rest : List MFile} {w : World} {a e k : Nat}
    (cfg : Cfg) (hb : cfg.baseline = "") (hc : cfg.clean = true)
    (inv : DInv H pre rest w a e k) (hr : RInv (pre ++ rest) w.revs)
    (nock : ∀ f ∈ pre ++ rest, f.checkpoint = false) (hs : SortedV (pre ++ rest)) :
    (pending cfg (pre ++ rest) w.revs).baselineWrite = none ∧
    (pending cfg (pre ++ rest) w.revs).out = (if rest = [] then .error .noPending else .ok rest) :=
  pending_linear cfg pre rest w.revs hb hc (linear_of_dinv inv hr nock hs)

open Atlas.Exec in
/-- **executeN_eq_attempt**: one `ExecuteN` (all pending files) of the model that the correspondence
run ties to the code reaches the same state as the attempt of `Props.C09`. -/
theorem executeN_eq_attempt {H : Text → String} {dir pre rest : List MFile} {w : World} {a e k : Nat}
    (cfg : Cfg) (hb : cfg.baseline = "") (hc : cfg.clean = true) (hsplit : pre ++ rest = dir)
    (inv : DInv H pre rest w a e k) (hr : RInv dir w.revs)
    (nock : ∀ f ∈ dir, f.checkpoint = false) (hs : SortedV dir) (fs : List Nat) :
    (executeN true H cfg dir 0 { w with tick := 0, faults := fs }).1 = (Props.C09.attempt H dir w fs).1 := by
  subst hsplit
  obtain ⟨hbw, hout⟩ := pending_of_dinv cfg hb hc inv hr nock hs
  unfold executeN Props.C09.attempt
  rw [Props.C09.pendingSpec_eq inv]
  simp only [hbw, hout]
  cases rest with
  | nil => simp [execFiles]
  | cons m post => simp

open Atlas.Exec in
/-- **attempts_eq**: any number of `ExecuteN` calls, each under its own fault schedule, started from
the empty database, walk through exactly the states of `Props.C09.attempts` – so every C09 theorem
(`inv_attempts`, `history_le_executed`, `at_most_one_repeat_per_write_fault`, `exactly_once_*`,
`clean_run_completes`) is a theorem about `Atlas.Exec.attempts`, the model of repeated
`(*Executor).ExecuteN` runs on a linear, checkpoint-free directory. -/
theorem attempts_eq {H : Text → String} {dir : List MFile} (cfg : Cfg) (hb : cfg.baseline = "")
    (hc : cfg.clean = true) (nock : ∀ f ∈ dir, f.checkpoint = false) (hs : SortedV dir) :
    ∀ (scheds : List (List Nat)) (w : World) (pre rest : List MFile) (a e k : Nat),
      pre ++ rest = dir → DInv H pre rest w a e k → RInv dir w.revs →
      (Atlas.Exec.attempts true H cfg dir 0 scheds w).1 = Props.C09.attempts H dir w scheds := by
  have hnd : (dir.map (·.version)).Nodup := hs.imp (fun h => String.ne_of_lt h)
  intro scheds
  induction scheds with
  | nil => intro w _ _ _ _ _ _ _ _; rfl
  | cons fs tl ih =>
    intro w pre rest a e k hsplit inv hr
    have h1 := executeN_eq_attempt cfg hb hc hsplit inv hr nock hs fs
    obtain ⟨pre', rest', a', e', k', hs', inv', _⟩ := Props.C09.inv_step hnd hsplit inv fs
    have hr' : RInv dir (Props.C09.attempt H dir w fs).1.revs := by
      unfold Props.C09.attempt
      refine execFiles_rinv true H _ { w with tick := 0, faults := fs } hr ?_
      intro m hm
      rw [← hsplit, Props.C09.pendingSpec_eq inv] at hm
      rw [← hsplit]
      exact List.mem_append_right _ hm
    unfold Atlas.Exec.attempts Props.C09.attempts
    rcases hex : executeN true H cfg dir 0 { w with tick := 0, faults := fs } with ⟨w1, o⟩
    rw [hex] at h1
    simp only at h1
    subst h1
    simp only
    rcases hat : Atlas.Exec.attempts true H cfg dir 0 tl (Props.C09.attempt H dir w fs).1 with ⟨w2, os⟩
    have := ih _ pre' rest' a' e' k' hs' inv' hr'
    rw [hat] at this
    exact this

open Atlas.Exec in
/-- every state reached by repeated `ExecuteN` runs from the empty database is `Reachable` in the sense
of C09. -/
theorem executeN_reachable {H : Text → String} {dir : List MFile} (cfg : Cfg) (hb : cfg.baseline = "")
    (hc : cfg.clean = true) (nock : ∀ f ∈ dir, f.checkpoint = false) (hs : SortedV dir)
    (scheds : List (List Nat)) :
    Props.C09.Reachable H dir (Atlas.Exec.attempts true H cfg dir 0 scheds {}).1 :=
  ⟨scheds, attempts_eq cfg hb hc nock hs scheds {} [] dir 0 0 0 rfl (Props.C09.inv_init H dir) (rinv_nil dir)⟩

/-- non-vacuity: the two-file directory of the C09 examples, three `ExecuteN` runs (the revision write
after statement A fails; statement B fails; clean run). -/
example : (Atlas.Exec.attempts true Props.C09.toyH {} Props.C09.dir2 0 [[2], [1], []] {}).1.journal =
    ["A;".toList, "A;".toList, "B;".toList, "C;".toList] := by decide

/-! ### `atlas migrate set`: model of migrateSetRun composed with `Pending` -/

section SetVersion
open Atlas.Exec Atlas.SetV

theorem takeWhile_split {α : Type} (p : α → Bool) (l1 l2 : List α) (h1 : ∀ a ∈ l1, p a = true)
    (h2 : ∀ a, l2.head? = some a → p a = false) : (l1 ++ l2).takeWhile p = l1 := by
  rw [List.takeWhile_append_of_pos h1]
  cases l2 with
  | nil => simp
  | cons a t => rw [List.takeWhile_cons_of_neg (by simp [h2 a rfl])]; simp

theorem upsert_end (r : Revision) : ∀ (l : List Revision), (∀ x ∈ l, x.version < r.version) →
    upsert r l = l ++ [r] := by
  intro l
  induction l with
  | nil => intro _; rfl
  | cons y ys ih =>
    intro h
    have hy := h y (List.mem_cons_self ..)
    unfold upsert
    have h1 : (y.version == r.version) = false := by simpa using String.ne_of_lt hy
    have h2 : ¬ r.version < y.version := String.lt_asymm hy
    simp only [h1, Bool.false_eq_true, if_false, h2]
    rw [ih (fun x hx => h x (List.mem_cons_of_mem _ hx))]
    rfl

theorem foldl_upsert_end : ∀ (fs : List MFile) (acc : List Revision),
    (∀ x ∈ acc, ∀ f ∈ fs, x.version < f.version) → (fs.map (·.version)).Pairwise (· < ·) →
    fs.foldl (fun acc f => upsert (resolvedRev f) acc) acc = acc ++ fs.map resolvedRev := by
  intro fs
  induction fs with
  | nil => intro acc _ _; simp
  | cons f t ih =>
    intro acc h1 h2
    rw [List.map_cons, List.pairwise_cons] at h2
    rw [List.foldl_cons, upsert_end (resolvedRev f) acc (fun x hx => h1 x hx f (List.mem_cons_self ..))]
    rw [ih]
    · simp
    · intro x hx g hg
      rcases List.mem_append.mp hx with hx | hx
      · exact h1 x hx g (List.mem_cons_of_mem _ hg)
      · simp at hx; subst hx
        exact h2.1 _ (List.mem_map_of_mem hg)
    · exact h2.2

/-- the marking function of `markStep`. -/
def markF (version : String) (r : Revision) : Revision :=
  if r.version == version && (r.error != "" || r.total != r.applied) then { r with typ := 6 } else r

theorem markF_version (v : String) (r : Revision) : (markF v r).version = r.version := by
  unfold markF; split <;> rfl

theorem markF_not_partial (v : String) (r : Revision) (h : r.version = v) : (markF v r).partially = false := by
  unfold markF
  by_cases hc : (r.error != "" || r.total != r.applied) = true
  · simp only [h, beq_self_eq_true, hc, Bool.and_self, if_true]
    unfold Revision.partially Revision.resolved
    simp
  · have hc' : (r.error != "" || r.total != r.applied) = false := by simpa using hc
    simp only [h, beq_self_eq_true, hc', Bool.and_false, Bool.false_eq_true, if_false]
    have : r.applied = r.total := by
      simp at hc'
      exact hc'.2.symm
    exact complete_not_partially r this

theorem markStep_eq (v : String) (revs : List Revision) :
    markStep v revs = (revs.filter (fun r => !(decide (v < r.version)))).map (markF v) := rfl

/-- **set_then_pending**: `atlas migrate set v` on a version-sorted, checkpoint-free directory
`init ++ z :: rest` (`v` = version of `z`) and ANY history without holes (the revisions are those of a
prefix `pre0` of the directory – shorter or longer than the target, each revision in any state:
applied, failed, partially applied), followed by `Pending`: exactly the files after `v` are pending
(or nothing, if `v` is the last file), for every execution order; the table holds exactly one
revision per file up to `v`. Status / apply after `set v` therefore agree with what `set` reports. -/
theorem set_then_pending (cfg : Cfg) (hb : cfg.baseline = "") (hc : cfg.clean = true)
    (init rest pre0 rest0 : List MFile) (z : MFile) (revs : List Revision)
    (nock : ∀ f ∈ (init ++ [z]) ++ rest, f.checkpoint = false) (hs : SortedV ((init ++ [z]) ++ rest))
    (hsplit : pre0 ++ rest0 = (init ++ [z]) ++ rest) (hv0 : revs.map (·.version) = pre0.map (·.version)) :
    (setRevs ((init ++ [z]) ++ rest) revs z.version).map (·.version) = (init ++ [z]).map (·.version) ∧
    (pending cfg ((init ++ [z]) ++ rest) (setRevs ((init ++ [z]) ++ rest) revs z.version)).out =
      (if rest = [] then .error .noPending else .ok rest) := by
  have hlt := sorted_lt_of_append hs
  have hsorted := hs
  unfold SortedV at hsorted
  rw [List.map_append, List.pairwise_append] at hsorted
  obtain ⟨hspre, hsrest, _⟩ := hsorted
  -- every file up to z is ≤ v, every later file is > v
  have hle : ∀ f ∈ init ++ [z], ¬ z.version < f.version := by
    intro f hf
    rw [List.map_append, List.pairwise_append] at hspre
    rcases List.mem_append.mp hf with hf | hf
    · exact String.lt_asymm (hspre.2.2 _ (List.mem_map_of_mem hf) z.version (by simp))
    · simp at hf; subst hf; exact String.lt_irrefl _
  have hgt : ∀ f ∈ rest, z.version < f.version := fun f hf => hlt z (by simp) f hf
  have key : (setRevs ((init ++ [z]) ++ rest) revs z.version).map (·.version) = (init ++ [z]).map (·.version) ∧
      ∀ last, (setRevs ((init ++ [z]) ++ rest) revs z.version).getLast? = some last → last.partially = false := by
    rcases List.append_eq_append_iff.mp hsplit with ⟨x, hx1, hx2⟩ | ⟨x, hx1, hx2⟩
    · -- the target lies beyond (or at the end of) the history: init ++ [z] = pre0 ++ x
      have hall : ∀ r ∈ revs, (!(decide (z.version < r.version))) = true := by
        intro r hr
        have : r.version ∈ pre0.map (·.version) := hv0 ▸ List.mem_map_of_mem hr
        obtain ⟨f, hf, hfv⟩ := List.mem_map.mp this
        have := hle f (by rw [hx1]; exact List.mem_append_left _ hf)
        simp [← hfv, this]
      have hfilter : revs.filter (fun r => !(decide (z.version < r.version))) = revs :=
        List.filter_eq_self.mpr hall
      have hrevs1v : (markStep z.version revs).map (·.version) = pre0.map (·.version) := by
        rw [markStep_eq, hfilter, List.map_map, ← hv0]
        apply List.map_congr_left
        intro r _
        exact markF_version _ r
      cases x with
      | nil =>
        -- pre0 = init ++ [z]: the history ends exactly at v
        simp only [List.append_nil] at hx1
        have hne : revs ≠ [] := by
          intro h; rw [h] at hv0; rw [← hx1] at hv0; simp at hv0
        have hlastv : ∀ last, (markStep z.version revs).getLast? = some last → last.version = z.version := by
          intro last hl
          have : ((markStep z.version revs).map (·.version)).getLast? = some last.version := by
            rw [List.getLast?_map, hl]; rfl
          rw [hrevs1v, ← hx1] at this
          simpa using this.symm
        have hrec : toRecord ((init ++ [z]) ++ rest) (markStep z.version revs) z.version = [] := by
          unfold toRecord
          cases hl : (markStep z.version revs).getLast? with
          | none =>
            have : markStep z.version revs = [] := by simpa using hl
            rw [this] at hrevs1v; rw [← hx1] at hrevs1v; simp at hrevs1v
          | some last =>
            simp only
            rw [hlastv last hl]
            simp
        have hset : setRevs ((init ++ [z]) ++ rest) revs z.version = markStep z.version revs := by
          unfold setRevs; simp only [hrec, List.foldl_nil]
        rw [hset]
        refine ⟨by rw [hrevs1v, hx1], ?_⟩
        intro last hl
        rw [markStep_eq, hfilter, List.getLast?_map] at hl
        cases hr : revs.getLast? with
        | none => rw [hr] at hl; cases hl
        | some r0 =>
          rw [hr] at hl
          simp only [Option.map_some, Option.some.injEq] at hl
          subst hl
          have : r0.version = z.version := by
            have h1 : (revs.map (·.version)).getLast? = some r0.version := by rw [List.getLast?_map, hr]; rfl
            rw [hv0, ← hx1] at h1
            simpa using h1.symm
          exact markF_not_partial _ r0 this
      | cons y ys =>
        -- init ++ [z] = pre0 ++ (y :: ys): files y :: ys get resolved revisions
        have hxl : (y :: ys).getLast? = some z := by
          have := congrArg List.getLast? hx1
          simpa using this.symm
        have hpre0lt : ∀ f ∈ pre0, ∀ g ∈ y :: ys, f.version < g.version := by
          intro f hf g hg
          have := hspre
          rw [hx1, List.map_append, List.pairwise_append] at this
          exact this.2.2 _ (List.mem_map_of_mem hf) _ (List.mem_map_of_mem hg)
        have hxsorted : ((y :: ys).map (·.version)).Pairwise (· < ·) := by
          have := hspre
          rw [hx1, List.map_append, List.pairwise_append] at this
          exact this.2.1
        have hrec : toRecord ((init ++ [z]) ++ rest) (markStep z.version revs) z.version = y :: ys := by
          unfold toRecord
          cases hl : (markStep z.version revs).getLast? with
          | none =>
            simp only
            have hnil : markStep z.version revs = [] := by simpa using hl
            have hp0 : pre0 = [] := by
              rw [hnil] at hrevs1v; simpa using hrevs1v.symm
            rw [takeWhile_split _ (init ++ [z]) rest (fun f hf => by simp [hle f hf])
              (fun f hf => by simp [hgt f (List.mem_of_mem_head? hf)])]
            rw [hx1, hp0]; rfl
          | some last =>
            simp only
            have hlv : ((markStep z.version revs).map (·.version)).getLast? = some last.version := by
              rw [List.getLast?_map, hl]; rfl
            rw [hrevs1v, List.getLast?_map] at hlv
            cases hp : pre0.getLast? with
            | none => rw [hp] at hlv; cases hlv
            | some pl =>
              rw [hp] at hlv
              simp only [Option.map_some, Option.some.injEq] at hlv
              have hplm : pl ∈ pre0 := List.mem_of_getLast? hp
              have hltv : last.version < z.version := by
                rw [← hlv]; exact hpre0lt pl hplm z (List.mem_of_getLast? hxl)
              simp only [hltv, decide_true, if_true]
              rw [takeWhile_split _ (init ++ [z]) rest (fun f hf => by simp [hle f hf])
                (fun f hf => by
                  have h1 := hgt f (List.mem_of_mem_head? hf)
                  have h2 : last.version < f.version := String.lt_trans hltv h1
                  simp [h1, h2])]
              rw [hx1, List.filter_append]
              have hf1 : pre0.filter (fun f => !(decide (f.version ≤ last.version))) = [] := by
                rw [List.filter_eq_nil_iff]
                intro f hf
                have hsp0 : (pre0.map (·.version)).Pairwise (· < ·) := by
                  have := hspre
                  rw [hx1, List.map_append, List.pairwise_append] at this
                  exact this.1
                have : ¬ pl.version < f.version := by
                  obtain ⟨ini, hini⟩ : ∃ ini, pre0 = ini ++ [pl] :=
                    ⟨pre0.dropLast, by
                      have hne : pre0 ≠ [] := by intro h; rw [h] at hp; cases hp
                      have := (List.dropLast_concat_getLast hne).symm
                      rw [this]; congr 2
                      have h2 := List.getLast?_eq_some_getLast hne
                      rw [hp] at h2; exact (Option.some.inj h2).symm⟩
                  rw [hini, List.map_append, List.pairwise_append] at hsp0
                  rw [hini] at hf
                  rcases List.mem_append.mp hf with hf | hf
                  · exact String.lt_asymm (hsp0.2.2 _ (List.mem_map_of_mem hf) pl.version (by simp))
                  · simp at hf; subst hf; exact String.lt_irrefl _
                rw [← hlv]
                simpa using this
              have hf2 : (y :: ys).filter (fun f => !(decide (f.version ≤ last.version))) = y :: ys := by
                rw [List.filter_eq_self]
                intro f hf
                have : last.version < f.version := by rw [← hlv]; exact hpre0lt pl hplm f hf
                simpa using this
              rw [hf1, hf2]; rfl
        have hset : setRevs ((init ++ [z]) ++ rest) revs z.version =
            markStep z.version revs ++ (y :: ys).map resolvedRev := by
          unfold setRevs
          simp only [hrec]
          apply foldl_upsert_end _ _ _ hxsorted
          intro r hr g hg
          have : r.version ∈ pre0.map (·.version) := hrevs1v ▸ List.mem_map_of_mem hr
          obtain ⟨f, hf, hfv⟩ := List.mem_map.mp this
          rw [← hfv]; exact hpre0lt f hf g hg
        rw [hset]
        refine ⟨?_, ?_⟩
        · rw [List.map_append, hrevs1v, hx1, List.map_append, List.map_map]
          rfl
        · intro last hl
          rw [List.getLast?_append, List.getLast?_map, hxl] at hl
          simp only [Option.map_some, Option.some_or, Option.some.injEq] at hl
          subst hl
          exact complete_not_partially _ rfl
    · -- the history reaches beyond the target: pre0 = (init ++ [z]) ++ x, the rows of x are deleted
      have hvsplit : revs.map (·.version) = (init ++ [z]).map (·.version) ++ x.map (·.version) := by
        rw [hv0, hx1, List.map_append]
      -- split revs accordingly
      have hlen : (revs.take (init ++ [z]).length).map (·.version) = (init ++ [z]).map (·.version) ∧
          (revs.drop (init ++ [z]).length).map (·.version) = x.map (·.version) := by
        have h1 := congrArg (List.take (init ++ [z]).length) hvsplit
        have h2 := congrArg (List.drop (init ++ [z]).length) hvsplit
        rw [← List.map_take] at h1
        rw [← List.map_drop] at h2
        constructor
        · rw [h1, List.take_left']; simp
        · rw [h2, List.drop_left']; simp
      have hxin : ∀ f ∈ x, f ∈ rest := by
        intro f hf; rw [hx2]; exact List.mem_append_left _ hf
      have hfilter : revs.filter (fun r => !(decide (z.version < r.version))) = revs.take (init ++ [z]).length := by
        conv => lhs; rw [← List.take_append_drop (init ++ [z]).length revs]
        rw [List.filter_append]
        have h1 : (revs.take (init ++ [z]).length).filter (fun r => !(decide (z.version < r.version))) =
            revs.take (init ++ [z]).length := by
          rw [List.filter_eq_self]
          intro r hr
          have : r.version ∈ (init ++ [z]).map (·.version) := hlen.1 ▸ List.mem_map_of_mem hr
          obtain ⟨f, hf, hfv⟩ := List.mem_map.mp this
          simp [← hfv, hle f hf]
        have h2 : (revs.drop (init ++ [z]).length).filter (fun r => !(decide (z.version < r.version))) = [] := by
          rw [List.filter_eq_nil_iff]
          intro r hr
          have : r.version ∈ x.map (·.version) := hlen.2 ▸ List.mem_map_of_mem hr
          obtain ⟨f, hf, hfv⟩ := List.mem_map.mp this
          simp [← hfv, hgt f (hxin f hf)]
        rw [h1, h2, List.append_nil]
      have hrevs1v : (markStep z.version revs).map (·.version) = (init ++ [z]).map (·.version) := by
        rw [markStep_eq, hfilter, List.map_map, ← hlen.1]
        apply List.map_congr_left
        intro r _
        exact markF_version _ r
      have hlastv : ∀ last, (markStep z.version revs).getLast? = some last → last.version = z.version := by
        intro last hl
        have : ((markStep z.version revs).map (·.version)).getLast? = some last.version := by
          rw [List.getLast?_map, hl]; rfl
        rw [hrevs1v] at this
        simpa using this.symm
      have hrec : toRecord ((init ++ [z]) ++ rest) (markStep z.version revs) z.version = [] := by
        unfold toRecord
        cases hl : (markStep z.version revs).getLast? with
        | none =>
          have : markStep z.version revs = [] := by simpa using hl
          rw [this] at hrevs1v; simp at hrevs1v
        | some last =>
          simp only
          rw [hlastv last hl]
          simp
      have hset : setRevs ((init ++ [z]) ++ rest) revs z.version = markStep z.version revs := by
        unfold setRevs; simp only [hrec, List.foldl_nil]
      rw [hset]
      refine ⟨hrevs1v, ?_⟩
      intro last hl
      rw [markStep_eq, hfilter, List.getLast?_map] at hl
      cases hr : (revs.take (init ++ [z]).length).getLast? with
      | none => rw [hr] at hl; cases hl
      | some r0 =>
        rw [hr] at hl
        simp only [Option.map_some, Option.some.injEq] at hl
        subst hl
        have : r0.version = z.version := by
          have h1 : ((revs.take (init ++ [z]).length).map (·.version)).getLast? = some r0.version := by
            rw [List.getLast?_map, hr]; rfl
          rw [hlen.1] at h1
          simpa using h1.symm
        exact markF_not_partial _ r0 this
  refine ⟨key.1, ?_⟩
  exact (pending_linear cfg (init ++ [z]) rest _ hb hc ⟨nock, hs, .inl ⟨key.1, key.2⟩⟩).2

/-- non-vacuity: file 2 failed after one of two statements; `migrate set 3` steps over it (its row
stays as it is), records file 3 as resolved, and only file 4 remains pending. -/
example :
    let dir : List MFile := [⟨"1_a.sql", "1", "a", [], false, ""⟩, ⟨"2_b.sql", "2", "b", [], false, ""⟩,
      ⟨"3_c.sql", "3", "c", [], false, ""⟩, ⟨"4_d.sql", "4", "d", [], false, ""⟩]
    let revs : List Revision := [{ version := "1", applied := 2, total := 2 },
      { version := "2", applied := 1, total := 2, error := "boom" }]
    ((Atlas.SetV.setRevs dir revs "3").map (fun r => (r.version, r.typ, r.applied, r.total)) =
        [("1", 2, 2, 2), ("2", 2, 1, 2), ("3", 4, 0, 0)]) ∧
    (match (pending {} dir (Atlas.SetV.setRevs dir revs "3")).out with
     | .ok l => l.map (·.version) | .error _ => []) = ["4"] := by decide

/-- … and `migrate set 2` on the same history marks the failed row `Execute|Resolved` (6). -/
example :
    let dir : List MFile := [⟨"1_a.sql", "1", "a", [], false, ""⟩, ⟨"2_b.sql", "2", "b", [], false, ""⟩,
      ⟨"3_c.sql", "3", "c", [], false, ""⟩]
    let revs : List Revision := [{ version := "1", applied := 2, total := 2 },
      { version := "2", applied := 1, total := 2, error := "boom" }]
    ((Atlas.SetV.setRevs dir revs "2").map (fun r => (r.version, r.typ, r.applied, r.total)) =
        [("1", 2, 2, 2), ("2", 6, 1, 2)]) ∧
    (match (pending {} dir (Atlas.SetV.setRevs dir revs "2")).out with
     | .ok l => l.map (·.version) | .error _ => []) = ["3"] := by decide

end SetVersion

/-- **pending_count_le**: `Pending` never returns more files than the directory holds, and a returned file
keeps its place relative to the others (any configuration, revision table and order option). -/
theorem pending_count_le (cfg : Cfg) (all : List MFile) (revs : List Revision) (l : List MFile)
    (h : (pending cfg all revs).out = .ok l) : l.length ≤ all.length :=
  (pending_is_subsequence cfg all revs l h).length_le

end Props.C11
