/-
C11 — Pending-file computation follows the documented semantics for every history.

Model: `Atlas.Pending.pending` (sql/migrate/migrate.go `(*Executor).Pending`, with the Go binary
search, FilesLastIndex, SkipCheckpointFiles, FilesFromLastCheckpoint). Theorems are for directories
and revision tables of any length.
-/
import Lemmas.Pending
import Props.C09

namespace Props.C11
open Atlas Atlas.Pending

/-- versions strictly increasing (what `Dir.Files()` gives when name order = version order). -/
def SortedV (fs : List MFile) : Prop := (fs.map (·.version)).Pairwise (· < ·)

/-! ### first run -/

/-- **dirty_requires_flag**: on a first run against a database that is not clean, without
`allow-dirty` and without a baseline, nothing is pending: the run is refused. -/
theorem dirty_requires_flag (cfg : Cfg) (all : List MFile) (hc : cfg.clean = false)
    (hd : cfg.allowDirty = false) (hb : cfg.baseline = "") :
    (pending cfg all []).out = .error .notClean ∧ (pending cfg all []).baselineWrite = none := by
  simp [pending, firstRun, hc, hd, hb]

/-- **first_run_from_last_checkpoint_only**: a first run (clean database or allow-dirty, no baseline)
starts at the latest checkpoint, and only it: the result is the directory from the last checkpoint
file on, that file is a checkpoint and no later file is; without any checkpoint it is the whole
directory. Nothing is written. -/
theorem first_run_from_last_checkpoint_only (cfg : Cfg) (all : List MFile)
    (hc : cfg.clean = true ∨ cfg.allowDirty = true) (hb : cfg.baseline = "") (hne : all ≠ []) :
    (pending cfg all []).baselineWrite = none ∧
    ((∀ f ∈ all, f.checkpoint = false) ∧ (pending cfg all []).out = .ok all ∨
     ∃ pre ck post, all = pre ++ ck :: post ∧ ck.checkpoint = true ∧ (∀ f ∈ post, f.checkpoint = false) ∧
       (pending cfg all []).out = .ok (ck :: post)) := by
  have hnc : (!cfg.clean && !cfg.allowDirty && cfg.baseline == "") = false := by
    rcases hc with h | h <;> simp [h]
  have hb' : (cfg.baseline != "") = false := by simp [hb]
  -- a decomposition at the last checkpoint
  have key : ∀ l : List MFile, (lastIndex (fun f => f.checkpoint) l = none ∧ ∀ f ∈ l, f.checkpoint = false) ∨
      ∃ pre ck post, l = pre ++ ck :: post ∧ ck.checkpoint = true ∧ (∀ f ∈ post, f.checkpoint = false) ∧
        lastIndex (fun f => f.checkpoint) l = some pre.length := by
    intro l
    induction l with
    | nil => left; simp [lastIndex]
    | cons a l ih =>
      rcases ih with ⟨hn, hall⟩ | ⟨pre, ck, post, h1, h2, h3, h4⟩
      · by_cases ha : a.checkpoint = true
        · right
          exact ⟨[], a, l, rfl, ha, hall, by simp [lastIndex, hn, ha]⟩
        · left
          refine ⟨by simp [lastIndex, hn, ha], ?_⟩
          intro f hf
          rcases List.mem_cons.mp hf with rfl | hf
          · simpa using ha
          · exact hall f hf
      · right
        exact ⟨a :: pre, ck, post, by rw [h1]; rfl, h2, h3, by simp [lastIndex, h4]⟩
  refine ⟨by simp [pending, firstRun, hnc, hb'], ?_⟩
  rcases key all with ⟨hn, hall⟩ | ⟨pre, ck, post, h1, h2, h3, h4⟩
  · left
    refine ⟨hall, ?_⟩
    have : all.isEmpty = false := by cases all <;> simp at hne ⊢
    simp [pending, firstRun, hnc, hb', filesFromLastCheckpoint, hn, this]
  · right
    refine ⟨pre, ck, post, h1, h2, h3, ?_⟩
    have hd : all.drop pre.length = ck :: post := by rw [h1]; simp
    simp [pending, firstRun, hnc, hb', filesFromLastCheckpoint, h4, hd]

/-! ### the linear, checkpoint-free case (what C09 relies on) -/

theorem skip_nock {l : List MFile} (h : ∀ f ∈ l, f.checkpoint = false) : skipCheckpoints l = l := by
  unfold skipCheckpoints
  rw [List.filter_eq_self]
  intro a ha; simp [h a ha]

theorem mono_lt_version {α : Type} (key : α → String) (l : List α) (hs : (l.map key).Pairwise (· < ·))
    (t : String) : Mono (fun x => decide (key x < t)) l := by
  intro i j hi hj hij h
  rcases Nat.lt_or_eq_of_le hij with hlt | heq
  · rw [List.pairwise_map, List.pairwise_iff_getElem] at hs
    have := hs i j hi hj hlt
    simp only [decide_eq_true_eq] at h ⊢
    exact String.lt_trans this h
  · subst heq; exact h

/-- in a list sorted by key the binary search finds every key that is present. -/
theorem bsearch_found {α : Type} [Inhabited α] (key : α → String) (l : List α)
    (hs : (l.map key).Pairwise (· < ·)) (t : String) (i : Nat) (hi : i < l.length) (hk : key l[i] = t) :
    bsearch (fun x => decide (key x < t)) (fun x => key x == t) l = (i, true) := by
  apply bsearch_at _ _ l (mono_lt_version key l hs t) i hi
  · intro k hk' hki
    rw [List.pairwise_map, List.pairwise_iff_getElem] at hs
    have := hs k i hk' hi hki
    rw [hk] at this
    simpa using this
  · rw [hk]; simp
  · simp [hk]

/-- what the C09 invariant knows about the revision table, in list form: the files of `pre` are
completely recorded (one revision each, in order), and the first file of `rest` may have a partial
revision. -/
structure LinearState (pre rest : List MFile) (revs : List Revision) : Prop where
  nock : ∀ f ∈ pre ++ rest, f.checkpoint = false
  sorted : SortedV (pre ++ rest)
  shape :
    (revs.map (·.version) = pre.map (·.version) ∧ ∀ r ∈ revs, r.partially = false) ∨
    (∃ m post rs rp, rest = m :: post ∧ revs = rs ++ [rp] ∧ rs.map (·.version) = pre.map (·.version) ∧
      (∀ r ∈ rs, r.partially = false) ∧ rp.version = m.version ∧ rp.partially = true)

theorem sorted_lt_of_append {pre rest : List MFile} (hs : SortedV (pre ++ rest)) :
    ∀ a ∈ pre, ∀ b ∈ rest, a.version < b.version := by
  intro a ha b hb
  unfold SortedV at hs
  rw [List.map_append, List.pairwise_append] at hs
  exact hs.2.2 _ (List.mem_map_of_mem ha) _ (List.mem_map_of_mem hb)

theorem window_empty (cfg : Cfg) (pre rest : List MFile) (revs : List Revision) (r0 : Revision)
    (hsr : (revs.map (·.version)).Pairwise (· < ·))
    (hall : ∀ f ∈ pre, ∃ i, ∃ (hi : i < revs.length), revs[i].version = f.version) :
    outOfOrder cfg (pre ++ rest) revs r0 pre.length = none ∨
    outOfOrder cfg (pre ++ rest) revs r0 pre.length = some [] := by
  unfold outOfOrder
  have htake : (pre ++ rest).take pre.length = pre := by simp
  rw [htake]
  cases hidx : indexFunc (fun f => decide (f.version ≥ r0.version)) pre with
  | none => left; rfl
  | some first =>
    simp only
    split
    · right
      congr 1
      rw [List.filter_eq_nil_iff]
      intro f hf
      obtain ⟨i, hi, hv⟩ := hall f (List.mem_of_mem_drop hf)
      have := bsearch_found (fun (r : Revision) => r.version) revs hsr f.version i hi hv
      simp [this]
    · left; rfl

/-- **pending_linear** (never a fully applied version again; always every newer version; the
partially applied file first): in a checkpoint-free directory sorted by version whose history is
"a prefix completely applied, the next file possibly partially applied", `Pending` returns exactly
the files from the first not completely applied one on, in directory order – for every execution
order – and reports "no pending files" when there is none. It writes nothing. -/
theorem pending_linear (cfg : Cfg) (pre rest : List MFile) (revs : List Revision)
    (hb : cfg.baseline = "") (hc : cfg.clean = true) (st : LinearState pre rest revs) :
    (pending cfg (pre ++ rest) revs).baselineWrite = none ∧
    (pending cfg (pre ++ rest) revs).out = (if rest = [] then .error .noPending else .ok rest) := by
  have hskip : skipCheckpoints (pre ++ rest) = pre ++ rest := skip_nock st.nock
  have hlt := sorted_lt_of_append st.sorted
  rcases st.shape with ⟨hv, hcomp⟩ | ⟨m, post, rs, rp, hrest, hrevs, hv, hcomp, hrpv, hrpa⟩
  · -- every revision complete
    cases hrl : revs.getLast? with
    | none =>
      -- no revision at all: first run
      have hre : revs = [] := by simpa using hrl
      subst hre
      have hpre : pre = [] := by simpa using hv.symm
      subst hpre
      have hnc : (!cfg.clean && !cfg.allowDirty && cfg.baseline == "") = false := by simp [hc]
      have hb' : (cfg.baseline != "") = false := by simp [hb]
      have hnone : lastIndex (fun f => f.checkpoint) rest = none :=
        lastIndex_all_false _ (by simpa using st.nock)
      simp only [List.nil_append]
      cases rest with
      | nil => simp [pending, firstRun, hnc, hb', filesFromLastCheckpoint, lastIndex]
      | cons a l => simp [pending, firstRun, hnc, hb', filesFromLastCheckpoint, hnone]
    | some last =>
      obtain ⟨r0, hr0⟩ : ∃ r0, revs.head? = some r0 := by
        cases revs with
        | nil => simp at hrl
        | cons a l => exact ⟨a, rfl⟩
      have hla : last.partially = false := hcomp last (List.mem_of_getLast? hrl)
      -- pre = pre' ++ [ml], ml.version = last.version
      have hpne : pre ≠ [] := by
        intro h; subst h
        have : revs = [] := by simpa using hv
        rw [this] at hrl; simp at hrl
      obtain ⟨pre', ml, hpre⟩ : ∃ pre' ml, pre = pre' ++ [ml] :=
        ⟨pre.dropLast, pre.getLast hpne, (List.dropLast_concat_getLast hpne).symm⟩
      have hmlv : ml.version = last.version := by
        have h1 : (revs.map (·.version)).getLast? = some last.version := by
          rw [List.getLast?_map, hrl]; rfl
        rw [hv, hpre] at h1
        simpa using h1
      have hne : (pre ++ rest).isEmpty = false := by
        cases pre with
        | nil => exact absurd rfl hpne
        | cons a l => rfl
      have hidx : lastIndex (fun f => decide (f.version ≤ last.version)) (pre ++ rest) = some pre'.length := by
        rw [hpre, List.append_assoc]
        apply lastIndex_split pre' ml rest
        · simp [hmlv]
        · intro x hx
          have := hlt ml (by rw [hpre]; simp) x hx
          rw [hmlv] at this
          simpa using this
      have hdrop' : (pre ++ rest).drop pre.length = rest := by simp
      have hsr : (revs.map (·.version)).Pairwise (· < ·) := by
        rw [hv]
        have := st.sorted
        unfold SortedV at this
        rw [List.map_append, List.pairwise_append] at this
        exact this.1
      have hall : ∀ f ∈ pre, ∃ i, ∃ (hi : i < revs.length), revs[i].version = f.version := by
        intro f hf
        obtain ⟨i, hi, hfi⟩ := List.getElem_of_mem hf
        have hlen : revs.length = pre.length := by
          have := congrArg List.length hv; simpa using this
        refine ⟨i, by omega, ?_⟩
        have := congrArg (fun l => l[i]?) hv
        simp only [List.getElem?_map] at this
        rw [List.getElem?_eq_getElem (by omega), List.getElem?_eq_getElem hi] at this
        simp only [Option.map_some, Option.some.injEq] at this
        rw [this, hfi]
      have hwin := window_empty cfg pre rest revs r0 hsr hall
      have hplen : pre.length = pre'.length + 1 := by rw [hpre]; simp
      have hnorm : normal cfg (pre ++ rest) revs r0 last = finish rest := by
        unfold normal
        simp only [hla, Bool.false_eq_true, if_false, hidx]
        rw [← hplen, hdrop']
        rcases hwin with hw | hw <;> rw [hw]
      refine ⟨?_, ?_⟩
      · simp [pending, hrl, hr0, hla, hskip, hne]
      · simp only [pending, hrl, hr0, hskip, hne, hla, Bool.false_and,
          Bool.false_eq_true, if_false, Bool.not_false, if_true, hnorm, finish]
        cases rest <;> simp
  · -- the first file of `rest` is partially applied
    subst hrest
    have hrl : revs.getLast? = some rp := by rw [hrevs]; simp
    obtain ⟨r0, hr0⟩ : ∃ r0, revs.head? = some r0 := by
      rw [hrevs]; cases rs <;> simp
    have hne : (pre ++ m :: post).isEmpty = false := by cases pre <;> rfl
    have hsall := st.sorted
    have hbs : bsearch (fun (f : MFile) => decide (f.version < rp.version))
        (fun (f : MFile) => f.version == rp.version) (pre ++ m :: post) = (pre.length, true) := by
      apply bsearch_found (fun (f : MFile) => f.version) (pre ++ m :: post) hsall rp.version pre.length
        (by simp)
      simp [hrpv]
    have hmck : ((pre ++ m :: post)[pre.length]!).checkpoint = false := by
      rw [getElem!_pos _ _ (by simp)]
      simp only [List.getElem_append_right (Nat.le_refl _), Nat.sub_self, List.getElem_cons_zero]
      exact st.nock m (by simp)
    have hidx : lastIndex (fun f => decide (f.version = rp.version)) (pre ++ m :: post) = some pre.length := by
      apply lastIndex_split pre m post
      · simp [hrpv]
      · intro x hx
        have h1 : m.version < x.version := by
          have := st.sorted
          unfold SortedV at this
          rw [List.map_append, List.pairwise_append] at this
          have h2 := this.2.1
          rw [List.map_cons, List.pairwise_cons] at h2
          exact h2.1 _ (List.mem_map_of_mem hx)
        rw [hrpv]
        simp only [decide_eq_false_iff_not]
        intro h; rw [h] at h1; exact String.lt_irrefl _ h1
    have hdrop : (pre ++ m :: post).drop pre.length = m :: post := by simp
    have hsr : (revs.map (·.version)).Pairwise (· < ·) := by
      rw [hrevs, List.map_append, hv]
      have := st.sorted
      unfold SortedV at this
      rw [List.map_append, List.pairwise_append] at this
      rw [List.pairwise_append]
      refine ⟨this.1, by simp, ?_⟩
      intro a ha b hb
      simp only [List.map_cons, List.map_nil, List.mem_singleton] at hb
      subst hb
      rw [hrpv]
      exact this.2.2 a ha _ (by simp)
    have hall : ∀ f ∈ pre, ∃ i, ∃ (hi : i < revs.length), revs[i].version = f.version := by
      intro f hf
      obtain ⟨i, hi, hfi⟩ := List.getElem_of_mem hf
      have hlen : rs.length = pre.length := by
        have := congrArg List.length hv; simpa using this
      refine ⟨i, by rw [hrevs]; simp; omega, ?_⟩
      have := congrArg (fun l => l[i]?) hv
      simp only [List.getElem?_map] at this
      rw [List.getElem?_eq_getElem (by omega), List.getElem?_eq_getElem hi] at this
      simp only [Option.map_some, Option.some.injEq] at this
      have hget : revs[i]'(by rw [hrevs]; simp; omega) = rs[i]'(by omega) := by
        simp only [hrevs]; rw [List.getElem_append_left]
      rw [hget, this, hfi]
    have hwin := window_empty cfg pre (m :: post) revs r0 hsr hall
    have hnorm : normal cfg (pre ++ m :: post) revs r0 rp = finish (m :: post) := by
      unfold normal
      have hpa : rp.partially = true := hrpa
      have hfn : (fun (f : MFile) => f.version == rp.version) = (fun f => decide (f.version = rp.version)) := by
        funext f; rfl
      simp only [hpa, if_true, hfn, hidx, hdrop]
      rcases hwin with hw | hw <;> rw [hw]
    have hpa : rp.partially = true := hrpa
    have hm : m.checkpoint = false := st.nock m (by simp)
    refine ⟨?_, ?_⟩
    · simp [pending, hrl, hr0, hpa, hskip, hne, hbs, hm]
    · simp [pending, hrl, hr0, hskip, hne, hpa, hbs, hm, hnorm, finish]


/-! ### `migrate set`: a resolved revision counts as applied -/

theorem complete_not_partially (r : Revision) (h : r.applied = r.total) : r.partially = false := by
  simp [Revision.partially, h]

theorem resolved_not_partially (r : Revision) (h : r.resolved = true) : r.partially = false := by
  simp [Revision.partially, h]

/-- **set_agrees**: after `atlas migrate set v` on a linear directory – every file up to `v` has a
revision that is completely applied *or* marked resolved (what `migrateSetRun` writes for a partially
applied / failed `v`: `Execute|Resolved`, and `Resolved` for files it records itself) – `Pending`
returns exactly the files after `v`: the version `set` reports as current is not run or resumed again. -/
theorem set_agrees (cfg : Cfg) (pre rest : List MFile) (revs : List Revision)
    (hb : cfg.baseline = "") (hc : cfg.clean = true)
    (nock : ∀ f ∈ pre ++ rest, f.checkpoint = false) (sorted : SortedV (pre ++ rest))
    (hv : revs.map (·.version) = pre.map (·.version))
    (hdone : ∀ r ∈ revs, r.applied = r.total ∨ r.resolved = true) :
    (pending cfg (pre ++ rest) revs).out = (if rest = [] then .error .noPending else .ok rest) :=
  (pending_linear cfg pre rest revs hb hc
    ⟨nock, sorted, .inl ⟨hv, fun r hr => (hdone r hr).elim (complete_not_partially r) (resolved_not_partially r)⟩⟩).2

/-- non-vacuity: version 1 failed after one of two statements and was then `set`; version 2 is what runs. -/
example :
    (match (pending {} [⟨"1_a.sql", "1", "a", [], false, ""⟩, ⟨"2_b.sql", "2", "b", [], false, ""⟩]
      [{ version := "1", typ := 6, applied := 1, total := 2 }]).out with
     | .ok l => l.map (·.version) | .error _ => []) = ["2"] := by decide

/-! ### the out-of-order window, the execution-order clauses, the baseline -/

/-- in a revision table sorted by version, the binary search of `outOfOrder` says "has a revision"
exactly for the versions that are in the table. -/
theorem has_revision_iff (revs : List Revision) (hs : (revs.map (·.version)).Pairwise (· < ·)) (v : String) :
    (bsearch (fun (r : Revision) => decide (r.version < v)) (fun (r : Revision) => r.version == v) revs).2 = true ↔
      v ∈ revs.map (·.version) := by
  constructor
  · intro h
    by_cases hm : v ∈ revs.map (·.version)
    · exact hm
    · have := bsearch_not_found (fun (r : Revision) => decide (r.version < v)) (fun (r : Revision) => r.version == v) revs
        (by intro x hx; simp; intro he; exact hm (List.mem_map.mpr ⟨x, hx, he⟩))
      rw [this] at h; cases h
  · intro hm
    obtain ⟨r, hr, hv⟩ := List.mem_map.mp hm
    obtain ⟨i, hi, hri⟩ := List.getElem_of_mem hr
    have := bsearch_found (fun (r : Revision) => r.version) revs hs v i hi (by rw [hri]; exact hv)
    rw [this]

/-- **out_of_order_exact**: when the window is examined, the skipped files are exactly the files of
the window `[first, idx)` that have no revision, in directory order. -/
theorem out_of_order_exact (cfg : Cfg) (migrations : List MFile) (revs : List Revision) (r0 : Revision) (idx first : Nat)
    (hs : (revs.map (·.version)).Pairwise (· < ·))
    (hf : indexFunc (fun f => decide (f.version ≥ r0.version)) (migrations.take idx) = some first)
    (hlt : first < idx) (ho : cfg.order ≠ .linearSkip) :
    outOfOrder cfg migrations revs r0 idx =
      some (((migrations.take idx).drop first).filter (fun f => decide (f.version ∉ revs.map (·.version)))) := by
  unfold outOfOrder
  rw [hf]
  have hcond : (decide (first < idx) && cfg.order != Order.linearSkip) = true := by
    simp [hlt, ho]
  simp only [hcond, if_true]
  congr 1
  apply List.filter_congr
  intro f _
  have := has_revision_iff revs hs f.version
  by_cases hm : f.version ∈ revs.map (·.version)
  · rw [this.mpr hm]; simp [hm]
  · have hb : (bsearch (fun (r : Revision) => decide (r.version < f.version)) (fun (r : Revision) => r.version == f.version) revs).2 = false := by
      cases hb' : (bsearch (fun (r : Revision) => decide (r.version < f.version)) (fun (r : Revision) => r.version == f.version) revs).2 with
      | false => rfl
      | true => exact absurd (this.mp hb') hm
    rw [hb]; simp [hm]

/-- **order_clauses**: what `Pending` does with a non-empty set of skipped (out-of-order) files:
`linear` rejects, `linear-skip` ignores them, `non-linear` runs them first. -/
theorem order_clauses (cfg : Cfg) (migrations : List MFile) (revs : List Revision) (r0 last : Revision)
    (idx0 : Nat) (s : MFile) (ss : List MFile)
    (hcomplete : last.partially = false)
    (hidx : lastIndex (fun f => decide (f.version ≤ last.version)) migrations = some idx0)
    (hskip : outOfOrder cfg migrations revs r0 (idx0 + 1) = some (s :: ss)) :
    normal cfg migrations revs r0 last =
      match cfg.order with
      | .nonLinear => finish ((s :: ss) ++ migrations.drop (idx0 + 1))
      | .linear => .error (.nonLinear (s :: ss) (migrations.drop (idx0 + 1)))
      | .linearSkip => finish (migrations.drop (idx0 + 1)) := by
  unfold normal
  simp only [hcomplete, Bool.false_eq_true, if_false, hidx, hskip]
  cases cfg.order <;> rfl

/-- **baseline_skips_le**: a first run with `--baseline v` writes the baseline revision for `v` and
returns exactly the files after `v` (none of `v` or before). -/
theorem baseline_skips_le (cfg : Cfg) (all pre post : List MFile) (b : MFile)
    (hsplit : skipCheckpoints all = pre ++ b :: post) (hb : cfg.baseline = b.version) (hne : b.version ≠ "")
    (hpost : ∀ f ∈ post, f.version ≠ b.version) :
    pending cfg all [] =
      ⟨some { version := b.version, desc := b.desc, typ := 1 },
       if post = [] then .error .noPending else .ok post⟩ := by
  have h1 : (!cfg.clean && !cfg.allowDirty && cfg.baseline == "") = false := by
    simp [hb, hne]
  have h2 : (cfg.baseline != "") = true := by simp [hb, hne]
  have hli : lastIndex (fun f => f.version == cfg.baseline) (pre ++ b :: post) = some pre.length := by
    apply lastIndex_split
    · simp [hb]
    · intro x hx; simp [hb, hpost x hx]
  simp only [pending, List.getLast?_nil, firstRun, h1, h2, Bool.false_eq_true, if_false, if_true, hsplit, hli]
  have hget : (pre ++ b :: post)[pre.length]! = b := by simp
  have hdrop : (pre ++ b :: post).drop (pre.length + 1) = post := by simp
  rw [hget, hdrop]
  cases post <;> simp



end Props.C11
