/-
C06 — Directory integrity: any tampering is detected, an untouched directory validates.

Model: `Atlas.Hash` (sql/migrate/dir.go: Files, NewHashFile, HashFile.Sum/MarshalText/UnmarshalText,
Validate). Theorems hold for every hash function `H`; every detection statement is a reduction to an
explicit hash collision (`Collision H`), never an injectivity assumption.

`Validate` compares only the header sums (`ac.Sum() != ex.Sum()`), and `Sum` hashes the entries
concatenated without separators, so besides a collision there is, in principle, a third way for a
changed directory to validate: two *different* entry lists with the same concatenation (a file name
would have to absorb bytes of a hash value). The general theorem `validate_detects` names that case
explicitly (`Framing`); `validate_detects_same_names` and `validate_detects_size_change` show it
cannot occur for the edits the property lists (content edits, swaps, additions, removals, renames to a
name of different length) when hash values have a fixed length.
-/
import Lemmas.Hash
import Lemmas.HashRoundTrip

namespace Props.C06
open Atlas Atlas.Hash

/-- the sum file written for these entries reads back as the same entries (`UnmarshalText ∘
MarshalText = id`). It holds when no file name contains a line break or leading/trailing white space
(see `roundTrip_example`; the excluded names are known finding `fresh-sum-invalid-for-blank-edged-name`). -/
def RoundTrip (H : Bytes → Bytes) (es : List Entry) : Prop := (unmarshal H (marshal H es)).toOption = some es

theorem RoundTrip.eq {H : Bytes → Bytes} {es : List Entry} (rt : RoundTrip H es) :
    unmarshal H (marshal H es) = .ok es := by
  unfold RoundTrip at rt
  cases h : unmarshal H (marshal H es) with
  | error e => rw [h] at rt; simp [Except.toOption] at rt
  | ok a => rw [h] at rt; simp [Except.toOption] at rt; rw [rt]

/-- two different entry lists whose concatenations N₁H₁N₂H₂… coincide. -/
def Framing (es es' : List Entry) : Prop := es ≠ es' ∧ concatEntries es = concatEntries es'

/-- **validate_after_write**: right after the sum file was written the directory validates. -/
theorem validate_after_write (H : Bytes → Bytes) (dir : List DFile)
    (rt : RoundTrip H (newHashFile H (files dir))) :
    validate H dir (some (writeSum H dir)) = .ok :=
  (validate_ok_iff H dir _ _ rt.eq).mpr rfl

/-- **validate_detects** (general form): if a directory validates against the sum file written for
another one, then the two list the same files with the same bytes – or a hash collision or a framing
coincidence is exhibited. (No `atlas:sum ignore` files; see `ignore_tail_undetected`.) -/
theorem validate_detects (H : Bytes → Bytes) (dir dir' : List DFile)
    (rt : RoundTrip H (newHashFile H (files dir)))
    (hi : NoIgnore (files dir)) (hi' : NoIgnore (files dir'))
    (hok : validate H dir' (some (writeSum H dir)) = .ok) :
    files dir' = files dir ∨ Collision H ∨
      Framing (newHashFile H (files dir)) (newHashFile H (files dir')) := by
  have hs := (validate_ok_iff H dir' _ _ rt.eq).mp hok
  rcases sum_eq_cases H _ _ hs with hc | hc
  · by_cases he : newHashFile H (files dir) = newHashFile H (files dir')
    · rcases entries_injective H _ _ [] hi hi' he with h | h
      · left; exact h.symm
      · right; left; exact h
    · right; right; exact ⟨he, hc⟩
  · right; left; exact hc

theorem entries_names (H : Bytes → Bytes) : ∀ (fs : List DFile) (acc : Bytes), NoIgnore fs →
    (newHashFileFrom H acc fs).map (·.1) = fs.map (·.name) := by
  intro fs
  induction fs with
  | nil => intro acc _; rfl
  | cons f fs ih =>
    intro acc h
    rw [newHashFileFrom_noIgnore_cons H acc f fs (h f (List.mem_cons_self ..))]
    simp [ih _ (fun x hx => h x (List.mem_cons_of_mem _ hx))]

theorem entries_hashlen (H : Bytes → Bytes) (L : Nat) (hL : ∀ x, (H x).length = L) :
    ∀ (fs : List DFile) (acc : Bytes), ∀ e ∈ newHashFileFrom H acc fs, e.2.length = L := by
  intro fs
  induction fs with
  | nil => intro acc e he; simp [newHashFileFrom] at he
  | cons f fs ih =>
    intro acc e he
    unfold newHashFileFrom at he
    split at he
    · exact ih _ e he
    · rcases List.mem_cons.mp he with rfl | he
      · exact hL _
      · exact ih _ e he

/-- **validate_detects_same_names**: edits that keep the set and order of file names (any byte
edited, inserted or deleted in any file, contents swapped, …) are detected: the directory validates
only if every file has the same bytes – or a hash collision is exhibited. -/
theorem validate_detects_same_names (H : Bytes → Bytes) (L : Nat) (hL : ∀ x, (H x).length = L)
    (dir dir' : List DFile) (rt : RoundTrip H (newHashFile H (files dir)))
    (hi : NoIgnore (files dir)) (hi' : NoIgnore (files dir'))
    (hn : (files dir').map (·.name) = (files dir).map (·.name))
    (hok : validate H dir' (some (writeSum H dir)) = .ok) :
    files dir' = files dir ∨ Collision H := by
  rcases validate_detects H dir dir' rt hi hi' hok with h | h | ⟨hne, hc⟩
  · left; exact h
  · right; exact h
  · exfalso
    apply hne
    apply concat_same_names L _ _ _ (entries_hashlen H L hL _ _) (entries_hashlen H L hL _ _) hc
    show (newHashFileFrom H [] (files dir)).map (·.1) = (newHashFileFrom H [] (files dir')).map (·.1)
    rw [entries_names H _ _ hi, entries_names H _ _ hi', hn]

/-- total size of the N₁H₁N₂H₂… string of a listing. -/
def frameSize (L : Nat) (fs : List DFile) : Nat := (fs.map (fun f => f.name.length + L)).sum

theorem entries_frameSize (H : Bytes → Bytes) (L : Nat) (hL : ∀ x, (H x).length = L) :
    ∀ (fs : List DFile) (acc : Bytes), NoIgnore fs →
      (concatEntries (newHashFileFrom H acc fs)).length = frameSize L fs := by
  intro fs
  induction fs with
  | nil => intro acc _; rfl
  | cons f fs ih =>
    intro acc h
    rw [newHashFileFrom_noIgnore_cons H acc f fs (h f (List.mem_cons_self ..)), concatEntries_cons]
    simp only [List.length_append, hL, frameSize, List.map_cons, List.sum_cons]
    have := ih (acc ++ f.name ++ f.content) (fun x hx => h x (List.mem_cons_of_mem _ hx))
    unfold frameSize at this
    omega

/-- **validate_detects_size_change**: a file added anywhere, a file removed, or a file renamed to a
name of another length changes the size of the framed string, and is therefore detected – or a hash
collision is exhibited. -/
theorem validate_detects_size_change (H : Bytes → Bytes) (L : Nat) (hL : ∀ x, (H x).length = L)
    (dir dir' : List DFile) (rt : RoundTrip H (newHashFile H (files dir)))
    (hi : NoIgnore (files dir)) (hi' : NoIgnore (files dir'))
    (hsz : frameSize L (files dir') ≠ frameSize L (files dir)) :
    validate H dir' (some (writeSum H dir)) ≠ .ok ∨ Collision H := by
  by_cases hok : validate H dir' (some (writeSum H dir)) = .ok
  · right
    have hs := (validate_ok_iff H dir' _ _ rt.eq).mp hok
    rcases sum_eq_cases H _ _ hs with hc | hc
    · exfalso
      have h1 := entries_frameSize H L hL (files dir) [] hi
      have h2 := entries_frameSize H L hL (files dir') [] hi'
      unfold newHashFile at hc
      rw [hc] at h1
      exact hsz (h2.symm.trans h1)
    · exact hc
  · left; exact hok

/-- **sumfile_edit_detected**: whatever bytes are put in atlas.sum, the directory validates only if
those bytes parse to entries whose header sum equals the header sum computed from the directory
(hence they state the same framed string, or a collision is exhibited). -/
theorem sumfile_edit_detected (H : Bytes → Bytes) (dir : List DFile) (b : Bytes)
    (hok : validate H dir (some b) = .ok) :
    ∃ ac, unmarshal H b = .ok ac ∧
      (concatEntries ac = concatEntries (newHashFile H (files dir)) ∨ Collision H) := by
  cases hu : unmarshal H b with
  | error e => rw [validate_unreadable H dir b e hu] at hok; cases hok
  | ok ac =>
    exact ⟨ac, rfl, sum_eq_cases H _ _ ((validate_ok_iff H dir b ac hu).mp hok)⟩

/-- a missing sum file is accepted only for a directory without migration files. -/
theorem missing_sum_file (H : Bytes → Bytes) (dir : List DFile) :
    validate H dir none = .ok ↔ files dir = [] := by
  unfold validate
  cases h : files dir <;> simp


/-! ### the round trip of the text format, for every well-formed directory -/

/-- a hash function whose output is a base64 text (no LF, CR or ':'), like `NewHashFile`'s. -/
def GoodH (H : Bytes → Bytes) : Prop := ∀ x, GoodHash (H x)

/-- a file name the sum-file format can carry: no line feed, and it survives `strings.TrimSpace`
with the separating blank appended (no leading / trailing Unicode white space, not empty). -/
def WFName (n : Bytes) : Prop := (∀ b ∈ n, b ≠ 0x0a) ∧ Atlas.Bytes.trimSpace (n ++ [0x20]) = n

theorem entries_wf (H : Bytes → Bytes) (hH : GoodH H) : ∀ (fs : List DFile) (acc : Bytes),
    (∀ f ∈ fs, WFName f.name) → ∀ e ∈ newHashFileFrom H acc fs, WFEntry e := by
  intro fs
  induction fs with
  | nil => intro _ _ e he; simp [newHashFileFrom] at he
  | cons f t ih =>
    intro acc hn e he
    unfold newHashFileFrom at he
    split at he
    · exact ih _ (fun g hg => hn g (List.mem_cons_of_mem _ hg)) e he
    · rcases List.mem_cons.mp he with rfl | he
      · have := hn f (List.mem_cons_self ..)
        exact ⟨this.1, this.2, hH _⟩
      · exact ih _ (fun g hg => hn g (List.mem_cons_of_mem _ hg)) e he

/-- **roundTrip_general**: `UnmarshalText (MarshalText es) = es` for every list of well-formed
entries (any number of files). -/
theorem roundTrip_general (H : Bytes → Bytes) (hH : GoodH H) (es : List Entry)
    (hwf : ∀ e ∈ es, WFEntry e) : RoundTrip H es := by
  unfold RoundTrip
  rw [unmarshal_marshal H es (hH _) hwf]
  rfl

/-- the sum file of every directory whose file names are well-formed reads back. -/
theorem roundTrip_dir (H : Bytes → Bytes) (hH : GoodH H) (dir : List DFile)
    (hn : ∀ f ∈ files dir, WFName f.name) : RoundTrip H (newHashFile H (files dir)) :=
  roundTrip_general H hH _ (entries_wf H hH (files dir) [] hn)

/-- **validate_after_write_wf**: for every directory with well-formed file names (any number of
files, any contents), the directory validates right after its sum file was written. -/
theorem validate_after_write_wf (H : Bytes → Bytes) (hH : GoodH H) (dir : List DFile)
    (hn : ∀ f ∈ files dir, WFName f.name) : validate H dir (some (writeSum H dir)) = .ok :=
  validate_after_write H dir (roundTrip_dir H hH dir hn)

/-- **validate_detects_wf**: `validate_detects` without the round-trip hypothesis. -/
theorem validate_detects_wf (H : Bytes → Bytes) (hH : GoodH H) (dir dir' : List DFile)
    (hn : ∀ f ∈ files dir, WFName f.name)
    (hi : NoIgnore (files dir)) (hi' : NoIgnore (files dir'))
    (hok : validate H dir' (some (writeSum H dir)) = .ok) :
    files dir' = files dir ∨ Collision H ∨
      Framing (newHashFile H (files dir)) (newHashFile H (files dir')) :=
  validate_detects H dir dir' (roundTrip_dir H hH dir hn) hi hi' hok

/-! ### non-vacuity and the recorded findings (tests by evaluation, toy hash) -/

/-- a toy "hash" of fixed length 4 over the letters A..P, used only by the examples. -/
def toyH (b : Bytes) : Bytes :=
  [65 + UInt8.ofNat (b.length % 16), 65 + (b.foldl (· + ·) 0) % 16, 65 + (b.headD 0) % 16, 65 + (b.getLastD 0) % 16]

def n1 : Bytes := ascii ['1', '_', 'a', '.', 's', 'q', 'l']
def n2 : Bytes := ascii ['2', '_', 'b', '.', 's', 'q', 'l']
def dirA : List DFile :=
  [⟨n2, ascii ['B', ';', '\n']⟩, ⟨n1, ascii ['A', ';', '\n']⟩, ⟨ascii ['n', '.', 'm', 'd'], ascii ['x']⟩]

/-- the hypotheses are satisfiable: the listing is sorted and filtered, the written sum file reads back. -/
example : (files dirA).map (·.name) = [n1, n2] := by decide
theorem roundTrip_example : RoundTrip toyH (newHashFile toyH (files dirA)) := by unfold RoundTrip; decide
example : validate toyH dirA (some (writeSum toyH dirA)) = .ok := by decide
example : NoIgnore (files dirA) := by unfold NoIgnore; decide
example : WFName n1 ∧ WFName n2 := by unfold WFName; decide
/-- the hypotheses of the `_wf` theorems are satisfiable (a two-letter constant "hash"). -/
example : GoodH (fun _ => [65, 66]) := by
  intro x b hb
  simp only [List.mem_cons, List.not_mem_nil, or_false] at hb
  rcases hb with rfl | rfl <;> decide
example : validate (fun _ => [65, 66]) dirA (some (writeSum (fun _ => [65, 66]) dirA)) = .ok := by decide

def ignoreFile : DFile :=
  ⟨ascii ['9', '_', 'z', '.', 's', 'q', 'l'],
   ascii ['-', '-', ' ', 'a', 't', 'l', 'a', 's', ':', 's', 'u', 'm', ' ', 'i', 'g', 'n', 'o', 'r', 'e', '\n', 'D', ';']⟩

example : sumIgnore ignoreFile.content = true := by decide

/-- known finding (by design of the directive): a file carrying `atlas:sum ignore` that is added
after the last file is not seen by `Validate`. -/
theorem ignore_tail_undetected :
    validate toyH (dirA ++ [ignoreFile]) (some (writeSum toyH dirA)) = .ok := by decide

def blankName : List DFile := [⟨ascii [' ', '1', '.', 's', 'q', 'l'], ascii ['A', ';']⟩]

/-- known finding: a file name with a leading blank does not survive `UnmarshalText`'s `TrimSpace`;
the freshly written sum file is rejected. -/
theorem blank_edged_name_rejected : validate toyH blankName (some (writeSum toyH blankName)) ≠ .ok := by
  decide

/-- **only_migration_files_count**: the written sum and the verdict of `Validate` depend on the directory
only through its migration files (`files`): entries that are not migration files — the sum file itself,
sub-directories, files without the `.sql` suffix — can be added, removed or changed without any effect. -/
theorem only_migration_files_count (H : Bytes → Bytes) (dir dir' : List DFile) (h : files dir' = files dir) :
    writeSum H dir' = writeSum H dir ∧ ∀ sum, validate H dir' sum = validate H dir sum := by
  refine ⟨by unfold writeSum; rw [h], fun sum => ?_⟩
  unfold validate
  rw [h]

/-- hence a directory still validates after such entries changed. -/
theorem validate_after_write_other_entries (H : Bytes → Bytes) (dir dir' : List DFile)
    (rt : RoundTrip H (newHashFile H (files dir))) (h : files dir' = files dir) :
    validate H dir' (some (writeSum H dir)) = .ok := by
  rw [(only_migration_files_count H dir dir' h).2]
  exact validate_after_write H dir rt

end Props.C06
