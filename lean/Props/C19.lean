/-
C19 — Excluded resources and skipped change kinds never reach a plan.

Model: `Atlas.Exclude` (schema.ExcludeRealm with the `[type=…]` selector and `path/filepath.Match`),
validated against the implementation on a pattern grid, and a model of `DiffOptions.AddOrSkip`.

Proved here, for realms / tables / change lists of any size and any pattern:
* `filterE_spec` – the generic filter keeps exactly the elements the predicate does not match;
* `filterE_error`, `filterE_sublist` – an error of any match reaches the caller; a filter only removes;
* `unmatched_schema_untouched` – a schema whose name no pattern matches comes out unchanged, with
  all its tables, views and children (the "still present and managed" half);
* `single_part_match_excludes` – a one-part pattern matching the schema's name removes the schema;
* `excludeRealm_length_le` – exclusion never adds schemas;
* `table_excluded_absent`, `schema_excluded_absent`, `excluded_never_added` (over `Lemmas/ExcludeAbsent.lean`)
  – for ANY realm and ANY accepted pattern list, wherever the pattern stands in the list: no table of the
  result is matched (with its schema) by a `schema.table` pattern, no schema by a one-part pattern, and
  every table of the result is a table of the input – the "never reaches the differ/planner" half;
* `skip_sound`, `skip_complete` – a list built with `AddOrSkip` contains no skipped kind and contains
  every other change, in order.

* `skip_nested_sound`, `skip_nested_complete`, `skip_nothing` – over the differ model of C02
  (`Atlas.Diff.schemaDiffSkip`, tied to the real `SchemaDiff(…, DiffSkipChanges(…))` of the three dialects by
  the C02/C19 correspondence): for ANY pair of schemas and ANY skip list, no change of a skipped kind is
  reported at either nesting level and no table modification is left empty; every change of another kind
  that the unrestricted diff reports is still reported (inside its table's modification when that one is
  not skipped itself); an empty skip list changes nothing.

PARTIAL: triggers / functions / procedures / realm objects are not modelled; the kinds of table-attribute
changes (AddAttr / DropAttr / ModifyAttr) are one abstract kind.
-/
import Atlas.Exclude
import Atlas.Diff
import Lemmas.ExcludeAbsent

namespace Props.C19
open Atlas Atlas.Exclude

/-- **filterE_spec**: when the predicate never errors, `filter` keeps exactly the non-matching elements. -/
theorem filterE_spec {α : Type} (f : α → Except Unit Bool) (g : α → Bool) :
    ∀ (l : List α), (∀ a ∈ l, f a = .ok (g a)) → filterE f l = .ok (l.filter (fun a => !g a)) := by
  intro l
  induction l with
  | nil => intro _; rfl
  | cons a as ih =>
    intro h
    have ha := h a (List.mem_cons_self ..)
    have ih' := ih (fun x hx => h x (List.mem_cons_of_mem _ hx))
    unfold filterE
    rw [ha, ih']
    cases hg : g a <;> simp [List.filter_cons, hg]

/-- an error of the predicate on any element makes the whole filter fail (repaired tree: the error
reaches the caller). -/
theorem filterE_error {α : Type} (f : α → Except Unit Bool) :
    ∀ (l : List α), (∃ a ∈ l, f a = .error ()) → filterE f l = .error () := by
  intro l
  induction l with
  | nil => intro ⟨_, h, _⟩; cases h
  | cons a as ih =>
    intro ⟨x, hx, hfx⟩
    unfold filterE
    cases hfa : f a with
    | error e => rfl
    | ok m =>
      rcases List.mem_cons.mp hx with rfl | hx'
      · rw [hfa] at hfx; cases hfx
      · simp only
        rw [ih ⟨x, hx', hfx⟩]

/-- result of `filterE` is a sublist of its input. -/
theorem filterE_sublist {α : Type} (f : α → Except Unit Bool) :
    ∀ (l r : List α), filterE f l = .ok r → r.Sublist l := by
  intro l
  induction l with
  | nil => intro r h; simp [filterE] at h; subst h; exact List.Sublist.refl _
  | cons a as ih =>
    intro r h
    unfold filterE at h
    cases hfa : f a with
    | error e => rw [hfa] at h; cases h
    | ok m =>
      rw [hfa] at h
      simp only at h
      cases hr : filterE f as with
      | error e => rw [hr] at h; cases h
      | ok r' =>
        rw [hr] at h
        simp only [Except.ok.injEq] at h
        have := ih r' hr
        subst h
        cases m
        · exact List.Sublist.cons₂ a this
        · exact List.Sublist.cons a this

/-- **unmatched_schema_untouched**: if every pattern's first part either does not select schemas or
does not match the schema's name, the schema comes out of `ExcludeRealm` exactly as it went in. -/
theorem unmatched_schema_untouched (s : Schema) :
    ∀ (globs : List (List Text)),
      (∀ g ∈ globs, g.length ≤ 3 ∧
        ((schemaSel g).2 = false ∨ gmatch (schemaSel g).1 s.name = .ok false)) →
      excludeSchemaGlobs globs s = .ok (some s) := by
  intro globs
  induction globs with
  | nil => intro _; rfl
  | cons g gs ih =>
    intro h
    obtain ⟨hlen, hg⟩ := h g (List.mem_cons_self ..)
    have ih' := ih (fun x hx => h x (List.mem_cons_of_mem _ hx))
    unfold excludeSchemaGlobs
    rw [if_neg (by omega)]
    by_cases hsel : (schemaSel g).2 = false
    · rw [if_pos hsel]; exact ih'
    · rw [if_neg hsel]
      rcases hg with h1 | h1
      · exact absurd h1 hsel
      · rw [h1]; exact ih'

/-- **single_part_match_excludes**: a one-part pattern that selects schemas and matches the name
removes the schema, whatever patterns follow. -/
theorem single_part_match_excludes (s : Schema) (g : List Text) (gs : List (List Text))
    (h1 : g.length = 1) (hsel : (schemaSel g).2 = true)
    (hm : gmatch (schemaSel g).1 s.name = .ok true) :
    excludeSchemaGlobs (g :: gs) s = .ok none := by
  unfold excludeSchemaGlobs
  rw [if_neg (by omega), if_neg (by simp [hsel]), hm]
  simp [h1]

/-- **excludeRealm_names_sublist**: the schemas of the result are schemas of the input, in order
(identified by name). -/
theorem excludeRealm_length_le (globs : List (List Text)) :
    ∀ (r r' : Realm), excludeRealm globs r = .ok r' → r'.length ≤ r.length := by
  intro r
  induction r with
  | nil => intro r' h; simp [excludeRealm] at h; subst h; exact Nat.le_refl _
  | cons s ss ih =>
    intro r' h
    unfold excludeRealm at h
    cases hs : excludeSchemaGlobs globs s with
    | error e => rw [hs] at h; cases h
    | ok x =>
      rw [hs] at h
      simp only at h
      cases hr : excludeRealm globs ss with
      | error e => rw [hr] at h; cases h
      | ok rest =>
        rw [hr] at h
        simp only [Except.ok.injEq] at h
        have := ih rest hr
        subst h
        cases x <;> simp <;> omega

/-! ### excluded resources are absent from the result (any realm, any pattern list) -/

/-- the table glob of a two-part pattern and whether its selector allows tables. -/
def tableSel (g : List Text) : Text × Bool := excludeType "table".toList ((g.drop 1).headD [])

/-- for one schema: after ALL patterns were applied, no table is left that a two-part pattern
`schema.table` (both selectors allowing) matches – whatever patterns come before or after it. -/
theorem table_absent_schema : ∀ (gs : List (List Text)) (s s' : Schema),
    excludeSchemaGlobs gs s = .ok (some s') →
    ∀ g ∈ gs, g.length = 2 → (schemaSel g).2 = true → (tableSel g).2 = true →
      gmatch (schemaSel g).1 s.name = .ok true →
      ∀ t' ∈ s'.tables, gmatch (tableSel g).1 t'.name = .ok false := by
  intro gs
  induction gs with
  | nil => intro s s' _ g hg; cases hg
  | cons g0 gs ih =>
    intro s s' h g hg hlen hss hts hm t' ht'
    rcases List.mem_cons.mp hg with rfl | hmem
    · -- the pattern itself: its step removes every matching table, later steps only remove
      unfold excludeSchemaGlobs at h
      rw [if_neg (by omega), if_neg (by simp [hss]), hm] at h
      simp only [hlen] at h
      rw [if_neg (by decide)] at h
      split at h
      · cases h
      · rename_i s1 hs1
        obtain ⟨g1, hg1⟩ : ∃ g1, g.drop 1 = [g1] := by
          match g, hlen with
          | [_, b], _ => exact ⟨b, rfl⟩
        have hsel1 : (excludeType "table".toList g1).2 = true := by
          have := hts; unfold tableSel at this; rw [hg1] at this; exact this
        rw [hg1] at hs1
        have hnone := excludeS_single s g1 s1 hs1 hsel1
        obtain ⟨_, hsub⟩ := excludeSchemaGlobs_sub gs s1 s' h
        obtain ⟨t1, ht1, hname⟩ := hsub t' ht'
        have : (tableSel g).1 = (excludeType "table".toList g1).1 := by unfold tableSel; rw [hg1]; rfl
        rw [this, hname]
        exact hnone t1 ht1
    · -- a later pattern: whatever this step does, the name of the schema stays
      unfold excludeSchemaGlobs at h
      split at h
      · cases h
      · split at h
        · exact ih s s' h g hmem hlen hss hts hm t' ht'
        · split at h
          · cases h
          · exact ih s s' h g hmem hlen hss hts hm t' ht'
          · split at h
            · cases h
            · split at h
              · cases h
              · rename_i s1 hs1
                obtain ⟨hn1, _⟩ := excludeS_sub s _ s1 hs1
                exact ih s1 s' h g hmem hlen hss hts (by rw [hn1]; exact hm) t' ht'

/-- **table_excluded_absent**: for ANY realm and ANY list of patterns that `ExcludeRealm` accepts: no
schema of the result holds a table that a pattern `schema.table` (selectors allowing) matches together
with its schema – the excluded tables are absent from what the differ and the planner are given. -/
theorem table_excluded_absent (globs : List (List Text)) (r r' : Realm) (h : excludeRealm globs r = .ok r')
    (g : List Text) (hg : g ∈ globs) (hlen : g.length = 2) (hss : (schemaSel g).2 = true) (hts : (tableSel g).2 = true) :
    ∀ s' ∈ r', gmatch (schemaSel g).1 s'.name = .ok true →
      ∀ t' ∈ s'.tables, gmatch (tableSel g).1 t'.name = .ok false := by
  intro s' hs' hm t' ht'
  obtain ⟨s, _, hsg⟩ := excludeRealm_mem globs r r' h s' hs'
  obtain ⟨hn, _⟩ := excludeSchemaGlobs_sub globs s s' hsg
  exact table_absent_schema globs s s' hsg g hg hlen hss hts (by rw [← hn]; exact hm) t' ht'

/-- for one schema: a one-part pattern that matches its name excludes it, wherever the pattern stands. -/
theorem schema_absent_schema : ∀ (gs : List (List Text)) (s s' : Schema),
    excludeSchemaGlobs gs s = .ok (some s') →
    ∀ g ∈ gs, g.length = 1 → (schemaSel g).2 = true → gmatch (schemaSel g).1 s.name ≠ .ok true := by
  intro gs
  induction gs with
  | nil => intro s s' _ g hg; cases hg
  | cons g0 gs ih =>
    intro s s' h g hg hlen hss hm
    rcases List.mem_cons.mp hg with rfl | hmem
    · rw [single_part_match_excludes s g gs hlen hss hm] at h
      cases h
    · unfold excludeSchemaGlobs at h
      split at h
      · cases h
      · split at h
        · exact ih s s' h g hmem hlen hss hm
        · split at h
          · cases h
          · exact ih s s' h g hmem hlen hss hm
          · split at h
            · cases h
            · split at h
              · cases h
              · rename_i s1 hs1
                obtain ⟨hn1, _⟩ := excludeS_sub s _ s1 hs1
                exact ih s1 s' h g hmem hlen hss (by rw [hn1]; exact hm)

/-- **schema_excluded_absent**: for ANY realm and pattern list: no schema of the result is matched by a
one-part pattern that selects schemas. -/
theorem schema_excluded_absent (globs : List (List Text)) (r r' : Realm) (h : excludeRealm globs r = .ok r')
    (g : List Text) (hg : g ∈ globs) (hlen : g.length = 1) (hss : (schemaSel g).2 = true) :
    ∀ s' ∈ r', gmatch (schemaSel g).1 s'.name ≠ .ok true := by
  intro s' hs' hm
  obtain ⟨s, _, hsg⟩ := excludeRealm_mem globs r r' h s' hs'
  obtain ⟨hn, _⟩ := excludeSchemaGlobs_sub globs s s' hsg
  exact schema_absent_schema globs s s' hsg g hg hlen hss (by rw [← hn]; exact hm)

/-- **excluded_never_added**: every table of the result is (by name) a table of the same-named input
schema: exclusion never invents or renames a resource. -/
theorem excluded_never_added (globs : List (List Text)) (r r' : Realm) (h : excludeRealm globs r = .ok r') :
    ∀ s' ∈ r', ∃ s ∈ r, s'.name = s.name ∧ ∀ t' ∈ s'.tables, ∃ t ∈ s.tables, t'.name = t.name := by
  intro s' hs'
  obtain ⟨s, hs, hsg⟩ := excludeRealm_mem globs r r' h s' hs'
  obtain ⟨hn, ht⟩ := excludeSchemaGlobs_sub globs s s' hsg
  exact ⟨s, hs, hn, ht⟩

/-- non-vacuity: `main.tmp_*` between two other patterns; the hypotheses of `table_excluded_absent` hold and
the table `tmp_a` is gone while `users` stays. -/
def exRealm : Realm := [{ name := "main".toList, tables := [{ name := "users".toList }, { name := "tmp_a".toList }] }]
def exGlobs : List (List Text) := [["other".toList], ["main".toList, "tmp_*".toList], ["main".toList, "users".toList, "c*".toList]]

example : (excludeRealm exGlobs exRealm).toOption =
    some [{ name := "main".toList, tables := [{ name := "users".toList }] }] := by decide
example : (["main".toList, "tmp_*".toList] : List Text) ∈ exGlobs ∧
    (schemaSel ["main".toList, "tmp_*".toList]).2 = true ∧ (tableSel ["main".toList, "tmp_*".toList]).2 = true ∧
    (gmatch (schemaSel ["main".toList, "tmp_*".toList]).1 "main".toList).toOption = some true ∧
    (gmatch (tableSel ["main".toList, "tmp_*".toList]).1 "tmp_a".toList).toOption = some true := by decide

/-! ### skipped change kinds (`DiffOptions.AddOrSkip`) -/

/-- `AddOrSkip(changes, cs...)` with change kinds as tags: appends the changes that are not skipped. -/
def addOrSkip {κ : Type} [DecidableEq κ] (skip : List κ) (kind : α → κ) (changes : List α) (cs : List α) : List α :=
  changes ++ cs.filter (fun c => !skip.contains (kind c))

/-- **skip_sound**: a list that contains no skipped kind still contains none after `AddOrSkip`. -/
theorem skip_sound {α κ : Type} [DecidableEq κ] (skip : List κ) (kind : α → κ) (changes cs : List α)
    (h : ∀ c ∈ changes, kind c ∉ skip) : ∀ c ∈ addOrSkip skip kind changes cs, kind c ∉ skip := by
  intro c hc
  unfold addOrSkip at hc
  rcases List.mem_append.mp hc with h1 | h1
  · exact h c h1
  · have := (List.mem_filter.mp h1).2
    simpa using this

/-- **skip_complete**: every change that is not skipped is added, in order. -/
theorem skip_complete {α κ : Type} [DecidableEq κ] (skip : List κ) (kind : α → κ) (changes cs : List α) :
    addOrSkip skip kind changes cs = changes ++ cs.filter (fun c => kind c ∉ skip) := by
  unfold addOrSkip
  congr 1
  apply List.filter_congr
  intro c _
  simp

/-! ### non-vacuity (tests by evaluation) -/

def t1 : Table :=
  { name := "t1".toList, columns := ["c1".toList, "c2".toList, "id".toList],
    indexes := [{ name := "i1".toList, cols := ["c1".toList] }, { name := "i2".toList, cols := ["id".toList] }],
    fks := [], checks := ["k1".toList] }

/-- `c[12]` removes c1 and c2, and the index built on c1 goes with it. -/
example : (excludeT t1 "c[12]".toList).toOption.map (fun t => (t.columns, t.indexes.map (·.name))) =
    some (["id".toList], ["i2".toList]) := by decide

/-- with the selector `[type=column]` the dependent index stays. -/
example : (excludeT t1 "c[12][type=column]".toList).toOption.map (fun t => (t.columns, t.indexes.map (·.name))) =
    some (["id".toList], ["i1".toList, "i2".toList]) := by decide

/-- a malformed child pattern is an error (it used to wipe the table silently). -/
example : (excludeT t1 "c[".toList).toOption = none := by decide

/-! ### skipped kinds at every nesting level of the schema diff -/

open Atlas.Diff in
/-- **skip_nested_sound**: no reported change is of a skipped kind, at the top level or inside a table
modification, and no table modification is empty. -/
theorem skip_nested_sound (sk : List Kind) (frm to : List Atlas.Diff.Table) (c : Atlas.Diff.Change)
    (hc : c ∈ schemaDiffSkip sk frm to) :
    sk.contains c.kind = false ∧
    ∀ n subs, c = .modifyTable n subs → subs ≠ [] ∧ ∀ s ∈ subs, sk.contains s.kind = false := by
  unfold schemaDiffSkip skipDiff at hc
  rw [List.mem_filterMap] at hc
  obtain ⟨c0, _, h0⟩ := hc
  cases c0 with
  | modifyTable n subs =>
    simp only [skipC] at h0
    split at h0
    · cases h0
    · rename_i hcond
      simp only [Bool.or_eq_true, not_or, Bool.not_eq_true] at hcond
      simp only [Option.some.injEq] at h0
      subst h0
      refine ⟨hcond.2, ?_⟩
      intro n' subs' he
      cases he
      refine ⟨?_, ?_⟩
      · intro hnil; rw [hnil] at hcond; simp at hcond
      · intro s hs
        simp only [skipT, List.mem_filter, Bool.not_eq_true'] at hs
        exact hs.2
  | dropTable n =>
    simp only [skipC] at h0
    split at h0
    · cases h0
    · rename_i hk
      simp only [Option.some.injEq] at h0; subst h0
      exact ⟨by simpa using hk, fun _ _ he => by cases he⟩
  | addTable n =>
    simp only [skipC] at h0
    split at h0
    · cases h0
    · rename_i hk
      simp only [Option.some.injEq] at h0; subst h0
      exact ⟨by simpa using hk, fun _ _ he => by cases he⟩

open Atlas.Diff in
/-- **skip_nested_complete**: every change of an unskipped kind that the unrestricted diff reports is
still reported: a table addition / drop as it is; a sub-change inside the modification of its table,
unless table modifications are skipped altogether. -/
theorem skip_nested_complete (sk : List Kind) (frm to : List Atlas.Diff.Table) (c : Atlas.Diff.Change)
    (hc : c ∈ schemaDiff frm to) (hk : sk.contains c.kind = false) :
    (∀ n subs, c ≠ .modifyTable n subs) → c ∈ schemaDiffSkip sk frm to := by
  intro hnm
  unfold schemaDiffSkip skipDiff
  rw [List.mem_filterMap]
  refine ⟨c, hc, ?_⟩
  cases c with
  | modifyTable n subs => exact absurd rfl (hnm n subs)
  | dropTable n => simp only [skipC]; rw [if_neg (by simpa using hk)]
  | addTable n => simp only [skipC]; rw [if_neg (by simpa using hk)]

open Atlas.Diff in
theorem skip_nested_complete_sub (sk : List Kind) (frm to : List Atlas.Diff.Table) (n : Nat) (subs : List TChange)
    (hc : Change.modifyTable n subs ∈ schemaDiff frm to) (hm : sk.contains Kind.modifyTable = false)
    (s : TChange) (hs : s ∈ subs) (hk : sk.contains s.kind = false) :
    ∃ subs', Change.modifyTable n subs' ∈ schemaDiffSkip sk frm to ∧ s ∈ subs' ∧ subs' = skipT sk subs := by
  refine ⟨skipT sk subs, ?_, ?_, rfl⟩
  · unfold schemaDiffSkip skipDiff
    rw [List.mem_filterMap]
    refine ⟨_, hc, ?_⟩
    simp only [skipC]
    have hne : (skipT sk subs).isEmpty = false := by
      cases h : skipT sk subs with
      | nil =>
        have hk' : s.kind ∉ sk := by simpa using hk
        have : s ∈ skipT sk subs := by simp [skipT, hs, hk']
        rw [h] at this; cases this
      | cons _ _ => rfl
    rw [hne, hm]; rfl
  · have hk' : s.kind ∉ sk := by simpa using hk
    simp [skipT, hs, hk']

open Atlas.Diff in
/-- **skip_nothing**: an empty skip list changes nothing (no table modification of the diff is empty). -/
theorem skip_nothing (cs : List Atlas.Diff.Change) (hne : ∀ n, Change.modifyTable n [] ∉ cs) : skipDiff [] cs = cs := by
  unfold skipDiff
  induction cs with
  | nil => rfl
  | cons c rest ih =>
    have ih' := ih (fun n h => hne n (List.mem_cons_of_mem _ h))
    rw [List.filterMap_cons]
    cases c with
    | modifyTable n subs =>
      have : subs ≠ [] := fun h => hne n (by rw [h]; exact List.mem_cons_self ..)
      have hs : skipT [] subs = subs := by simp [skipT]
      simp only [skipC, hs]
      cases subs with
      | nil => exact absurd rfl this
      | cons _ _ => simp [ih']
    | dropTable n => simp [skipC, ih']
    | addTable n => simp [skipC, ih']

open Atlas.Diff in
example : schemaDiffSkip [.addColumn, .dropTable]
    [{ name := 1, cols := [⟨1, [0]⟩] }, { name := 2, cols := [] }]
    [{ name := 1, cols := [⟨1, [0]⟩, ⟨2, [0]⟩], idxs := [⟨some 1, false, false, [⟨1, false, 0⟩], 0⟩] }] =
    [.modifyTable 1 [.addIndex ⟨some 1, false, false, [⟨1, false, 0⟩], 0⟩]] := by decide

section SkipIdem
open Atlas.Diff

theorem skipT_idem (sk : List Kind) (cs : List TChange) : skipT sk (skipT sk cs) = skipT sk cs := by
  simp [skipT, List.filter_filter]

theorem skipC_idem (sk : List Kind) (c c' : Change) (h : skipC sk c = some c') : skipC sk c' = some c' := by
  cases c with
  | modifyTable n subs =>
    simp only [skipC] at h
    split at h
    · cases h
    · rename_i hne
      cases h
      simp only [skipC, skipT_idem]
      rw [if_neg hne]
  | dropTable n =>
    simp only [skipC] at h
    split at h
    · cases h
    · cases h; simp only [skipC]; rename_i hne; rw [if_neg hne]
  | addTable n =>
    simp only [skipC] at h
    split at h
    · cases h
    · cases h; simp only [skipC]; rename_i hne; rw [if_neg hne]

/-- **skip_idempotent**: filtering an already filtered change list with the same skip list changes nothing
(what is left holds no skipped kind and no emptied table modification) — change lists of any length and nesting. -/
theorem skip_idempotent (sk : List Kind) : ∀ (cs : List Change), skipDiff sk (skipDiff sk cs) = skipDiff sk cs := by
  intro cs
  unfold skipDiff
  induction cs with
  | nil => rfl
  | cons c cs ih =>
    rw [List.filterMap_cons]
    cases hc : skipC sk c with
    | none => exact ih
    | some c' =>
      simp only [List.filterMap_cons, skipC_idem sk c c' hc]
      rw [ih]

/-- the filtered list never gets longer, and top-level order is kept. -/
theorem skip_length_le (sk : List Kind) (cs : List Change) : (skipDiff sk cs).length ≤ cs.length := by
  unfold skipDiff
  exact List.length_filterMap_le _ _

end SkipIdem

end Props.C19
