/-
C12 — Resuming a partially applied file whose applied part changed is refused, cleanly.

Model: `Atlas.Exec.execute` (sql/migrate/migrate.go `(*Executor).Execute`), every index expression
explicit (`Res.panic`). All theorems are for every hash function `H`, every world `w` (any
journal, any other revisions, ANY fault schedule unless stated), every file and every edit of it.
-/
import Lemmas.Exec

namespace Props.C12
open Atlas Atlas.Exec

/-- The revision table holds a partially applied revision for `m`'s version that was written while
the file consisted of the statements `old`: `k ≥ 1` statements applied and their cumulative hashes
recorded (this is exactly what `execute` persists when statement `k` of `old` fails, see
`partial_state_reachable`). -/
structure PartiallyApplied (H : Text → String) (w : World) (m : MFile) (old : List Text) (k : Nat)
    (r : Revision) : Prop where
  found : findRev m.version w.revs = some r
  applied : r.applied = k
  kpos : 0 < k
  kle : k ≤ old.length
  hashes : r.partialHashes = (sums H old).take k

/-! ### the property theorems -/

theorem partial_len {H : Text → String} {w : World} {m : MFile} {old : List Text} {k : Nat}
    {r : Revision} (hp : PartiallyApplied H w m old k r) : r.applied ≤ r.partialHashes.length := by
  rw [hp.hashes, hp.applied]; simp [List.length_take, hp.kle]

/-- **never_panics**: resuming a partially applied file never hits an out-of-range index, whatever
the file looks like now (fewer statements than were applied included) and whatever fails. -/
theorem never_panics {H : Text → String} {w : World} {m : MFile} {old : List Text} {k : Nat}
    {r : Revision} (hp : PartiallyApplied H w m old k r) :
    (execute true H w m).2 ≠ .panic := by
  have hload : loadRev w m = r := by unfold loadRev; rw [hp.found]
  unfold execute; rw [hload]
  rcases hW : writeRevision w r with ⟨w1, b1⟩
  cases b1 with
  | true => rw [executeFrom_fail hW]; simp
  | false =>
    rw [executeFrom_ok hW]
    have hk : r.applied > 0 := by rw [hp.applied]; exact hp.kpos
    have hnp := checkLoop_no_panic (sums H m.stmts) r.partialHashes r.applied (partial_len hp) (r.applied + 1) 0
    rcases hC : checkOf true H m r with _ | (i | u)
    · rw [afterStart_none hC]
      have hC' : checkLoop true (sums H m.stmts) r.partialHashes r.applied (r.applied + 1) 0 = none := by
        unfold checkOf at hC; simpa [hk] using hC
      have hag := checkLoop_none (r.applied + 1) 0 (by omega) hC'
      have hle : r.applied ≤ m.stmts.length := by
        have := (hag (r.applied - 1) (by omega) (by omega)).1
        simp at this; omega
      exact (runStmts_res hle).1
    · rw [afterStart_inl hC]; simp [deferred]
    · exfalso; apply hnp; unfold checkOf at hC; simpa [hk] using hC

/-- **changed_prefix_refused**: if the first `k` statements of the file are no longer the ones that
were applied (edited, reordered, removed, or fewer than `k` statements left), the run ends with the
history-changed error – or its very first bookkeeping write failed – unless two different texts with
the same hash are exhibited. -/
theorem changed_prefix_refused {H : Text → String} {w : World} {m : MFile} {old : List Text} {k : Nat}
    {r : Revision} (hp : PartiallyApplied H w m old k r) (hch : m.stmts.take k ≠ old.take k) :
    (∃ i b, (execute true H w m).2 = .historyChanged i b) ∨ (execute true H w m).2 = .writeRev ∨
    Collision H := by
  have hload : loadRev w m = r := by unfold loadRev; rw [hp.found]
  unfold execute; rw [hload]
  rcases hW : writeRevision w r with ⟨w1, b1⟩
  cases b1 with
  | true => rw [executeFrom_fail hW]; right; left; rfl
  | false =>
    rw [executeFrom_ok hW]
    have hk : r.applied > 0 := by rw [hp.applied]; exact hp.kpos
    have hnp := checkLoop_no_panic (sums H m.stmts) r.partialHashes r.applied (partial_len hp) (r.applied + 1) 0
    rcases hC : checkOf true H m r with _ | (i | u)
    · right; right
      have hC' : checkLoop true (sums H m.stmts) r.partialHashes r.applied (r.applied + 1) 0 = none := by
        unfold checkOf at hC; simpa [hk] using hC
      have hag := checkLoop_none (r.applied + 1) 0 (by omega) hC'
      rw [hp.applied] at hag
      have hkpos := hp.kpos
      have hkn : k ≤ m.stmts.length := by
        have := (hag (k - 1) (by omega) (by omega)).1
        simp at this; omega
      have hall : ∀ j, j < k → H (m.stmts.take (j + 1)).flatten = H (old.take (j + 1)).flatten := by
        intro j hj
        have h2 := (hag j (by omega) hj).2
        rw [sums_get H m.stmts j (by omega), hp.hashes] at h2
        rw [h2, List.getElem?_take_of_lt hj, sums_get H old j (by have := hp.kle; omega)]
      rcases prefix_of_sums hp.kle hkn hall with h | h
      · exact absurd h hch
      · exact h
    · left; rw [afterStart_inl hC]; simp only [deferred]; exact ⟨_, _, rfl⟩
    · exfalso; apply hnp; unfold checkOf at hC; simpa [hk] using hC

/-- **refused_is_clean**: a history-changed result means no statement was sent to the database and
every revision lookup answers exactly as before the run. -/
theorem refused_is_clean {H : Text → String} {w : World} {m : MFile} {old : List Text} {k : Nat}
    {r : Revision} (hp : PartiallyApplied H w m old k r) {i : Nat} {b : Bool}
    (hres : (execute true H w m).2 = .historyChanged i b) :
    (execute true H w m).1.journal = w.journal ∧ (execute true H w m).1.calls = w.calls ∧
    ∀ v, findRev v (execute true H w m).1.revs = findRev v w.revs := by
  have hload : loadRev w m = r := by unfold loadRev; rw [hp.found]
  unfold execute at hres ⊢; rw [hload] at hres ⊢
  rcases hW : writeRevision w r with ⟨w1, b1⟩
  have hj := writeRevision_journal w r
  have hl := writeRevision_lookup hp.found
  rw [hW] at hj hl; simp only at hj hl
  cases b1 with
  | true => rw [executeFrom_fail hW] at hres; simp at hres
  | false =>
    rw [executeFrom_ok hW] at hres ⊢
    have hk : r.applied > 0 := by rw [hp.applied]; exact hp.kpos
    rcases hC : checkOf true H m r with _ | (i' | u)
    · exfalso
      rw [afterStart_none hC] at hres
      have hC' : checkLoop true (sums H m.stmts) r.partialHashes r.applied (r.applied + 1) 0 = none := by
        unfold checkOf at hC; simpa [hk] using hC
      have hag := checkLoop_none (r.applied + 1) 0 (by omega) hC'
      have hle : r.applied ≤ m.stmts.length := by
        have := (hag (r.applied - 1) (by omega) (by omega)).1
        simp at this; omega
      exact (runStmts_res hle).2 i b hres
    · rw [afterStart_inl hC]
      simp only [deferred]
      have hrev1 : findRev m.version w1.revs = some r := by rw [hl]; exact hp.found
      have hj2 := writeRevision_journal w1 r
      have hl2 := writeRevision_lookup hrev1
      exact ⟨by rw [hj2.1, hj.1], by rw [hj2.2.1, hj.2.1], fun v => by rw [hl2 v, hl v]⟩
    · rw [afterStart_inr hC] at hres; simp at hres

/-- **tail_edit_resumes**: if the applied statements are unchanged (only the not-yet-applied tail
was edited, in any way, to any length), a run without faults executes exactly the new tail, in
order, and records the file as completely applied with the *new* statement count. -/
theorem tail_edit_resumes {H : Text → String} {w : World} {m : MFile} {old : List Text} {k : Nat}
    {r : Revision} (hp : PartiallyApplied H w m old k r) (hkn : k ≤ m.stmts.length)
    (hsame : m.stmts.take k = old.take k) (hnf : w.faults = []) :
    (execute true H w m).2 = .ok ∧
    (execute true H w m).1.journal = w.journal ++ m.stmts.drop k ∧
    (execute true H w m).1.calls = w.calls ++ m.stmts.drop k ∧
    ∃ r', findRev m.version (execute true H w m).1.revs = some r' ∧
      r'.applied = m.stmts.length ∧ r'.total = m.stmts.length ∧ r'.partialHashes = [] := by
  have hagree : ∀ j, j < r.applied → j < (sums H m.stmts).length ∧ j < r.partialHashes.length ∧
      (sums H m.stmts)[j]?.getD "" = r.partialHashes[j]?.getD "" := by
    intro j hj
    rw [hp.applied] at hj
    have hko := hp.kle
    refine ⟨by simp; omega, by rw [hp.hashes]; simp; omega, ?_⟩
    rw [sums_get H m.stmts j (by omega), hp.hashes, List.getElem?_take_of_lt hj,
      sums_get H old j (by omega)]
    have : m.stmts.take (j + 1) = old.take (j + 1) := by
      have h1 : (m.stmts.take k).take (j + 1) = (old.take k).take (j + 1) := by rw [hsame]
      rw [List.take_take, List.take_take] at h1
      have : min (j + 1) k = j + 1 := by omega
      rwa [this] at h1
    rw [this]
  have hk : r.applied > 0 := by rw [hp.applied]; exact hp.kpos
  have hC : checkOf true H m r = none := by
    unfold checkOf; simp only [hk, if_true]; exact checkLoop_agree hagree (r.applied + 1) 0
  have hle : ¬ r.applied > m.stmts.length := by rw [hp.applied]; omega
  have hload : loadRev w m = r := by unfold loadRev; rw [hp.found]
  unfold execute; rw [hload, executeFrom_ok (writeRevision_nofault w r hnf), afterStart_none hC]
  unfold runStmts
  simp only [hle, if_false, if_true]
  have hs := stmtLoop_nofault (sums H m.stmts) (m.stmts.drop r.applied)
    { w with tick := w.tick + 1, revs := upsert r w.revs } { r with total := m.stmts.length, hash := m.hash } (by simpa using hnf)
  rcases hL : stmtLoop (sums H m.stmts) (m.stmts.drop r.applied)
    { w with tick := w.tick + 1, revs := upsert r w.revs } { r with total := m.stmts.length, hash := m.hash } with ⟨w2, r2, res2⟩
  rw [hL] at hs
  obtain ⟨h1, h2, h3, h4, h5, h6, h7⟩ := hs
  simp only at h1 h2 h3 h4 h5 h6 h7
  subst h1
  simp only [deferred]
  rw [writeRevision_nofault _ _ h4]
  simp only [Bool.false_eq_true, if_false]
  refine ⟨trivial, ?_, ?_, ?_⟩
  · rw [h2, hp.applied]
  · rw [h3, hp.applied]
  · have hv := findRev_version hp.found
    refine ⟨{ r2 with partialHashes := [] }, ?_, ?_, ?_, rfl⟩
    · rw [findRev_upsert, if_pos (by simp only [h7]; exact hv)]
    · simp only [h5]; simp; omega
    · simp only [h6]

/-! ### non-vacuity and the pinned tree's counterexamples (tests, by evaluation) -/

/-- an (injective, for these inputs) toy hash used only by the examples below. -/
def toyH : Text → String := fun t => String.ofList t

def fileOld : MFile := { name := "1_a.sql", version := "1", desc := "a", stmts := ["A;".toList, "B;".toList, "C;".toList] }

/-- statement 2 (0-based) of `fileOld` fails: operations are write, stmt, write, stmt, write, stmt. -/
def afterFailure : World := (execute true toyH { faults := [5] } fileOld).1

/-- The hypotheses of the theorems are met by a reachable state: after the third statement of a
three-statement file failed, the table holds exactly the `PartiallyApplied` revision (k = 2). -/
example : PartiallyApplied toyH { afterFailure with tick := 0, faults := [] } fileOld fileOld.stmts 2
    ((findRev "1" afterFailure.revs).getD default) :=
  { found := by decide, applied := by decide, kpos := by decide, kle := by decide, hashes := by decide }

/-- Counterexample 1 on the pinned commit (`fixed = false`, comparison `i > len(sums)`): the file is
truncated to one statement after two were applied ⇒ index out of range. -/
theorem pinned_panics_on_truncation :
    (execute false toyH { afterFailure with tick := 0, faults := [] }
      { fileOld with stmts := ["A;".toList] }).2 = .panic := by decide

/-- … and the repaired comparison reports the history-changed error for the same input. -/
example : (execute true toyH { afterFailure with tick := 0, faults := [] }
      { fileOld with stmts := ["A;".toList] }).2 = .historyChanged 2 false := by decide

/-- Counterexample 2 on the pinned commit: the tail of the partially applied file is edited to a
different number of statements; the resume succeeds but leaves `Applied ≠ Total` with no partial
hashes, and the next run crashes indexing them. -/
theorem pinned_panics_after_tail_edit :
    let edited : MFile := { fileOld with stmts := ["A;".toList, "B;".toList] }
    let resumed := (execute false toyH { afterFailure with tick := 0, faults := [] } edited).1
    (execute false toyH { resumed with tick := 0 } edited).2 = .panic := by decide

/-- **truncated_file_refused**: a partially applied file that now holds fewer statements than were applied
is refused (or the revision write fails, or the hash collides) — never resumed, never a crash. -/
theorem truncated_file_refused {H : Text → String} {w : World} {m : MFile} {old : List Text} {k : Nat}
    {r : Revision} (hp : PartiallyApplied H w m old k r) (hshort : m.stmts.length < k) :
    (∃ i b, (execute true H w m).2 = .historyChanged i b) ∨ (execute true H w m).2 = .writeRev ∨
    Collision H := by
  apply changed_prefix_refused hp
  intro he
  have h1 : (m.stmts.take k).length = (old.take k).length := by rw [he]
  have := hp.kle
  simp only [List.length_take] at h1
  omega

end Props.C12
