/-
C09 — Executor runs each statement in order, once, and resumes after any failure.

Model: `Atlas.Exec` (`Execute`, `exec`, fault schedules over every `ExecContext` and every
`WriteRevision`). The theorems quantify over every directory (any number of files, any number of
statements, distinct versions), every number of attempts and every fault schedule of every attempt.

The invariant `DInv` (Lemmas/ExecDir.lean) says, for a split `dir = pre ++ rest`:
* every file of `pre` is completely recorded, the first file of `rest` has `a` statements recorded
  (with the hashes a resume will check), later files have no record;
* the journal (statements really executed) is `Stutter k (flat pre ++ first a+e statements of the
  next file)`: exactly those statements, in directory order, none skipped, with `k` immediate
  repetitions; `e ≤ 1` statement is executed but not recorded;
* `k + e ≤ wfails`: every repetition (and the pending one) is paid for by a failed revision write.
-/
import Lemmas.ExecDir

namespace Props.C09
open Atlas Atlas.Exec

/-- is file `m` not completely recorded? (`Applied != Total`, or no revision) -/
def notDone (revs : List Revision) (m : MFile) : Bool :=
  match findRev m.version revs with
  | some r => r.applied != r.total
  | none => true

/-- The files a run hands to `exec` in a linear directory without checkpoints: everything from the
first file that is not completely recorded (this is what `Pending` computes there – theorem
`Props.C11.pending_linear`; the correspondence run checks it through the real `ExecuteN`). -/
def pendingSpec (dir : List MFile) (revs : List Revision) : List MFile :=
  dir.dropWhile (fun m => !notDone revs m)

/-- one attempt under the fault schedule `fs`. -/
def attempt (H : Text → String) (dir : List MFile) (w : World) (fs : List Nat) : World × Res :=
  execFiles true H (pendingSpec dir w.revs) { w with tick := 0, faults := fs }

/-- any number of attempts, each with its own fault schedule. -/
def attempts (H : Text → String) (dir : List MFile) : World → List (List Nat) → World
  | w, [] => w
  | w, fs :: rest => attempts H dir (attempt H dir w fs).1 rest

/-- reachable states: the empty database, then any attempts. -/
def Reachable (H : Text → String) (dir : List MFile) (w : World) : Prop :=
  ∃ scheds : List (List Nat), w = attempts H dir {} scheds

theorem dropWhile_append_all {α : Type} (p : α → Bool) (xs ys : List α) (h : ∀ x ∈ xs, p x = true) :
    (xs ++ ys).dropWhile p = ys.dropWhile p := by
  induction xs with
  | nil => rfl
  | cons x xs ih =>
    have hx := h x (List.mem_cons_self ..)
    simp only [List.cons_append, List.dropWhile_cons, hx, if_true]
    exact ih (fun y hy => h y (List.mem_cons_of_mem _ hy))

theorem pendingSpec_eq {H : Text → String} {pre rest : List MFile} {w : World} {a e k : Nat}
    (inv : DInv H pre rest w a e k) : pendingSpec (pre ++ rest) w.revs = rest := by
  unfold pendingSpec
  rw [dropWhile_append_all _ _ _ (by
    intro m hm
    obtain ⟨r, h1, h2, h3⟩ := inv.done m hm
    simp [notDone, h1, h2, h3])]
  cases rest with
  | nil => rfl
  | cons m post =>
    obtain ⟨hrec, _, hst, _⟩ := inv.cur
    have : notDone w.revs m = true := by
      unfold notDone
      rcases hst with hlt | hn
      · rcases hrec with ⟨hn, _⟩ | ⟨r, h1, h2, h3, _⟩
        · rw [hn]
        · rw [h1]; simp; omega
      · rw [hn]
    simp [List.dropWhile_cons, this]

theorem inv_tick {H : Text → String} {pre rest : List MFile} {w : World} {a e k : Nat}
    (inv : DInv H pre rest w a e k) (fs : List Nat) :
    DInv H pre rest { w with tick := 0, faults := fs } a e k :=
  ⟨inv.done, inv.cur, inv.ele, inv.journal, inv.paid⟩

/-- **inv_init**: the empty database satisfies the invariant for any directory. -/
theorem inv_init (H : Text → String) (dir : List MFile) : DInv H [] dir {} 0 0 0 := by
  refine ⟨by simp, ?_, by omega, by simpa using Stutter.nil, by simp⟩
  cases dir with
  | nil => exact ⟨rfl, rfl⟩
  | cons m post =>
    exact ⟨Or.inl ⟨rfl, rfl⟩, by omega, Or.inr rfl, fun _ _ => rfl⟩

/-- **inv_step**: one attempt, under ANY fault schedule, preserves the invariant; it never panics
and never reports a changed history; without faults it succeeds and completes the directory. -/
theorem inv_step {H : Text → String} {dir pre rest : List MFile} {w : World} {a e k : Nat}
    (hnd : (dir.map (·.version)).Nodup) (hsplit : pre ++ rest = dir)
    (inv : DInv H pre rest w a e k) (fs : List Nat) :
    ∃ pre' rest' a' e' k', pre' ++ rest' = dir ∧ DInv H pre' rest' (attempt H dir w fs).1 a' e' k' ∧
      ((attempt H dir w fs).2 = .ok → rest' = []) ∧ (attempt H dir w fs).2 ≠ .panic ∧
      (∀ i b, (attempt H dir w fs).2 ≠ .historyChanged i b) ∧
      (fs = [] → (attempt H dir w fs).2 = .ok) := by
  unfold attempt
  rw [← hsplit, pendingSpec_eq inv]
  rw [← hsplit] at hnd
  obtain ⟨pre', rest', a', e', k', h1, h2, h3, h4, h5, h6⟩ :=
    execFiles_inv H rest pre _ a e k hnd (inv_tick inv fs)
  exact ⟨pre', rest', a', e', k', h1, h2, h3, h4, h5, fun hf => h6 (by simpa using hf)⟩

/-- **inv_attempts**: every reachable state – any number of attempts with any fault schedules –
satisfies the invariant. -/
theorem inv_attempts {H : Text → String} {dir : List MFile} (hnd : (dir.map (·.version)).Nodup)
    {w : World} (hr : Reachable H dir w) :
    ∃ pre rest a e k, pre ++ rest = dir ∧ DInv H pre rest w a e k := by
  obtain ⟨scheds, rfl⟩ := hr
  suffices ∀ (scheds : List (List Nat)) (w : World) (pre rest : List MFile) (a e k : Nat),
      pre ++ rest = dir → DInv H pre rest w a e k →
      ∃ pre' rest' a' e' k', pre' ++ rest' = dir ∧ DInv H pre' rest' (attempts H dir w scheds) a' e' k' from
    this scheds {} [] dir 0 0 0 rfl (inv_init H dir)
  intro scheds
  induction scheds with
  | nil => intro w pre rest a e k hs inv; exact ⟨pre, rest, a, e, k, hs, inv⟩
  | cons fs tl ih =>
    intro w pre rest a e k hs inv
    obtain ⟨pre', rest', a', e', k', h1, h2, _⟩ := inv_step hnd hs inv fs
    exact ih _ pre' rest' a' e' k' h1 h2

theorem stutter_length {α : Type} {k : Nat} {l J : List α} (h : Stutter k l J) : J.length = l.length + k := by
  induction h with
  | nil => rfl
  | next x _ ih => simp [ih]; omega
  | rep x _ ih => simp [ih]; omega

/-- number of statements the revision table records for a state described by the invariant. -/
def recordedCount (pre : List MFile) (a : Nat) : Nat := (flat pre).length + a

/-- **never_overclaims / never_skips**: in every reachable state the history records at most what was
really executed, and at most one executed statement is unrecorded. -/
theorem history_le_executed {H : Text → String} {pre rest : List MFile} {w : World} {a e k : Nat}
    (inv : DInv H pre rest w a e k) :
    recordedCount pre a + e + k = w.journal.length ∧ e ≤ 1 := by
  have := stutter_length inv.journal
  refine ⟨?_, inv.ele⟩
  rw [this, List.length_append, List.length_take]
  unfold recordedCount
  have : a + e ≤ (headStmts rest).length := by
    cases rest with
    | nil => obtain ⟨h1, h2⟩ := inv.cur; simp [headStmts, h1, h2]
    | cons m post => obtain ⟨_, h, _⟩ := inv.cur; simpa [headStmts] using h
  omega

/-- **at_most_one_repeat_per_write_fault**: the number of repeated executions (plus the pending
unrecorded one) never exceeds the number of failed revision writes. -/
theorem at_most_one_repeat_per_write_fault {H : Text → String} {pre rest : List MFile} {w : World}
    {a e k : Nat} (inv : DInv H pre rest w a e k) : k + e ≤ w.wfails := inv.paid

/-- **exactly_once_stmt_faults**: if no revision write ever failed (only statements did), the
journal is exactly the recorded statements, each once, in directory order. -/
theorem exactly_once_stmt_faults {H : Text → String} {pre rest : List MFile} {w : World} {a e k : Nat}
    (inv : DInv H pre rest w a e k) (hw : w.wfails = 0) :
    w.journal = flat pre ++ (headStmts rest).take a := by
  have hp := inv.paid
  have hk : k = 0 := by omega
  have he : e = 0 := by omega
  subst hk; subst he
  exact inv.journal.zero_eq

/-- **clean_run_completes**: from any reachable state, a run without faults succeeds, and afterwards
every statement of the directory has been executed, in order, none skipped, the only repetitions
being the `k ≤ wfails` paid ones; and the whole directory is recorded. -/
theorem clean_run_completes {H : Text → String} {dir : List MFile} (hnd : (dir.map (·.version)).Nodup)
    {w : World} (hr : Reachable H dir w) :
    (attempt H dir w []).2 = .ok ∧
    ∃ k, Stutter k (flat dir) (attempt H dir w []).1.journal ∧ k ≤ (attempt H dir w []).1.wfails ∧
      ∀ m ∈ dir, Complete (attempt H dir w []).1.revs m := by
  obtain ⟨pre, rest, a, e, k, hs, inv⟩ := inv_attempts hnd hr
  obtain ⟨pre', rest', a', e', k', h1, h2, h3, _, _, h6⟩ := inv_step hnd hs inv []
  have hok := h6 rfl
  have hr' := h3 hok
  subst hr'
  simp only [List.append_nil] at h1
  subst h1
  obtain ⟨ha, he⟩ := h2.cur
  subst ha; subst he
  refine ⟨hok, k', ?_, by have := h2.paid; omega, h2.done⟩
  simpa [headStmts] using h2.journal

/-- **exactly_once** (the last sentence of the property): when only statements fail over all the
attempts, after the final clean run the journal is exactly the directory's statements, each once. -/
theorem exactly_once_overall {H : Text → String} {dir : List MFile} (hnd : (dir.map (·.version)).Nodup)
    {w : World} (hr : Reachable H dir w) (hw : (attempt H dir w []).1.wfails = 0) :
    (attempt H dir w []).1.journal = flat dir := by
  obtain ⟨_, k, hst, hk, _⟩ := clean_run_completes hnd hr
  have : k = 0 := by omega
  subst this
  exact hst.zero_eq

/-- **executed_count_bound**: after the final clean run the number of statements really executed is the
number of statements of the directory plus at most one per failed revision write — whatever the earlier
attempts and their fault schedules were. -/
theorem executed_count_bound {H : Text → String} {dir : List MFile} (hnd : (dir.map (·.version)).Nodup)
    {w : World} (hr : Reachable H dir w) :
    (flat dir).length ≤ (attempt H dir w []).1.journal.length ∧
    (attempt H dir w []).1.journal.length ≤ (flat dir).length + (attempt H dir w []).1.wfails := by
  obtain ⟨_, k, hst, hk, _⟩ := clean_run_completes hnd hr
  have := stutter_length hst
  omega

/-! ### non-vacuity (tests by evaluation) -/

def toyH : Text → String := fun t => String.ofList t

def dir2 : List MFile :=
  [{ name := "1_a.sql", version := "1", stmts := ["A;".toList, "B;".toList] },
   { name := "2_b.sql", version := "2", stmts := ["C;".toList] }]

/-- a reachable state with a repetition: the write after statement A fails (operation 2), the second
attempt is clean: A is executed twice, everything else once. -/
example : (attempts toyH dir2 {} [[2], []]).journal = ["A;".toList, "A;".toList, "B;".toList, "C;".toList] := by
  decide

example : (attempts toyH dir2 {} [[2], []]).wfails = 1 := by decide

/-- statement faults only: exactly once. -/
example : (attempts toyH dir2 {} [[3], [1], []]).journal = flat dir2 := by decide

end Props.C09
