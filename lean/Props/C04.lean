/-
C04 — Plans respect dependencies for every foreign-key graph, including cycles.

Model: `Atlas.Sort` (`dependencies`, `sortMap`, `DetachCycles`, `detachReferences`, `SortChanges`,
`dependsOn` of the community build), validated against the real MySQL and PostgreSQL planners on
every foreign-key graph with self loops over up to 3 tables (4 in the thorough tier) x every split
created/dropped/kept x input orders, with the replay monitor evaluated on the implementation's order.

Proved here for change sets of ANY size: when no cycle is detected `DetachCycles` only permutes the
change set (`detachCycles_perm`, via `stableSortBy_perm`), and the partition `SortChanges` starts from
is a permutation (`partition_perm`).

`sortChanges_topo` (over `Lemmas/SortDfs.lean`): for change sets of ANY size with an acyclic dependency
relation, `SortChanges` (the depth-first `add` closure with its fuel, the inverse-edge suppression and
the drops-last partition) returns a permutation in which every change comes after all its dependencies.

`create_plan_respects_fks` (`plan_replays` for change sets that only create tables, ANY number of tables
and ANY foreign-key graph incl. cycles): every foreign key to another new table is established only
after that table was created – through `create_acyclic_order` (soundness of `sortMap`'s cycle detection,
`Lemmas/SortMap.lean`: success ⇒ every table got an index above those of its dependencies) and
`create_cyclic_order` (explicit form of `detachReferences`, `Lemmas/SortDetach.lean`).

`drop_plan_respects_fks` (`plan_replays` for change sets that only drop tables, ANY number of tables and
ANY foreign-key graph incl. cycles): every foreign key to another dropped table disappears – with the DROP
of its own table, or by an earlier ALTER – before the referenced table is dropped: `drop_acyclic_order`
(`dependencies_drop` + soundness of `sortMap`: every table is dropped after every other dropped table that
holds a key to it) and `drop_cyclic_order` (explicit form of `detachReferences` on drops,
`Lemmas/SortDetachDrop.lean`, and `sortChanges_prefix`, `Lemmas/SortPrefix.lean`: the ALTERs that drop the
keys have no dependency, so `SortChanges` emits all of them before the first DROP TABLE).

The TiDB planner (`Atlas.Tidb`, `Lemmas/Tidb.lean`) re-orders the pre-sorted atomic changes by a stable sort on
`priority`: `tidb_order_stable` / `tidb_keeps_presort_order` (changes of one priority - create-only and
drop-only change sets - keep the order of the topological pre-sort, so the theorems above carry over) and
`tidb_repoint_before_created_parent` (REFUTING: a foreign key re-pointed to a table created by the same change
set is planned before that table exists, wherever the two stand in the input - the property is false of the
TiDB planner on such change sets: known finding `tidb-repointed-fk-planned-before-created-parent`).

PARTIAL: for change sets that MIX creations, drops and modifications, that `dependsOn` is acyclic after
`DetachCycles` (the hypothesis of `sortChanges_topo`) and that the order replays on the reference
catalogue is checked exhaustively on the enumerated space and on random larger graphs by the
correspondence run and the replay monitor, not proved.
-/
import Atlas.Sort
import Lemmas.SortDfs
import Lemmas.SortMap
import Lemmas.SortDetach
import Lemmas.SortDetachDrop
import Lemmas.SortPrefix
import Lemmas.Tidb

namespace Props.C04
open Atlas.Sort

/-! ### stable sort is a permutation -/

theorem ins_perm {α : Type} (lt : α → α → Bool) (x : α) :
    ∀ l : List α, (stableSortBy.ins lt x l).Perm (x :: l) := by
  intro l
  induction l with
  | nil => simp [stableSortBy.ins]
  | cons y ys ih =>
    unfold stableSortBy.ins
    split
    · exact List.Perm.refl _
    · exact ((List.Perm.cons y ih).trans (List.Perm.swap x y ys))

theorem stableSortBy_perm {α : Type} (lt : α → α → Bool) (l : List α) : (stableSortBy lt l).Perm l := by
  unfold stableSortBy
  suffices ∀ (l acc : List α), (l.foldl (fun acc x => stableSortBy.ins lt x acc) acc).Perm (acc ++ l) by
    simpa using this l []
  intro l
  induction l with
  | nil => intro acc; simp
  | cons x xs ih =>
    intro acc
    simp only [List.foldl_cons]
    refine (ih _).trans ?_
    have h1 := ins_perm lt x acc
    refine (List.Perm.append_right xs h1).trans ?_
    simp only [List.cons_append]
    exact (List.perm_middle (a := x) (l₁ := acc) (l₂ := xs)).symm

/-- **detachCycles_perm**: when `sortMap` finds no cycle, `DetachCycles` returns exactly the given
changes, reordered. -/
theorem detachCycles_perm (cs : List Ch) (m : List (String × Nat)) (h : sortMap cs = some m) :
    (detachCycles cs).Perm cs := by
  unfold detachCycles
  rw [h]
  exact stableSortBy_perm _ _

/-- the partition `SortChanges` starts from (everything but drops, then drops) is a permutation. -/
theorem partition_perm (cs : List Ch) :
    (cs.filter (·.kind != .drop) ++ cs.filter (·.kind == .drop)).Perm cs := by
  induction cs with
  | nil => simp
  | cons c cs ih =>
    by_cases h : c.kind = .drop
    · simp only [List.filter_cons, h, bne_self_eq_false, Bool.false_eq_true, if_false, beq_self_eq_true, if_true]
      exact (List.perm_middle).trans (List.Perm.cons c ih)
    · have h1 : (c.kind != Kind.drop) = true := by simp [h]
      have h2 : (c.kind == Kind.drop) = false := by simp [h]
      simp only [List.filter_cons, h1, h2, if_true, Bool.false_eq_true, if_false, List.cons_append]
      exact List.Perm.cons c ih

/-! ### `SortChanges` is a topological sort (change sets of any size) -/

/-- **sortChanges_topo**: for every change set with distinct identities whose dependency relation
(`dependsOn` between different changes) is acyclic – witnessed by a rank that decreases along every
dependency – `SortChanges` returns a permutation of the changes in which every change comes after
everything it depends on. (After `DetachCycles` the relation is acyclic for the graphs the planners
produce; that part is decided by the correspondence run and the replay monitor.) -/
theorem sortChanges_topo (cs : List Ch) (rk : Ch → Nat)
    (hnd : (cs.map (·.id)).Nodup)
    (hrk : ∀ a ∈ cs, ∀ b ∈ cs, dependsOn a b = true → a.id ≠ b.id → rk b < rk a) :
    (sortChanges cs).Perm cs ∧
    ∀ pre c post, sortChanges cs = pre ++ c :: post →
      ∀ d ∈ cs, dependsOn c d = true → c.id ≠ d.id → d ∈ pre := by
  have hperm : (allOf cs).Perm cs := partition_perm cs
  have hmem : ∀ x, x ∈ allOf cs ↔ x ∈ cs := fun x => hperm.mem_iff
  have hnd' : ((allOf cs).map (·.id)).Nodup := (hperm.map _).nodup_iff.mpr hnd
  have hid : ∀ x ∈ allOf cs, ∀ y ∈ allOf cs, x.id = y.id → x = y := by
    intro x hx y hy he
    have := hnd'
    unfold List.Nodup at this
    rw [List.pairwise_map] at this
    by_cases hxy : x = y
    · exact hxy
    · exfalso
      obtain ⟨i, hi, rfl⟩ := List.getElem_of_mem hx
      obtain ⟨j, hj, rfl⟩ := List.getElem_of_mem hy
      rw [List.pairwise_iff_getElem] at this
      rcases Nat.lt_trichotomy i j with h | h | h
      · exact this i j hi hj h he
      · subst h; exact hxy rfl
      · exact this j i hj hi h he.symm
  have hrk' : ∀ a ∈ allOf cs, ∀ b ∈ allOf cs, dependsOn a b = true → a.id ≠ b.id → rk b < rk a :=
    fun a ha b hb => hrk a ((hmem a).mp ha) b ((hmem b).mp hb)
  have hedges_sub : ∀ c ∈ allOf cs, ∀ d ∈ edgesOf (allOf cs) c, d ∈ allOf cs := by
    intro c _ d hd; unfold edgesOf at hd; exact (List.mem_filter.mp hd).1
  have hedges_rk : ∀ c ∈ allOf cs, ∀ d ∈ edgesOf (allOf cs) c, rk d < rk c := by
    intro c hc d hd
    unfold edgesOf at hd
    obtain ⟨hdm, hcon⟩ := List.mem_filter.mp hd
    have hE : (c.id, d.id) ∈ hasEOf (allOf cs) := by simpa using hcon
    obtain ⟨a, b, ha, hb, hai, hbi, hab, hdep⟩ := hasE_sound hE
    have h1 : a = c := hid a ha c hc hai
    have h2 : b = d := hid b hb d hdm hbi
    subst h1; subst h2
    exact hrk' a ha b hb hdep hab
  have hlen : ∀ c ∈ allOf cs, (edgesOf (allOf cs) c).length ≤ (allOf cs).length := by
    intro c _; unfold edgesOf; exact List.length_filter_le _ _
  have hfuel : ((allOf cs).length + 2) * (allOf cs).length ≤
      ((allOf cs).length + 2) * ((allOf cs).length + 2) + ((allOf cs).length + 2) := by
    have : (allOf cs).length ≤ (allOf cs).length + 2 := by omega
    have := Nat.mul_le_mul_left ((allOf cs).length + 2) this
    omega
  obtain ⟨hp, hclosed⟩ := dfs_correct (edges := edgesOf (allOf cs)) (rk := rk) (all := allOf cs)
    (allOf cs).length _ hnd' hedges_sub hedges_rk hlen hfuel
  rw [sortChanges_eq]
  refine ⟨hp.trans hperm, ?_⟩
  intro pre c post heq d hd hdep hne
  apply hclosed pre c post heq
  have hc : c ∈ allOf cs := by
    have : c ∈ pre ++ c :: post := by simp
    rw [← heq] at this
    exact hp.mem_iff.mp this
  have hdm : d ∈ allOf cs := (hmem d).mpr hd
  unfold edgesOf
  rw [List.mem_filter]
  refine ⟨hdm, ?_⟩
  have := hasE_complete rk hid hrk' hc hdm hne hdep
  simpa using this

/-! ### create-only change sets: every referenced table is created first -/

theorem id_inj_of_nodup {l : List Ch} (hnd : (l.map (·.id)).Nodup) :
    ∀ x ∈ l, ∀ y ∈ l, x.id = y.id → x = y := by
  intro x hx y hy he
  have := hnd
  unfold List.Nodup at this
  rw [List.pairwise_map] at this
  by_cases hxy : x = y
  · exact hxy
  · exfalso
    obtain ⟨i, hi, rfl⟩ := List.getElem_of_mem hx
    obtain ⟨j, hj, rfl⟩ := List.getElem_of_mem hy
    rw [List.pairwise_iff_getElem] at this
    rcases Nat.lt_trichotomy i j with h | h | h
    · exact this i j hi hj h he
    · subst h; exact hxy rfl
    · exact this j i hj hi h he.symm

theorem table_inj_of_nodup {l : List Ch} (hnd : (l.map (·.table)).Nodup) :
    ∀ x ∈ l, ∀ y ∈ l, x.table = y.table → x = y := by
  intro x hx y hy he
  have := hnd
  unfold List.Nodup at this
  rw [List.pairwise_map] at this
  by_cases hxy : x = y
  · exact hxy
  · exfalso
    obtain ⟨i, hi, rfl⟩ := List.getElem_of_mem hx
    obtain ⟨j, hj, rfl⟩ := List.getElem_of_mem hy
    rw [List.pairwise_iff_getElem] at this
    rcases Nat.lt_trichotomy i j with h | h | h
    · exact this i j hi hj h he
    · subst h; exact hxy rfl
    · exact this j i hj hi h he.symm

/-- **create_acyclic_order**: a set of new tables (any number, one change per table) whose foreign-key
graph passes the planner's cycle detection (`sortMap` succeeds; self references allowed) is planned as
a permutation of the given changes in which every table is created after all the other tables its
foreign keys reference. -/
theorem create_acyclic_order (cs : List Ch) (m : List (String × Nat))
    (hadd : ∀ c ∈ cs, c.kind = .add) (hid : (cs.map (·.id)).Nodup) (htab : (cs.map (·.table)).Nodup)
    (hsm : sortMap cs = some m) :
    (planOrder cs).Perm cs ∧
    ∀ pre c post, planOrder cs = pre ++ c :: post →
      ∀ fk ∈ c.fks, fk.ref ≠ c.table → ∀ d ∈ cs, d.table = fk.ref → d ∈ pre := by
  have hperm : (detachCycles cs).Perm cs := detachCycles_perm cs m hsm
  have hmem : ∀ x, x ∈ detachCycles cs ↔ x ∈ cs := fun x => hperm.mem_iff
  have hid' : ((detachCycles cs).map (·.id)).Nodup := (hperm.map _).nodup_iff.mpr hid
  obtain ⟨hinv, hkeys⟩ := sortMap_inv cs m hsm
  have tinj := table_inj_of_nodup htab
  have iinj := id_inj_of_nodup hid
  -- rank: the index `sortMap` gave the table
  have hrk : ∀ a ∈ detachCycles cs, ∀ b ∈ detachCycles cs, dependsOn a b = true → a.id ≠ b.id →
      (lookup m b.table).getD 0 < (lookup m a.table).getD 0 := by
    intro a ha b hb hdep hne
    have ha' := (hmem a).mp ha
    have hb' := (hmem b).mp hb
    unfold dependsOn at hdep
    rw [hadd a ha', hadd b hb'] at hdep
    simp only [refTo, List.any_eq_true, beq_iff_eq] at hdep
    obtain ⟨fk, hfk, hfr⟩ := hdep
    have hab : a ≠ b := fun e => hne (by rw [e])
    have htne : fk.ref ≠ a.table := by
      rw [hfr]; intro e; exact hab (tinj a ha' b hb' e.symm)
    have hhas := dependencies_add cs a ha' (hadd a ha') fk hfk htne
    obtain ⟨i, j, hi, hj, hij⟩ := lookup_lt hinv (hkeys _ (has_key hhas)) hhas
    rw [← hfr, hi, hj]; exact hij
  obtain ⟨hp, hord⟩ := sortChanges_topo (detachCycles cs) (fun c => (lookup m c.table).getD 0) hid' hrk
  unfold planOrder
  refine ⟨hp.trans hperm, ?_⟩
  intro pre c post heq fk hfk hne d hd hdt
  have hc : c ∈ cs := by
    have : c ∈ pre ++ c :: post := by simp
    rw [← heq] at this
    exact (hp.trans hperm).mem_iff.mp this
  apply hord pre c post heq d ((hmem d).mpr hd)
  · unfold dependsOn
    rw [hadd c hc, hadd d hd]
    simp only [refTo, List.any_eq_true, beq_iff_eq]
    exact ⟨fk, hfk, hdt.symm⟩
  · intro e
    have : c = d := iinj c hc d hd e
    rw [this] at hne
    exact hne hdt.symm

/-- **drop_acyclic_order**: a set of dropped tables (any number, one change per table) whose foreign-key
graph passes the planner's cycle detection is planned as a permutation of the given changes in which
every table is dropped only after every OTHER dropped table that holds a foreign key to it. -/
theorem drop_acyclic_order (cs : List Ch) (m : List (String × Nat))
    (hdrop : ∀ c ∈ cs, c.kind = .drop) (hid : (cs.map (·.id)).Nodup)
    (hsm : sortMap cs = some m) :
    (planOrder cs).Perm cs ∧
    ∀ pre d post, planOrder cs = pre ++ d :: post →
      ∀ c ∈ cs, c.id ≠ d.id → ∀ fk ∈ c.fks, fk.ref = d.table → c ∈ pre := by
  have hperm : (detachCycles cs).Perm cs := detachCycles_perm cs m hsm
  have hmem : ∀ x, x ∈ detachCycles cs ↔ x ∈ cs := fun x => hperm.mem_iff
  have hid' : ((detachCycles cs).map (·.id)).Nodup := (hperm.map _).nodup_iff.mpr hid
  obtain ⟨hinv, hkeys⟩ := sortMap_inv cs m hsm
  have hisd : ∀ a ∈ cs, isDropped cs a.table = true := by
    intro a ha
    simp only [isDropped, List.any_eq_true, Bool.and_eq_true, beq_iff_eq]
    exact ⟨a, ha, hdrop a ha, rfl⟩
  have hrk : ∀ a ∈ detachCycles cs, ∀ b ∈ detachCycles cs, dependsOn a b = true → a.id ≠ b.id →
      (lookup m b.table).getD 0 < (lookup m a.table).getD 0 := by
    intro a ha b hb hdep _
    have ha' := (hmem a).mp ha
    have hb' := (hmem b).mp hb
    unfold dependsOn at hdep
    rw [hdrop a ha', hdrop b hb'] at hdep
    simp only [refTo, List.any_eq_true, beq_iff_eq] at hdep
    obtain ⟨fk, hfk, hfr⟩ := hdep
    have hhas := dependencies_drop cs b hb' (hdrop b hb') fk hfk (by rw [hfr]; exact hisd a ha')
    obtain ⟨i, j, hi, hj, hij⟩ := lookup_lt hinv (hkeys _ (has_key hhas)) hhas
    rw [← hfr, hi, hj]; exact hij
  obtain ⟨hp, hord⟩ := sortChanges_topo (detachCycles cs) (fun c => (lookup m c.table).getD 0) hid' hrk
  unfold planOrder
  refine ⟨hp.trans hperm, ?_⟩
  intro pre d post heq c hc hne fk hfk hfr
  have hd : d ∈ cs := by
    have : d ∈ pre ++ d :: post := by simp
    rw [← heq] at this
    exact (hp.trans hperm).mem_iff.mp this
  apply hord pre d post heq c ((hmem c).mpr hc)
  · unfold dependsOn
    rw [hdrop c hc, hdrop d hd]
    simp only [refTo, List.any_eq_true, beq_iff_eq]
    exact ⟨fk, hfk, hfr⟩
  · exact fun e => hne e.symm

/-- **create_cyclic_order**: a set of new tables (any number, one change per table) whose foreign-key
graph is reported cyclic by the planner (`sortMap` fails): the plan creates every table exactly once,
with its self references only, and every foreign key to another table is added by an ALTER that comes
after the creation of the table itself AND after the creation of the referenced table. -/
theorem create_cyclic_order (cs : List Ch)
    (hadd : ∀ c ∈ cs, c.kind = .add) (hid : (cs.map (·.id)).Nodup) (htab : (cs.map (·.table)).Nodup)
    (hsm : sortMap cs = none) :
    -- the creations are those of the given tables, each once, holding self references only
    (((planOrder cs).filter (·.kind == .add)).map (·.table)).Perm (cs.map (·.table)) ∧
    (∀ p ∈ planOrder cs, p.kind = .add → ∀ fk ∈ p.fks, fk.ref = p.table) ∧
    -- every foreign key to another table is added after both tables exist
    ∀ c ∈ cs, ∀ fk ∈ c.fks, fk.ref ≠ c.table →
      ∃ pre d post, planOrder cs = pre ++ d :: post ∧ d.kind = .modify ∧ d.table = c.table ∧
        Sub.addFK fk ∈ d.subs ∧ (∃ p ∈ pre, p.kind = .add ∧ p.table = c.table) ∧
        ∀ q ∈ cs, q.table = fk.ref → ∃ p ∈ pre, p.kind = .add ∧ p.table = fk.ref := by
  have hdet : detachCycles cs = plannedOf (freshBase cs) cs ++ deferredOf (freshBase cs) cs := by
    unfold detachCycles; rw [hsm]; exact detachReferences_add cs hadd
  have hidD : ((detachCycles cs).map (·.id)).Nodup := by
    rw [hdet]; exact ids_nodup cs _ hid (lt_freshBase cs)
  have hPk := plannedOf_kind cs (freshBase cs) hadd
  have hDs := deferredOf_spec cs (freshBase cs)
  have hPt := plannedOf_table cs (freshBase cs)
  have hPtab : ((plannedOf (freshBase cs) cs).map (·.table)).Nodup := by rw [hPt]; exact htab
  have tinjP := table_inj_of_nodup hPtab
  -- rank: creations 0, ALTERs 1
  let rk : Ch → Nat := fun c => if c.kind == .modify then 1 else 0
  have hkind : ∀ x ∈ detachCycles cs, (x ∈ plannedOf (freshBase cs) cs ∧ x.kind = .add) ∨
      (x ∈ deferredOf (freshBase cs) cs ∧ x.kind = .modify) := by
    intro x hx
    rw [hdet] at hx
    rcases List.mem_append.mp hx with h | h
    · exact Or.inl ⟨h, (hPk x h).1⟩
    · exact Or.inr ⟨h, (hDs x h).1⟩
  have hrk : ∀ a ∈ detachCycles cs, ∀ b ∈ detachCycles cs, dependsOn a b = true → a.id ≠ b.id → rk b < rk a := by
    intro a ha b hb hdep hne
    rcases hkind a ha with ⟨haP, hak⟩ | ⟨_, hak⟩ <;> rcases hkind b hb with ⟨hbP, hbk⟩ | ⟨_, hbk⟩
    · -- add / add: only self references, so b would be a itself
      exfalso
      unfold dependsOn at hdep
      rw [hak, hbk] at hdep
      simp only [refTo, List.any_eq_true, beq_iff_eq] at hdep
      obtain ⟨fk, hfk, hfr⟩ := hdep
      have := (hPk a haP).2 fk hfk
      have hab : a = b := tinjP a haP b hbP (by rw [← this, hfr])
      exact hne (by rw [hab])
    · -- add / modify: a reference of a creation is a self reference
      exfalso
      unfold dependsOn at hdep
      rw [hak, hbk] at hdep
      simp only [refTo, Bool.and_eq_true, bne_iff_ne, ne_eq, List.any_eq_true, beq_iff_eq] at hdep
      obtain ⟨hneq, fk, hfk, hfr⟩ := hdep
      have := (hPk a haP).2 fk hfk
      exact hneq (by rw [← this, hfr])
    · simp [rk, hak, hbk]
    · exfalso
      unfold dependsOn at hdep
      rw [hak, hbk] at hdep
      simp at hdep
  obtain ⟨hp, hord⟩ := sortChanges_topo (detachCycles cs) rk hidD hrk
  have hmemO : ∀ x, x ∈ planOrder cs ↔ x ∈ detachCycles cs := fun x => by unfold planOrder; exact hp.mem_iff
  refine ⟨?_, ?_, ?_⟩
  · -- the creations
    have h1 : ((planOrder cs).filter (·.kind == .add)).Perm ((detachCycles cs).filter (·.kind == .add)) := by
      unfold planOrder; exact hp.filter _
    have h2 : (detachCycles cs).filter (·.kind == .add) = plannedOf (freshBase cs) cs := by
      rw [hdet, List.filter_append]
      have f1 : (plannedOf (freshBase cs) cs).filter (·.kind == .add) = plannedOf (freshBase cs) cs := by
        rw [List.filter_eq_self]; intro x hx; simp [(hPk x hx).1]
      have f2 : (deferredOf (freshBase cs) cs).filter (·.kind == .add) = [] := by
        rw [List.filter_eq_nil_iff]; intro x hx; simp [(hDs x hx).1]
      rw [f1, f2, List.append_nil]
    rw [← hPt, ← h2]
    exact h1.map _
  · intro p hp' hk fk hfk
    rcases hkind p ((hmemO p).mp hp') with ⟨hP, _⟩ | ⟨_, hm⟩
    · exact (hPk p hP).2 fk hfk
    · rw [hk] at hm; cases hm
  · intro c hc fk hfk hne
    obtain ⟨d, hd, hdk, hdt, hdsub⟩ := deferredOf_complete cs (freshBase cs) c hc fk hfk hne
    have hdD : d ∈ detachCycles cs := by rw [hdet]; exact List.mem_append_right _ hd
    obtain ⟨pre, post, hsplit⟩ := List.append_of_mem ((hmemO d).mpr hdD)
    refine ⟨pre, d, post, hsplit, hdk, hdt, hdsub, ?_, ?_⟩
    · -- the table itself
      have : c.table ∈ (plannedOf (freshBase cs) cs).map (·.table) := by rw [hPt]; exact List.mem_map_of_mem hc
      obtain ⟨p, hpP, hpt⟩ := List.mem_map.mp this
      have hpD : p ∈ detachCycles cs := by rw [hdet]; exact List.mem_append_left _ hpP
      have hpk := (hPk p hpP).1
      refine ⟨p, ?_, hpk, hpt⟩
      apply hord pre d post (by unfold planOrder at hsplit; exact hsplit) p hpD
      · unfold dependsOn; rw [hdk, hpk]; simp [hdt, hpt]
      · intro e
        have := id_inj_of_nodup hidD d hdD p hpD e
        rw [this, hpk] at hdk; cases hdk
    · intro q hq hqt
      have : q.table ∈ (plannedOf (freshBase cs) cs).map (·.table) := by rw [hPt]; exact List.mem_map_of_mem hq
      obtain ⟨p, hpP, hpt⟩ := List.mem_map.mp this
      have hpD : p ∈ detachCycles cs := by rw [hdet]; exact List.mem_append_left _ hpP
      have hpk := (hPk p hpP).1
      refine ⟨p, ?_, hpk, by rw [hpt, hqt]⟩
      apply hord pre d post (by unfold planOrder at hsplit; exact hsplit) p hpD
      · unfold dependsOn; rw [hdk, hpk]
        simp only [Bool.or_eq_true, beq_iff_eq, List.any_eq_true]
        right
        exact ⟨Sub.addFK fk, hdsub, by simp [hpt, hqt]⟩
      · intro e
        have := id_inj_of_nodup hidD d hdD p hpD e
        rw [this, hpk] at hdk; cases hdk

/-- **drop_cyclic_order**: a set of dropped tables (any number, one change per table) whose foreign-key
graph is reported cyclic by the planner (`sortMap` fails): the plan drops every table exactly once, the
drops hold self references only, and every foreign key to another table is dropped by an ALTER that
comes before ANY table is dropped. -/
theorem drop_cyclic_order (cs : List Ch)
    (hdrop : ∀ c ∈ cs, c.kind = .drop) (hid : (cs.map (·.id)).Nodup) (htab : (cs.map (·.table)).Nodup)
    (hsm : sortMap cs = none) :
    (((planOrder cs).filter (·.kind == .drop)).map (·.table)).Perm (cs.map (·.table)) ∧
    (∀ p ∈ planOrder cs, p.kind = .drop → ∀ fk ∈ p.fks, fk.ref = p.table) ∧
    ∀ c ∈ cs, ∀ fk ∈ c.fks, fk.ref ≠ c.table →
      ∃ pre d post, planOrder cs = pre ++ d :: post ∧ d.kind = .modify ∧ d.table = c.table ∧
        Sub.dropFK fk ∈ d.subs ∧ ∀ p ∈ pre, p.kind ≠ .drop := by
  have hdet : detachCycles cs = plannedOfD (freshBase cs) cs ++ deferredOfD (freshBase cs) cs := by
    unfold detachCycles; rw [hsm]; exact detachReferences_drop cs hdrop
  have hidD : ((detachCycles cs).map (·.id)).Nodup := by
    rw [hdet]; exact idsD_nodup cs _ hid (lt_freshBase cs)
  have hPk := plannedOfD_kind cs (freshBase cs)
  have hDk := deferredOfD_kind cs (freshBase cs) hdrop
  have hDt := deferredOfD_table cs (freshBase cs)
  have hDtab : ((deferredOfD (freshBase cs) cs).map (·.table)).Nodup := by rw [hDt]; exact htab
  have tinjD := table_inj_of_nodup hDtab
  -- rank: ALTERs 0, drops 1
  let rk : Ch → Nat := fun c => if c.kind == .drop then 1 else 0
  have hkind : ∀ x ∈ detachCycles cs, (x ∈ plannedOfD (freshBase cs) cs ∧ x.kind = .modify) ∨
      (x ∈ deferredOfD (freshBase cs) cs ∧ x.kind = .drop) := by
    intro x hx
    rw [hdet] at hx
    rcases List.mem_append.mp hx with h | h
    · exact Or.inl ⟨h, hPk x h⟩
    · exact Or.inr ⟨h, (hDk x h).1⟩
  have hrk : ∀ a ∈ detachCycles cs, ∀ b ∈ detachCycles cs, dependsOn a b = true → a.id ≠ b.id → rk b < rk a := by
    intro a ha b hb hdep hne
    rcases hkind a ha with ⟨_, hak⟩ | ⟨haD, hak⟩ <;> rcases hkind b hb with ⟨_, hbk⟩ | ⟨hbD, hbk⟩
    · exfalso; unfold dependsOn at hdep; rw [hak, hbk] at hdep; simp at hdep
    · exfalso; unfold dependsOn at hdep; rw [hak, hbk] at hdep; simp at hdep
    · simp [rk, hak, hbk]
    · -- drop / drop: only self references are left, so b would be a itself
      exfalso
      unfold dependsOn at hdep
      rw [hak, hbk] at hdep
      simp only [refTo, List.any_eq_true, beq_iff_eq] at hdep
      obtain ⟨fk, hfk, hfr⟩ := hdep
      have := (hDk b hbD).2 fk hfk
      have hab : a = b := tinjD a haD b hbD (by rw [← hfr, this])
      exact hne (by rw [hab])
  obtain ⟨hp, _⟩ := sortChanges_topo (detachCycles cs) rk hidD hrk
  have hmemO : ∀ x, x ∈ planOrder cs ↔ x ∈ detachCycles cs := fun x => by unfold planOrder; exact hp.mem_iff
  -- the ALTERs have no dependency: they come first
  have hidinj := id_inj_of_nodup hidD
  have hno : ∀ c ∈ detachCycles cs, c.kind ≠ .drop → edgesOf (allOf (detachCycles cs)) c = [] := by
    intro c hc hk
    unfold edgesOf
    rw [List.filter_eq_nil_iff]
    intro d _ hcon
    have hmem : (c.id, d.id) ∈ hasEOf (allOf (detachCycles cs)) := by simpa using hcon
    obtain ⟨a, b, ha, hb, hai, _, _, hdep⟩ := hasE_sound hmem
    have haD : a ∈ detachCycles cs := (partition_perm (detachCycles cs)).mem_iff.mp ha
    have hbD : b ∈ detachCycles cs := (partition_perm (detachCycles cs)).mem_iff.mp hb
    have hac : a = c := hidinj a haD c hc hai
    subst hac
    rcases hkind a haD with ⟨_, hak⟩ | ⟨_, hak⟩
    · rcases hkind b hbD with ⟨_, hbk⟩ | ⟨_, hbk⟩ <;>
        (unfold dependsOn at hdep; rw [hak, hbk] at hdep; simp at hdep)
    · exact hk hak
  obtain ⟨rest, hrest⟩ := sortChanges_prefix (detachCycles cs) hidD hno
  have hother : (detachCycles cs).filter (·.kind != .drop) = plannedOfD (freshBase cs) cs := by
    rw [hdet, List.filter_append]
    have f1 : (plannedOfD (freshBase cs) cs).filter (·.kind != .drop) = plannedOfD (freshBase cs) cs := by
      rw [List.filter_eq_self]; intro x hx; simp [hPk x hx]
    have f2 : (deferredOfD (freshBase cs) cs).filter (·.kind != .drop) = [] := by
      rw [List.filter_eq_nil_iff]; intro x hx; simp [(hDk x hx).1]
    rw [f1, f2, List.append_nil]
  rw [hother] at hrest
  refine ⟨?_, ?_, ?_⟩
  · have h1 : ((planOrder cs).filter (·.kind == .drop)).Perm ((detachCycles cs).filter (·.kind == .drop)) := by
      unfold planOrder; exact hp.filter _
    have h2 : (detachCycles cs).filter (·.kind == .drop) = deferredOfD (freshBase cs) cs := by
      rw [hdet, List.filter_append]
      have f1 : (deferredOfD (freshBase cs) cs).filter (·.kind == .drop) = deferredOfD (freshBase cs) cs := by
        rw [List.filter_eq_self]; intro x hx; simp [(hDk x hx).1]
      have f2 : (plannedOfD (freshBase cs) cs).filter (·.kind == .drop) = [] := by
        rw [List.filter_eq_nil_iff]; intro x hx; simp [hPk x hx]
      rw [f1, f2, List.nil_append]
    rw [← hDt, ← h2]
    exact h1.map _
  · intro p hp' hk fk hfk
    rcases hkind p ((hmemO p).mp hp') with ⟨_, hm⟩ | ⟨hD, _⟩
    · rw [hk] at hm; cases hm
    · exact (hDk p hD).2 fk hfk
  · intro c hc fk hfk hne
    obtain ⟨d, hd, hdk, hdt, hdsub⟩ := plannedOfD_complete cs (freshBase cs) c hc fk hfk hne
    obtain ⟨pre, post, hsplit⟩ := List.append_of_mem hd
    refine ⟨pre, d, post ++ rest, ?_, hdk, hdt, hdsub, ?_⟩
    · unfold planOrder; rw [hrest, hsplit]; simp
    · intro p hp'
      have : p ∈ plannedOfD (freshBase cs) cs := by rw [hsplit]; exact List.mem_append_left _ hp'
      rw [hPk p this]; intro h; cases h

/-- **drop_plan_respects_fks** (`plan_replays` for change sets that only drop tables): whatever the number
of tables and whatever their foreign-key graph, in the planned order every foreign key to another dropped
table disappears – with its own table's DROP TABLE, or by an earlier ALTER TABLE – before the referenced
table is dropped. -/
theorem drop_plan_respects_fks (cs : List Ch)
    (hdrop : ∀ c ∈ cs, c.kind = .drop) (hid : (cs.map (·.id)).Nodup) (htab : (cs.map (·.table)).Nodup) :
    ∀ c ∈ cs, ∀ fk ∈ c.fks, fk.ref ≠ c.table →
      ∃ pre x post, planOrder cs = pre ++ x :: post ∧ x.table = c.table ∧
        ((x.kind = .drop ∧ fk ∈ x.fks) ∨ Sub.dropFK fk ∈ x.subs) ∧
        ∀ p ∈ pre, ¬ (p.kind = .drop ∧ p.table = fk.ref) := by
  intro c hc fk hfk hne
  cases hsm : sortMap cs with
  | some m =>
    obtain ⟨hperm, hord⟩ := drop_acyclic_order cs m hdrop hid hsm
    obtain ⟨pre, post, hsplit⟩ := List.append_of_mem (hperm.mem_iff.mpr hc)
    refine ⟨pre, c, post, hsplit, rfl, Or.inl ⟨hdrop c hc, hfk⟩, ?_⟩
    rintro p hp ⟨_, hpt⟩
    -- p is the drop of the referenced table and stands before c: then c stands before p as well
    obtain ⟨a, b, hab⟩ := List.append_of_mem hp
    have hpcs : p ∈ cs := hperm.mem_iff.mp (by rw [hsplit]; exact List.mem_append_left _ hp)
    have hcp : c.id ≠ p.id := by
      intro e
      have := id_inj_of_nodup hid c hc p hpcs e
      rw [this] at hne; exact hne hpt.symm
    have hca : c ∈ a := hord a p (b ++ c :: post) (by rw [hsplit, hab]; simp) c hc hcp fk hfk hpt.symm
    have hnd : (planOrder cs).Nodup := by
      have : ((planOrder cs).map (·.id)).Nodup := (hperm.map _).nodup_iff.mpr hid
      exact nodup_of_map_id this
    rw [hsplit, hab] at hnd
    have : c ∈ a ++ p :: b := List.mem_append_left _ hca
    exact (List.nodup_append.mp hnd).2.2 c this c (List.mem_cons_self ..) rfl
  | none =>
    obtain ⟨_, _, h3⟩ := drop_cyclic_order cs hdrop hid htab hsm
    obtain ⟨pre, d, post, hsplit, _, hdt, hsub, hpre⟩ := h3 c hc fk hfk hne
    exact ⟨pre, d, post, hsplit, hdt, Or.inr hsub, fun p hp h => hpre p hp h.1⟩

/-- **create_plan_respects_fks** (`plan_replays` for change sets that only create tables): whatever
the number of tables and whatever their foreign-key graph – chains, diamonds, self references, cycles
of any length – in the planned order every foreign key to another new table is established (inline in
its CREATE TABLE, or by a later ALTER TABLE) only after that table has been created. -/
theorem create_plan_respects_fks (cs : List Ch)
    (hadd : ∀ c ∈ cs, c.kind = .add) (hid : (cs.map (·.id)).Nodup) (htab : (cs.map (·.table)).Nodup) :
    ∀ c ∈ cs, ∀ fk ∈ c.fks, fk.ref ≠ c.table → ∀ q ∈ cs, q.table = fk.ref →
      ∃ pre x post, planOrder cs = pre ++ x :: post ∧ x.table = c.table ∧
        (fk ∈ x.fks ∨ Sub.addFK fk ∈ x.subs) ∧ ∃ p ∈ pre, p.kind = .add ∧ p.table = fk.ref := by
  intro c hc fk hfk hne q hq hqt
  cases hsm : sortMap cs with
  | some m =>
    obtain ⟨hperm, hord⟩ := create_acyclic_order cs m hadd hid htab hsm
    obtain ⟨pre, post, hsplit⟩ := List.append_of_mem (hperm.mem_iff.mpr hc)
    exact ⟨pre, c, post, hsplit, rfl, Or.inl hfk, q, hord pre c post hsplit fk hfk hne q hq hqt, hadd q hq, hqt⟩
  | none =>
    obtain ⟨_, _, h3⟩ := create_cyclic_order cs hadd hid htab hsm
    obtain ⟨pre, d, post, hsplit, _, hdt, hsub, _, href⟩ := h3 c hc fk hfk hne
    exact ⟨pre, d, post, hsplit, hdt, Or.inr hsub, href q hq hqt⟩

/-- non-vacuity: the chain t0 → t1 → t2 with rank = number of the table satisfies the hypotheses. -/
example :
    let cs : List Ch := [{ id := 1, kind := .add, table := "t0", fks := [{ sym := "fk", ref := "t1" }] },
                         { id := 2, kind := .add, table := "t1", fks := [{ sym := "fk", ref := "t2" }] },
                         { id := 3, kind := .add, table := "t2" }]
    (∀ a ∈ cs, ∀ b ∈ cs, dependsOn a b = true → a.id ≠ b.id → (4 - b.id) < (4 - a.id)) ∧
    (cs.map (·.id)).Nodup := by decide

/-! ### non-vacuity: a three-cycle is detached (tests by evaluation) -/

def fk (a b : Nat) : FK :=
  { sym := "fk", ref := match b with | 0 => "t0" | 1 => "t1" | _ => "t2" }

/-- create t0 → t1 → t2 → t0 -/
def cycle3 : List Ch :=
  [{ id := 1, kind := .add, table := "t0", fks := [fk 0 1] },
   { id := 2, kind := .add, table := "t1", fks := [fk 1 2] },
   { id := 3, kind := .add, table := "t2", fks := [fk 2 0] }]

example : sortMap cycle3 = none := by decide

set_option maxRecDepth 8000 in
/-- the three tables are created first (without their foreign keys), then the keys are added. -/
example : (planOrder cycle3).map (fun c => (c.kind, c.table, c.fks.length, c.subs.length)) =
    [(.add, "t0", 0, 0), (.add, "t1", 0, 0), (.add, "t2", 0, 0),
     (.modify, "t0", 0, 1), (.modify, "t1", 0, 1), (.modify, "t2", 0, 1)] := by decide

set_option maxRecDepth 8000 in
/-- a chain is ordered by dependency: t2 (referenced) first. -/
example : (planOrder [{ id := 1, kind := .add, table := "t0", fks := [fk 0 1] },
                      { id := 2, kind := .add, table := "t1", fks := [fk 1 2] },
                      { id := 3, kind := .add, table := "t2" }]).map (·.table) = ["t2", "t1", "t0"] := by decide

/-- drop t0 → t1 → t2 → t0 -/
def dropCycle3 : List Ch :=
  [{ id := 1, kind := .drop, table := "t0", fks := [fk 0 1] },
   { id := 2, kind := .drop, table := "t1", fks := [fk 1 2] },
   { id := 3, kind := .drop, table := "t2", fks := [fk 2 0] }]

example : sortMap dropCycle3 = none := by decide

set_option maxRecDepth 8000 in
/-- the three keys are dropped first (ALTERs), then the tables (without their keys). -/
example : (planOrder dropCycle3).map (fun c => (c.kind, c.table, c.fks.length, c.subs.length)) =
    [(.modify, "t0", 0, 1), (.modify, "t1", 0, 1), (.modify, "t2", 0, 1),
     (.drop, "t0", 0, 0), (.drop, "t1", 0, 0), (.drop, "t2", 0, 0)] := by decide

set_option maxRecDepth 8000 in
/-- a chain of drops is ordered by dependency: t0 (the holder of the first key) first, t2 last. -/
example : (planOrder [{ id := 3, kind := .drop, table := "t2" },
                      { id := 2, kind := .drop, table := "t1", fks := [fk 1 2] },
                      { id := 1, kind := .drop, table := "t0", fks := [fk 0 1] }]).map (·.table) = ["t0", "t1", "t2"] := by decide

/-! ### the TiDB planner's ordering step -/

section Tidb
open Atlas.Tidb

/-- **tidb_order_stable**: the TiDB planner's sort is a permutation sorted by priority in which changes of equal
priority keep the order the topological pre-sort gave them. -/
theorem tidb_order_stable (l : List TCh) (k : Nat) :
    (order l).Perm l ∧ (order l).Pairwise (fun a b => priority a ≤ priority b) ∧
    (order l).filter (fun c => priority c = k) = l.filter (fun c => priority c = k) :=
  ⟨order_perm l, order_sorted l, order_stable l k⟩

/-- **tidb_keeps_presort_order**: change sets whose atomic changes have one priority (only CREATE TABLE, only
DROP TABLE) are planned exactly in the pre-sorted order. -/
theorem tidb_keeps_presort_order (l : List TCh) (k : Nat) (h : ∀ c ∈ l, priority c = k) : order l = l :=
  order_of_one_priority l k h

/-- **tidb_repoint_before_created_parent** (refuting witness, general form): whenever a change set holds a
foreign key re-pointed to table `t` and the creation of `t`, the TiDB planner plans the re-pointing first. -/
theorem tidb_repoint_before_created_parent (l xs ys : List TCh) (t : Nat) (hm : TCh.modifyFK t ∈ l)
    (h : order l = xs ++ TCh.addTable t :: ys) : TCh.modifyFK t ∈ xs :=
  repoint_planned_before_parent l xs ys t hm h

/-- the witness replayed by the correspondence run: in both input orders the ALTER precedes the CREATE. -/
example : order [TCh.addTable 1, TCh.modifyFK 1] = [TCh.modifyFK 1, TCh.addTable 1] := by
  simp [order, List.mergeSort, List.MergeSort.Internal.splitInTwo, le, priority]
example : order [TCh.modifyFK 1, TCh.addTable 1] = [TCh.modifyFK 1, TCh.addTable 1] := by
  simp [order, List.mergeSort, List.MergeSort.Internal.splitInTwo, le, priority]
example : order [TCh.addTable 1, TCh.addTable 2, TCh.addTable 0] = [TCh.addTable 1, TCh.addTable 2, TCh.addTable 0] :=
  tidb_keeps_presort_order _ 4 (by simp [priority])

/-- **tidb_order_idempotent**: ordering an ordered change list changes nothing (change lists of any length). -/
theorem tidb_order_idempotent (l : List TCh) : order (order l) = order l := by
  unfold order
  apply List.mergeSort_of_pairwise
  have := (tidb_order_stable l 0).2.1
  unfold order at this
  exact this.imp (fun h => by simpa [le] using h)

end Tidb

end Props.C04
