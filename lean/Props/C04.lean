/-
C04 — Plans respect dependencies for every foreign-key graph, including cycles.

Model: `Atlas.Sort` (`dependencies`, `sortMap`, `DetachCycles`, `detachReferences`, `SortChanges`,
`dependsOn` of the community build), validated against the real MySQL and PostgreSQL planners on
every foreign-key graph with self loops over up to 3 tables (4 in the thorough tier) x every split
created/dropped/kept x input orders, with the replay monitor evaluated on the implementation's order.

Proved here for change sets of ANY size: when no cycle is detected `DetachCycles` only permutes the
change set (`detachCycles_perm`, via `stableSortBy_perm`), and the partition `SortChanges` starts from
is a permutation (`partition_perm`).

PARTIAL: that the final order replays without error on the reference catalogue for every graph
(`plan_replays`: topological-sort correctness of `SortChanges` + acyclicity of `dependsOn` after
detachment) is not proved yet; it is checked exhaustively on the enumerated space and on random
larger graphs by the correspondence run and the monitor.
-/
import Atlas.Sort

namespace Props.C04
open Atlas.Sort

/-! ### stable sort is a permutation -/

theorem ins_perm {α : Type} (lt : α → α → Bool) (x : α) :
    ∀ l : List α, (stableSortBy.ins lt x l).Perm (x :: l) := by
  intro l
  induction l with
  | nil => simp [stableSortBy.ins]
  | cons y ys ih =>
    unfold stableSortBy.ins
    split
    · exact List.Perm.refl _
    · exact ((List.Perm.cons y ih).trans (List.Perm.swap x y ys))

theorem stableSortBy_perm {α : Type} (lt : α → α → Bool) (l : List α) : (stableSortBy lt l).Perm l := by
  unfold stableSortBy
  suffices ∀ (l acc : List α), (l.foldl (fun acc x => stableSortBy.ins lt x acc) acc).Perm (acc ++ l) by
    simpa using this l []
  intro l
  induction l with
  | nil => intro acc; simp
  | cons x xs ih =>
    intro acc
    simp only [List.foldl_cons]
    refine (ih _).trans ?_
    have h1 := ins_perm lt x acc
    refine (List.Perm.append_right xs h1).trans ?_
    simp only [List.cons_append]
    exact (List.perm_middle (a := x) (l₁ := acc) (l₂ := xs)).symm

/-- **detachCycles_perm**: when `sortMap` finds no cycle, `DetachCycles` returns exactly the given
changes, reordered. -/
theorem detachCycles_perm (cs : List Ch) (m : List (String × Nat)) (h : sortMap cs = some m) :
    (detachCycles cs).Perm cs := by
  unfold detachCycles
  rw [h]
  exact stableSortBy_perm _ _

/-- the partition `SortChanges` starts from (everything but drops, then drops) is a permutation. -/
theorem partition_perm (cs : List Ch) :
    (cs.filter (·.kind != .drop) ++ cs.filter (·.kind == .drop)).Perm cs := by
  induction cs with
  | nil => simp
  | cons c cs ih =>
    by_cases h : c.kind = .drop
    · simp only [List.filter_cons, h, bne_self_eq_false, Bool.false_eq_true, if_false, beq_self_eq_true, if_true]
      exact (List.perm_middle).trans (List.Perm.cons c ih)
    · have h1 : (c.kind != Kind.drop) = true := by simp [h]
      have h2 : (c.kind == Kind.drop) = false := by simp [h]
      simp only [List.filter_cons, h1, h2, if_true, Bool.false_eq_true, if_false, List.cons_append]
      exact List.Perm.cons c ih

/-! ### non-vacuity: a three-cycle is detached (tests by evaluation) -/

def fk (a b : Nat) : FK :=
  { sym := "fk", ref := match b with | 0 => "t0" | 1 => "t1" | _ => "t2" }

/-- create t0 → t1 → t2 → t0 -/
def cycle3 : List Ch :=
  [{ id := 1, kind := .add, table := "t0", fks := [fk 0 1] },
   { id := 2, kind := .add, table := "t1", fks := [fk 1 2] },
   { id := 3, kind := .add, table := "t2", fks := [fk 2 0] }]

example : sortMap cycle3 = none := by decide

set_option maxRecDepth 8000 in
/-- the three tables are created first (without their foreign keys), then the keys are added. -/
example : (planOrder cycle3).map (fun c => (c.kind, c.table, c.fks.length, c.subs.length)) =
    [(.add, "t0", 0, 0), (.add, "t1", 0, 0), (.add, "t2", 0, 0),
     (.modify, "t0", 0, 1), (.modify, "t1", 0, 1), (.modify, "t2", 0, 1)] := by decide

set_option maxRecDepth 8000 in
/-- a chain is ordered by dependency: t2 (referenced) first. -/
example : (planOrder [{ id := 1, kind := .add, table := "t0", fks := [fk 0 1] },
                      { id := 2, kind := .add, table := "t1", fks := [fk 1 2] },
                      { id := 3, kind := .add, table := "t2" }]).map (·.table) = ["t2", "t1", "t0"] := by decide

end Props.C04
