/-
C16 — Schema-scoped plans are schema-agnostic; a requested qualifier is always used.

Model: `Atlas.Qualify` (Builder.mayQualify / Table / TableColumn / TableResource / SchemaResource /
RefTable, PostgreSQL typeIdent, CheckChangesScope). The correspondence run compares the model with the
real Builder (through the `verif` bridge) and checks, on the plans of the real MySQL and PostgreSQL
planners for schemas carrying a marker name, that no statement or reverse statement mentions the
marker under an empty qualifier and that every table / type reference carries exactly the custom one.

Proved (all names, all qualifiers): with the empty qualifier an object's own schema is never part of
its identifier (`no_own_schema`, `type_no_own_schema`), with a custom qualifier every identifier
starts with exactly that qualifier (`custom_used`, `type_custom_used`), a referenced table is
qualified under the empty qualifier only when it lives in another named schema
(`reftable_other_schema_only`), and the scope check rejects schema additions/drops, deferred schema
modifications and every change set whose TABLE changes span two schemas, in any position and order
(`scope_rejects_*`); conversely a change set of any length whose table changes all lie in one schema is accepted, for every qualifier and mode (`scope_accepts_one_schema`). The schema of a stand-alone enum change is not looked at: `object_schema_not_counted`
(known finding).

PARTIAL: that every identifier-printing site of the planners goes through these functions is not
proved (no extractor yet); it is what the marker-schema run observes.
-/
import Atlas.Qualify

namespace Props.C16
open Atlas Atlas.Qualify

/-- **no_own_schema**: under the empty qualifier the identifier is just the object path. -/
theorem no_own_schema (schemaName top : Text) (children : List Text) :
    mayQualify (some []) schemaName top children = top :: children := by
  simp [mayQualify, prefixOf]

theorem type_no_own_schema (schemaName name : Text) : typeIdent (some []) schemaName name = [name] := by
  simp [typeIdent, prefixOf]

/-- **custom_used**: a custom qualifier prefixes every identifier, instead of the own schema. -/
theorem custom_used (q : Text) (hq : q ≠ []) (schemaName top : Text) (children : List Text) :
    mayQualify (some q) schemaName top children = q :: top :: children := by
  cases q with
  | nil => exact absurd rfl hq
  | cons c cs => simp [mayQualify, prefixOf]

theorem type_custom_used (q : Text) (hq : q ≠ []) (schemaName name : Text) :
    typeIdent (some q) schemaName name = [q, name] := by
  cases q with
  | nil => exact absurd rfl hq
  | cons c cs => simp [typeIdent, prefixOf]

/-- **reftable_other_schema_only**: under the empty qualifier a referenced table in the same schema
(or with an unknown schema on either side) is not qualified; one in another named schema is. -/
theorem reftable_same_schema (s parent : Text) : refTable (some []) s s parent = [parent] := by
  simp [refTable, mayQualify, prefixOf]

theorem reftable_other_schema (c p parent : Text) (hc : c ≠ []) (hp : p ≠ []) (hne : c ≠ p) :
    refTable (some []) c p parent = [p, parent] := by
  have h1 : c.isEmpty = false := by cases c <;> simp_all
  have h2 : p.isEmpty = false := by cases p <;> simp_all
  simp [refTable, h1, h2, hne]

theorem reftable_custom (q : Text) (hq : q ≠ []) (c p parent : Text) :
    refTable (some q) c p parent = [q, parent] := by
  have : (some q == some ([] : Text)) = false := by
    cases q with
    | nil => exact absurd rfl hq
    | cons a b => simp
  simp [refTable, this, custom_used q hq]

/-- AddSchema / DropSchema anywhere makes the loop stop with an error, whatever surrounds it. -/
theorem scopeGo_none_of_add_drop (scope : Text) (ip : Bool) (c : ScopeCh)
    (hc : c = .addSchema ∨ c = .dropSchema) :
    ∀ (cs : List ScopeCh) (names : List Text), c ∈ cs → scopeGo scope ip cs names = none := by
  intro cs
  induction cs with
  | nil => intro _ h; cases h
  | cons x xs ih =>
    intro names hmem
    cases x with
    | addSchema => simp [scopeGo]
    | dropSchema => simp [scopeGo]
    | modifySchema n =>
      have hx : c ∈ xs := by
        rcases List.mem_cons.mp hmem with h | h
        · rcases hc with rfl | rfl <;> cases h
        · exact h
      simp only [scopeGo]
      split
      · rfl
      · split
        · rfl
        · exact ih _ hx
    | table s =>
      have hx : c ∈ xs := by
        rcases List.mem_cons.mp hmem with h | h
        · rcases hc with rfl | rfl <;> cases h
        · exact h
      simp only [scopeGo]; exact ih _ hx
    | object s =>
      have hx : c ∈ xs := by
        rcases List.mem_cons.mp hmem with h | h
        · rcases hc with rfl | rfl <;> cases h
        · exact h
      simp only [scopeGo]; exact ih _ hx
    | other =>
      have hx : c ∈ xs := by
        rcases List.mem_cons.mp hmem with h | h
        · rcases hc with rfl | rfl <;> cases h
        · exact h
      simp only [scopeGo]; exact ih _ hx

/-- **scope_rejects_schema_changes**: AddSchema / DropSchema anywhere in ANY change set is rejected,
under every qualifier and plan mode. -/
theorem scope_rejects_add_drop (q : Qualifier) (ip : Bool) (cs : List ScopeCh) (c : ScopeCh)
    (hc : c = .addSchema ∨ c = .dropSchema) (hmem : c ∈ cs) : checkScope q ip cs = false := by
  unfold checkScope
  rw [scopeGo_none_of_add_drop _ ip c hc cs [] hmem]

/-- a schema modification outside in-place mode is rejected wherever it stands. -/
theorem scope_rejects_deferred_modify (q : Qualifier) (n : Text) :
    ∀ (cs : List ScopeCh), ScopeCh.modifySchema n ∈ cs → checkScope q false cs = false := by
  intro cs hmem
  unfold checkScope
  suffices ∀ (cs : List ScopeCh) (names : List Text), ScopeCh.modifySchema n ∈ cs →
      scopeGo (q.getD []) false cs names = none by rw [this cs [] hmem]
  intro cs
  induction cs with
  | nil => intro _ h; cases h
  | cons x xs ih =>
    intro names hm
    cases x with
    | addSchema => simp [scopeGo]
    | dropSchema => simp [scopeGo]
    | modifySchema m => simp [scopeGo]
    | table s =>
      have hx : ScopeCh.modifySchema n ∈ xs := by
        rcases List.mem_cons.mp hm with h | h
        · cases h
        · exact h
      simp only [scopeGo]; exact ih _ hx
    | object s =>
      have hx : ScopeCh.modifySchema n ∈ xs := by
        rcases List.mem_cons.mp hm with h | h
        · cases h
        · exact h
      simp only [scopeGo]; exact ih _ hx
    | other =>
      have hx : ScopeCh.modifySchema n ∈ xs := by
        rcases List.mem_cons.mp hm with h | h
        · cases h
        · exact h
      simp only [scopeGo]; exact ih _ hx

/-! ### the name set -/

def dstep (acc : List Text) (x : Text) : List Text := if acc.contains x then acc else acc ++ [x]

theorem dedup_eq (l : List Text) : dedup l = l.foldl dstep [] := rfl

theorem foldl_dstep : ∀ (l acc : List Text), acc.Nodup →
    (l.foldl dstep acc).Nodup ∧ ∀ x, x ∈ l.foldl dstep acc ↔ (x ∈ acc ∨ x ∈ l) := by
  intro l
  induction l with
  | nil => intro acc h; simp [h]
  | cons y ys ih =>
    intro acc h
    simp only [List.foldl_cons]
    by_cases hy : acc.contains y = true
    · have hyin : y ∈ acc := List.contains_iff_mem.mp hy
      have : dstep acc y = acc := by simp [dstep, hyin]
      rw [this]
      obtain ⟨h1, h2⟩ := ih acc h
      refine ⟨h1, fun x => ?_⟩
      rw [h2 x]
      constructor
      · rintro (h | h)
        · exact Or.inl h
        · exact Or.inr (List.mem_cons_of_mem _ h)
      · rintro (h | h)
        · exact Or.inl h
        · rcases List.mem_cons.mp h with rfl | h
          · exact Or.inl hyin
          · exact Or.inr h
    · have hyn : y ∉ acc := fun hin => hy (List.contains_iff_mem.mpr hin)
      have hstep : dstep acc y = acc ++ [y] := by simp [dstep, hyn]
      rw [hstep]
      have hnd : (acc ++ [y]).Nodup := by
        rw [List.nodup_append]
        refine ⟨h, by simp, ?_⟩
        intro a ha b hb
        simp only [List.mem_singleton] at hb
        subst hb
        intro hab; subst hab; exact hyn ha
      obtain ⟨h1, h2⟩ := ih (acc ++ [y]) hnd
      refine ⟨h1, fun x => ?_⟩
      rw [h2 x]
      simp only [List.mem_append, List.mem_cons, List.not_mem_nil, or_false]
      constructor
      · rintro ((h | h) | h)
        · exact Or.inl h
        · exact Or.inr (Or.inl h)
        · exact Or.inr (Or.inr h)
      · rintro (h | h | h)
        · exact Or.inl (Or.inl h)
        · exact Or.inl (Or.inr h)
        · exact Or.inr h

theorem two_le_length_of_two_mem {l : List Text} (hnd : l.Nodup) {a b : Text} (ha : a ∈ l) (hb : b ∈ l)
    (hab : a ≠ b) : 2 ≤ l.length := by
  match l, hnd, ha, hb with
  | [], _, ha, _ => cases ha
  | [x], _, ha, hb =>
    simp only [List.mem_singleton] at ha hb
    exact absurd (ha.trans hb.symm) hab
  | _ :: _ :: _, _, _, _ => simp

/-- every named schema of a table change ends up in the collected names (when the loop completes). -/
theorem scopeGo_collects (scope : Text) (ip : Bool) : ∀ (cs : List ScopeCh) (acc names : List Text),
    scopeGo scope ip cs acc = some names →
    (∀ x ∈ acc, x ∈ names) ∧ ∀ s, ScopeCh.table s ∈ cs → s ≠ [] → s ∈ names := by
  intro cs
  induction cs with
  | nil =>
    intro acc names h
    simp only [scopeGo, Option.some.injEq] at h
    subst h
    exact ⟨fun _ hx => hx, fun _ hm => by cases hm⟩
  | cons c rest ih =>
    intro acc names h
    cases c with
    | addSchema => simp [scopeGo] at h
    | dropSchema => simp [scopeGo] at h
    | modifySchema n =>
      simp only [scopeGo] at h
      split at h
      · cases h
      · split at h
        · cases h
        · obtain ⟨h1, h2⟩ := ih _ _ h
          refine ⟨fun x hx => h1 x (List.mem_append_left _ hx), fun s hm hs => ?_⟩
          rcases List.mem_cons.mp hm with hm | hm
          · cases hm
          · exact h2 s hm hs
    | table t =>
      simp only [scopeGo] at h
      obtain ⟨h1, h2⟩ := ih _ _ h
      refine ⟨fun x hx => h1 x (by split <;> simp [hx]), fun s hm hs => ?_⟩
      rcases List.mem_cons.mp hm with hm | hm
      · cases hm
        have ht : t.isEmpty = false := by cases t <;> simp_all
        exact h1 t (by simp [ht])
      · exact h2 s hm hs
    | object o =>
      simp only [scopeGo] at h
      obtain ⟨h1, h2⟩ := ih _ _ h
      refine ⟨h1, fun s hm hs => ?_⟩
      rcases List.mem_cons.mp hm with hm | hm
      · cases hm
      · exact h2 s hm hs
    | other =>
      simp only [scopeGo] at h
      obtain ⟨h1, h2⟩ := ih _ _ h
      refine ⟨h1, fun s hm hs => ?_⟩
      rcases List.mem_cons.mp hm with hm | hm
      · cases hm
      · exact h2 s hm hs

/-- **scope_rejects_two_schemas**: ANY change set holding table changes in two different named
schemas is rejected, whatever else it holds and in whatever order, under every qualifier and mode. -/
theorem scope_rejects_two_schemas (q : Qualifier) (ip : Bool) (cs : List ScopeCh) (a b : Text)
    (ha : a ≠ []) (hb : b ≠ []) (hab : a ≠ b) (hma : ScopeCh.table a ∈ cs) (hmb : ScopeCh.table b ∈ cs) :
    checkScope q ip cs = false := by
  unfold checkScope
  cases h : scopeGo (q.getD []) ip cs [] with
  | none => rfl
  | some names =>
    obtain ⟨_, h2⟩ := scopeGo_collects _ ip cs [] names h
    have han := h2 a hma ha
    have hbn := h2 b hmb hb
    obtain ⟨hnd, hmem⟩ := foldl_dstep names [] List.nodup_nil
    have hl := two_le_length_of_two_mem hnd ((hmem a).mpr (Or.inr han)) ((hmem b).mpr (Or.inr hbn)) hab
    rw [← dedup_eq] at hl
    simp only [decide_eq_false_iff_not]
    omega

/-- one schema is accepted. -/
example : checkScope (some []) false [.table "s".toList, .table "s".toList, .other] = true := by decide

/-- premises of `scope_rejects_two_schemas` are satisfiable and the conclusion is not trivial. -/
example : checkScope (some []) false [.other, .table "a".toList, .object "a".toList, .table "b".toList] = false := by
  decide

/-- **object_schema_not_counted** (KNOWN FINDING `enum-schema-not-scoped`): the schema of an object
change (AddObject / DropObject / ModifyObject of an enum type) is not collected, so a change set with an
enum of schema `a` and a table of schema `b` passes the scope check: the property's "changes that span
two schemas are rejected" does not hold for schema-level objects. Pinned by the upstream unit test
TestPlanChanges/50 (enum of schema "ignored", table of schema "test1"), so it cannot be repaired without
editing the test suite. -/
theorem object_schema_not_counted (q : Qualifier) (ip : Bool) (a b : Text) :
    checkScope q ip [.object a, .table b] = true := by
  by_cases hb : b.isEmpty = true <;> simp [checkScope, scopeGo, hb, dedup]

/-! ### the TiDB planner (plans every atomic change on its own) -/

/-- the scope check as the pinned TiDB planner performed it: every atomic change is handed to the MySQL
planner alone, so the check sees one change at a time. -/
def perChangeScope (q : Qualifier) (ip : Bool) (cs : List ScopeCh) : Bool := cs.all (fun c => checkScope q ip [c])

/-- **pinned_tidb_two_schemas** (repaired by `7d8266a`): checked one change at a time, a change set with table
changes in two different schemas is accepted although the check of the whole set rejects it. -/
theorem pinned_tidb_two_schemas (q : Qualifier) (ip : Bool) (a b : Text) (ha : a ≠ []) (hb : b ≠ [])
    (hab : a ≠ b) :
    perChangeScope q ip [.table a, .table b] = true ∧ checkScope q ip [.table a, .table b] = false := by
  refine ⟨?_, scope_rejects_two_schemas q ip _ a b ha hb hab (by simp) (by simp)⟩
  have h1 : a.isEmpty = false := by cases a <;> simp_all
  have h2 : b.isEmpty = false := by cases b <;> simp_all
  simp [perChangeScope, checkScope, scopeGo, h1, h2, dedup, ha, hb]

/-- the whole-set check is never more permissive than the per-change one: what it accepts, every single
change passes as well (table / object / other changes; schema changes are decided alone anyway). -/
theorem whole_set_implies_per_change (q : Qualifier) (ip : Bool) (cs : List ScopeCh)
    (hcs : ∀ c ∈ cs, (∃ s, c = .table s) ∨ (∃ s, c = .object s) ∨ c = .other)
    (_h : checkScope q ip cs = true) : perChangeScope q ip cs = true := by
  unfold perChangeScope
  rw [List.all_eq_true]
  intro c hc
  rcases hcs c hc with ⟨s, rfl⟩ | ⟨s, rfl⟩ | rfl
  · by_cases hs : s = []
    · simp [checkScope, scopeGo, hs, dedup]
    · have : s.isEmpty = false := by cases s <;> simp_all
      simp [checkScope, scopeGo, this, hs, dedup]
  · simp [checkScope, scopeGo, dedup]
  · simp [checkScope, scopeGo, dedup]

/-! ### no false refusal -/

/-- a change that stays inside schema `s` (or is not looked at by the scope check). -/
def Within (s : Text) : ScopeCh → Prop
  | .table n => n = s
  | .object _ => True
  | .other => True
  | _ => False

theorem scopeGo_within (scope s : Text) (ip : Bool) : ∀ (cs : List ScopeCh) (names : List Text),
    (∀ c ∈ cs, Within s c) → (∀ x ∈ names, x = s) →
    ∃ out, scopeGo scope ip cs names = some out ∧ ∀ x ∈ out, x = s := by
  intro cs
  induction cs with
  | nil => intro names _ hn; exact ⟨names, rfl, hn⟩
  | cons c rest ih =>
    intro names hc hn
    have hr : ∀ c ∈ rest, Within s c := fun c h => hc c (List.mem_cons_of_mem _ h)
    have h0 := hc c (List.mem_cons_self ..)
    cases c with
    | addSchema => exact absurd h0 (by simp [Within])
    | dropSchema => exact absurd h0 (by simp [Within])
    | modifySchema n => exact absurd h0 (by simp [Within])
    | table n =>
      simp only [scopeGo]
      apply ih _ hr
      split
      · exact hn
      · intro x hx
        rcases List.mem_append.mp hx with h | h
        · exact hn x h
        · simp at h; rw [h]; exact h0
    | object n => simp only [scopeGo]; exact ih names hr hn
    | other => simp only [scopeGo]; exact ih names hr hn

theorem dedup_all_eq (s : Text) : ∀ (l acc : List Text), (acc = [] ∨ acc = [s]) → (∀ x ∈ l, x = s) →
    (l.foldl (fun acc x => if acc.contains x then acc else acc ++ [x]) acc = [] ∨
     l.foldl (fun acc x => if acc.contains x then acc else acc ++ [x]) acc = [s]) := by
  intro l
  induction l with
  | nil => intro acc h _; exact h
  | cons x xs ih =>
    intro acc hacc hl
    have hx : x = s := hl x (List.mem_cons_self ..)
    subst hx
    simp only [List.foldl_cons]
    apply ih _ _ (fun y hy => hl y (List.mem_cons_of_mem _ hy))
    rcases hacc with h | h
    · right; subst h; simp
    · right; subst h; simp

/-- **scope_accepts_one_schema** (no false refusal): a change set of any length whose table changes all
lie in one schema — together with any enum / other changes — passes the scope check, for every qualifier
and mode. -/
theorem scope_accepts_one_schema (q : Qualifier) (ip : Bool) (s : Text) (cs : List ScopeCh)
    (h : ∀ c ∈ cs, Within s c) : checkScope q ip cs = true := by
  unfold checkScope
  obtain ⟨out, ho, hall⟩ := scopeGo_within (q.getD []) s ip cs [] h (by simp)
  rw [ho]
  simp only [decide_eq_true_eq]
  unfold dedup
  rcases dedup_all_eq s out [] (Or.inl rfl) hall with h | h <;> rw [h] <;> simp

example : checkScope none false [.table ['a'], .object ['b'], .other, .table ['a']] = true := by decide

end Props.C16
