/-
C16 — Schema-scoped plans are schema-agnostic; a requested qualifier is always used.

Model: `Atlas.Qualify` (Builder.mayQualify / Table / TableColumn / TableResource / SchemaResource /
RefTable, PostgreSQL typeIdent, CheckChangesScope). The correspondence run compares the model with the
real Builder (through the `verif` bridge) and checks, on the plans of the real MySQL and PostgreSQL
planners for schemas carrying a marker name, that no statement or reverse statement mentions the
marker under an empty qualifier and that every table / type reference carries exactly the custom one.

Proved (all names, all qualifiers): with the empty qualifier an object's own schema is never part of
its identifier (`no_own_schema`, `type_no_own_schema`), with a custom qualifier every identifier
starts with exactly that qualifier (`custom_used`, `type_custom_used`), a referenced table is
qualified under the empty qualifier only when it lives in another named schema
(`reftable_other_schema_only`), and the scope check rejects schema additions/drops, deferred schema
modifications and change sets that span two schemas (`scope_rejects_*`).

PARTIAL: that every identifier-printing site of the planners goes through these functions is not
proved (no extractor yet); it is what the marker-schema run observes.
-/
import Atlas.Qualify

namespace Props.C16
open Atlas Atlas.Qualify

/-- **no_own_schema**: under the empty qualifier the identifier is just the object path. -/
theorem no_own_schema (schemaName top : Text) (children : List Text) :
    mayQualify (some []) schemaName top children = top :: children := by
  simp [mayQualify, prefixOf]

theorem type_no_own_schema (schemaName name : Text) : typeIdent (some []) schemaName name = [name] := by
  simp [typeIdent, prefixOf]

/-- **custom_used**: a custom qualifier prefixes every identifier, instead of the own schema. -/
theorem custom_used (q : Text) (hq : q ≠ []) (schemaName top : Text) (children : List Text) :
    mayQualify (some q) schemaName top children = q :: top :: children := by
  cases q with
  | nil => exact absurd rfl hq
  | cons c cs => simp [mayQualify, prefixOf]

theorem type_custom_used (q : Text) (hq : q ≠ []) (schemaName name : Text) :
    typeIdent (some q) schemaName name = [q, name] := by
  cases q with
  | nil => exact absurd rfl hq
  | cons c cs => simp [typeIdent, prefixOf]

/-- **reftable_other_schema_only**: under the empty qualifier a referenced table in the same schema
(or with an unknown schema on either side) is not qualified; one in another named schema is. -/
theorem reftable_same_schema (s parent : Text) : refTable (some []) s s parent = [parent] := by
  simp [refTable, mayQualify, prefixOf]

theorem reftable_other_schema (c p parent : Text) (hc : c ≠ []) (hp : p ≠ []) (hne : c ≠ p) :
    refTable (some []) c p parent = [p, parent] := by
  have h1 : c.isEmpty = false := by cases c <;> simp_all
  have h2 : p.isEmpty = false := by cases p <;> simp_all
  simp [refTable, h1, h2, hne]

theorem reftable_custom (q : Text) (hq : q ≠ []) (c p parent : Text) :
    refTable (some q) c p parent = [q, parent] := by
  have : (some q == some ([] : Text)) = false := by
    cases q with
    | nil => exact absurd rfl hq
    | cons a b => simp
  simp [refTable, this, custom_used q hq]

/-- **scope_rejects_schema_changes**: AddSchema / DropSchema anywhere in the change set is rejected. -/
theorem scope_rejects_add_drop (q : Qualifier) (ip : Bool) (pre post : List ScopeCh) (c : ScopeCh)
    (hc : c = .addSchema ∨ c = .dropSchema)
    (hpre : ∀ x ∈ pre, (∃ s, x = .table s) ∨ x = .other) :
    checkScope q ip (pre ++ c :: post) = false := by
  unfold checkScope
  suffices ∀ names, scopeGo (q.getD []) ip (pre ++ c :: post) names = none by rw [this]
  induction pre with
  | nil =>
    intro names
    rcases hc with rfl | rfl <;> simp [scopeGo]
  | cons x xs ih =>
    intro names
    have hx := hpre x (List.mem_cons_self ..)
    have ih' := ih (fun y hy => hpre y (List.mem_cons_of_mem _ hy))
    rcases hx with ⟨s, rfl⟩ | rfl
    · simp only [List.cons_append, scopeGo]; exact ih' _
    · simp only [List.cons_append, scopeGo]; exact ih' _

/-- **scope_rejects_two_schemas**: table changes in two different named schemas are rejected. -/
theorem scope_rejects_two_schemas (q : Qualifier) (ip : Bool) (a b : Text) (ha : a ≠ []) (hb : b ≠ [])
    (hab : a ≠ b) : checkScope q ip [.table a, .table b] = false := by
  have h1 : a.isEmpty = false := by cases a <;> simp_all
  have h2 : b.isEmpty = false := by cases b <;> simp_all
  have hba : ¬ b = a := fun h => hab h.symm
  simp [checkScope, scopeGo, h1, h2, dedup, hba]

/-- one schema is accepted. -/
example : checkScope (some []) false [.table "s".toList, .table "s".toList, .other] = true := by decide

end Props.C16
