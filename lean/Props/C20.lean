/-
C20 — Outputs are deterministic: same inputs give byte-identical plans, HCL and sums.

Go map iteration order (and directory listing order) is arbitrary; the code makes its outputs
independent of it by sorting. In the models a map / listing is a list in ARBITRARY order, and the
theorems say the result is the same for every permutation of that list:

* `bytesLt` is a strict total order on byte strings (`bytesLt_irrefl/_trans/_total`);
* `sortFiles_perm_invariant`: `Dir.Files()` returns the same list whatever order the directory (or the
  MemDir map) enumerates its files in, provided names are distinct (they are keys);
* `hash_perm`: hence the written `atlas.sum` is the same bytes (`writeSum`), and `Validate` answers
  the same;
* `sortFiles_idempotent`, `hash_of_listing`: listing an already listed directory changes nothing, and the sum
  written (and the verdict of `Validate`) for the sorted listing is that of the directory;
* `byKeys_perm_invariant`: `byKeys(map)` (plan.go) – the key order the cycle detection iterates in –
  is the same for every enumeration order of the map.

PARTIAL: `plan_decl_order` (permuting the declaration order changes at most the order of independent
statements) and everything about goroutines / processes is covered by the run (20 repetitions in one
process, fresh processes, concurrent execution under the race detector, permuted HCL), not by theorems.
-/
import Atlas.Hash
import Atlas.Sort

namespace Props.C20
open Atlas Atlas.Hash

/-! ### `bytesLt` is a strict total order -/

theorem bytesLt_irrefl : ∀ a : Bytes, bytesLt a a = false := by
  intro a
  induction a with
  | nil => rfl
  | cons x xs ih => simp [bytesLt, ih]

theorem bytesLt_trans : ∀ a b c : Bytes, bytesLt a b = true → bytesLt b c = true → bytesLt a c = true := by
  intro a
  induction a with
  | nil =>
    intro b c h1 h2
    cases b with
    | nil => simp [bytesLt] at h1
    | cons y ys => cases c with
      | nil => simp [bytesLt] at h2
      | cons z zs => simp [bytesLt]
  | cons x xs ih =>
    intro b c h1 h2
    cases b with
    | nil => simp [bytesLt] at h1
    | cons y ys =>
      cases c with
      | nil => simp [bytesLt] at h2
      | cons z zs =>
        simp only [bytesLt] at h1 h2 ⊢
        by_cases hxy : x < y
        · by_cases hyz : y < z
          · have : x < z := UInt8.lt_trans hxy hyz
            simp [this]
          · simp only [hyz, if_false] at h2
            by_cases hzy : z < y
            · simp [hzy] at h2
            · have : y = z := UInt8.le_antisymm (UInt8.not_lt.mp hzy) (UInt8.not_lt.mp hyz)
              subst this; simp [hxy]
        · simp only [hxy, if_false] at h1
          by_cases hyx : y < x
          · simp [hyx] at h1
          · simp only [hyx, if_false] at h1
            have hxy' : x = y := UInt8.le_antisymm (UInt8.not_lt.mp hyx) (UInt8.not_lt.mp hxy)
            subst hxy'
            by_cases hxz : x < z
            · simp [hxz]
            · simp only [hxz, if_false] at h2 ⊢
              by_cases hzx : z < x
              · simp [hzx] at h2
              · simp only [hzx, if_false] at h2 ⊢
                exact ih ys zs h1 h2

theorem bytesLt_total : ∀ a b : Bytes, a ≠ b → bytesLt a b = true ∨ bytesLt b a = true := by
  intro a
  induction a with
  | nil => intro b h; cases b with
    | nil => exact absurd rfl h
    | cons y ys => left; rfl
  | cons x xs ih =>
    intro b h
    cases b with
    | nil => right; rfl
    | cons y ys =>
      simp only [bytesLt]
      by_cases hxy : x < y
      · left; simp [hxy]
      · by_cases hyx : y < x
        · right; simp [hyx]
        · have hx : x = y := UInt8.le_antisymm (UInt8.not_lt.mp hyx) (UInt8.not_lt.mp hxy)
          subst hx
          simp only [hxy, if_false]
          have : xs ≠ ys := fun e => h (by rw [e])
          exact ih ys this

theorem bytesLt_asymm (a b : Bytes) (h : bytesLt a b = true) : bytesLt b a = false := by
  cases hb : bytesLt b a with
  | false => rfl
  | true => have := bytesLt_trans a b a h hb; rw [bytesLt_irrefl] at this; cases this

/-! ### sorting by name -/

def NameLt (f g : DFile) : Prop := bytesLt f.name g.name = true

theorem insertSorted_perm (f : DFile) : ∀ l : List DFile, (insertSorted f l).Perm (f :: l) := by
  intro l
  induction l with
  | nil => simp [insertSorted]
  | cons g gs ih =>
    unfold insertSorted
    split
    · exact List.Perm.refl _
    · exact (List.Perm.cons g ih).trans (List.Perm.swap f g gs)

theorem sortFiles_perm (l : List DFile) : (sortFiles l).Perm l := by
  unfold sortFiles
  induction l with
  | nil => simp
  | cons f fs ih =>
    simp only [List.foldr_cons]
    exact (insertSorted_perm f _).trans (List.Perm.cons f ih)

theorem insertSorted_sorted (f : DFile) : ∀ l : List DFile, l.Pairwise NameLt →
    (∀ g ∈ l, g.name ≠ f.name) → (insertSorted f l).Pairwise NameLt := by
  intro l
  induction l with
  | nil => intro _ _; simp [insertSorted]
  | cons g gs ih =>
    intro hs hne
    unfold insertSorted
    have hs' := List.pairwise_cons.mp hs
    split
    · rename_i hlt
      refine List.pairwise_cons.mpr ⟨?_, hs⟩
      intro x hx
      rcases List.mem_cons.mp hx with rfl | hx
      · exact hlt
      · exact bytesLt_trans _ _ _ hlt (hs'.1 x hx)
    · rename_i hnlt
      have hgf : bytesLt g.name f.name = true := by
        rcases bytesLt_total f.name g.name (fun e => hne g (List.mem_cons_self ..) e.symm) with h | h
        · exact absurd h hnlt
        · exact h
      refine List.pairwise_cons.mpr ⟨?_, ih hs'.2 (fun x hx => hne x (List.mem_cons_of_mem _ hx))⟩
      intro x hx
      have := (insertSorted_perm f gs).subset hx
      rcases List.mem_cons.mp this with rfl | hx'
      · exact hgf
      · exact hs'.1 x hx'

theorem sortFiles_sorted : ∀ l : List DFile, (l.map (·.name)).Nodup → (sortFiles l).Pairwise NameLt := by
  intro l
  induction l with
  | nil => intro _; simp [sortFiles]
  | cons f fs ih =>
    intro hnd
    simp only [List.map_cons, List.nodup_cons] at hnd
    have : sortFiles (f :: fs) = insertSorted f (sortFiles fs) := rfl
    rw [this]
    apply insertSorted_sorted f _ (ih hnd.2)
    intro g hg heq
    have hg' := (sortFiles_perm fs).subset hg
    exact hnd.1 (by rw [← heq]; exact List.mem_map_of_mem hg')

/-- **sortFiles_perm_invariant**: the listing order of the directory does not matter. -/
theorem sortFiles_perm_invariant (l1 l2 : List DFile) (hp : l1.Perm l2) (hnd : (l1.map (·.name)).Nodup) :
    sortFiles l1 = sortFiles l2 := by
  have hnd2 : (l2.map (·.name)).Nodup := (hp.map _).nodup_iff.mp hnd
  apply List.Perm.eq_of_pairwise (le := NameLt)
  · intro a b _ _ h1 h2
    have := bytesLt_asymm _ _ h1
    unfold NameLt at h2
    rw [this] at h2; cases h2
  · exact sortFiles_sorted l1 hnd
  · exact sortFiles_sorted l2 hnd2
  · exact (sortFiles_perm l1).trans (hp.trans (sortFiles_perm l2).symm)

/-- `Dir.Files()` is independent of the enumeration order. -/
theorem files_perm_invariant (d1 d2 : List DFile) (hp : d1.Perm d2) (hnd : (d1.map (·.name)).Nodup) :
    files d1 = files d2 := by
  unfold files
  apply sortFiles_perm_invariant
  · exact hp.filter _
  · exact (List.Nodup.sublist ((List.filter_sublist).map _) hnd)

/-- **hash_perm**: the sum file written for a directory, and the verdict of `Validate`, do not depend
on the order in which the directory (or the MemDir map) lists its files. -/
theorem hash_perm (H : Bytes → Bytes) (d1 d2 : List DFile) (hp : d1.Perm d2) (hnd : (d1.map (·.name)).Nodup) :
    writeSum H d1 = writeSum H d2 ∧ ∀ sum, validate H d1 sum = validate H d2 sum := by
  have hf := files_perm_invariant d1 d2 hp hnd
  refine ⟨by unfold writeSum; rw [hf], fun sum => ?_⟩
  unfold validate
  rw [hf]

/-! ### `byKeys` -/

def StrLt (a b : String) : Prop := decide (a < b) = true

theorem insertBy_perm (x : String) : ∀ l : List String,
    (Sort.insertBy (fun a b => decide (a < b)) x l).Perm (x :: l) := by
  intro l
  induction l with
  | nil => simp [Sort.insertBy]
  | cons y ys ih =>
    unfold Sort.insertBy
    split
    · exact List.Perm.refl _
    · exact (List.Perm.cons y ih).trans (List.Perm.swap x y ys)

theorem sortBy_perm (l : List String) : (Sort.sortBy (fun a b => decide (a < b)) l).Perm l := by
  unfold Sort.sortBy
  induction l with
  | nil => simp
  | cons x xs ih => simp only [List.foldr_cons]; exact (insertBy_perm x _).trans (List.Perm.cons x ih)

theorem insertBy_sorted (x : String) : ∀ l : List String, l.Pairwise (· < ·) → x ∉ l →
    (Sort.insertBy (fun a b => decide (a < b)) x l).Pairwise (· < ·) := by
  intro l
  induction l with
  | nil => intro _ _; simp [Sort.insertBy]
  | cons y ys ih =>
    intro hs hne
    unfold Sort.insertBy
    have hs' := List.pairwise_cons.mp hs
    split
    · rename_i hlt
      have hlt' : x < y := by simpa using hlt
      refine List.pairwise_cons.mpr ⟨?_, hs⟩
      intro z hz
      rcases List.mem_cons.mp hz with rfl | hz
      · exact hlt'
      · exact String.lt_trans hlt' (hs'.1 z hz)
    · rename_i hnlt
      have hnlt' : ¬ x < y := by simpa using hnlt
      have hyx : y < x := by
        have hle : y ≤ x := String.not_lt.mp hnlt'
        rcases String.le_total x y with h | _
        · have : x = y := String.le_antisymm h hle
          exact absurd (this ▸ List.mem_cons_self ..) hne
        · exact Std.lt_of_le_of_ne hle (fun e => hne (e ▸ List.mem_cons_self ..))
      refine List.pairwise_cons.mpr ⟨?_, ih hs'.2 (fun h => hne (List.mem_cons_of_mem _ h))⟩
      intro z hz
      have := (insertBy_perm x ys).subset hz
      rcases List.mem_cons.mp this with rfl | hz'
      · exact hyx
      · exact hs'.1 z hz'

theorem sortBy_sorted : ∀ l : List String, l.Nodup → (Sort.sortBy (fun a b => decide (a < b)) l).Pairwise (· < ·) := by
  intro l
  induction l with
  | nil => intro _; simp [Sort.sortBy]
  | cons x xs ih =>
    intro hnd
    rw [List.nodup_cons] at hnd
    have : Sort.sortBy (fun a b => decide (a < b)) (x :: xs) =
        Sort.insertBy (fun a b => decide (a < b)) x (Sort.sortBy (fun a b => decide (a < b)) xs) := rfl
    rw [this]
    exact insertBy_sorted x _ (ih hnd.2) (fun h => hnd.1 ((sortBy_perm xs).subset h))

/-- **byKeys_perm_invariant**: the sorted key list is the same for every enumeration of the map. -/
theorem byKeys_perm_invariant (k1 k2 : List String) (hp : k1.Perm k2) (hnd : k1.Nodup) :
    Sort.sortBy (fun a b => decide (a < b)) k1 = Sort.sortBy (fun a b => decide (a < b)) k2 := by
  apply List.Perm.eq_of_pairwise (le := (· < ·))
  · intro a b _ _ h1 h2; exact absurd h2 (String.lt_asymm h1)
  · exact sortBy_sorted k1 hnd
  · exact sortBy_sorted k2 (hp.nodup_iff.mp hnd)
  · exact (sortBy_perm k1).trans (hp.trans (sortBy_perm k2).symm)

theorem sortFiles_names_nodup (l : List DFile) (hnd : (l.map (·.name)).Nodup) : ((sortFiles l).map (·.name)).Nodup :=
  ((sortFiles_perm l).map (·.name)).nodup_iff.mpr hnd

/-- **sortFiles_idempotent**: listing an already listed directory changes nothing. -/
theorem sortFiles_idempotent (l : List DFile) (hnd : (l.map (·.name)).Nodup) :
    sortFiles (sortFiles l) = sortFiles l :=
  sortFiles_perm_invariant (sortFiles l) l (sortFiles_perm l) (sortFiles_names_nodup l hnd)

/-- **hash_of_listing**: the sum written for the sorted listing of a directory is the sum of the directory,
and `Validate` answers the same for both — `migrate hash` on files handed over in listing order, or
run twice, writes the same bytes. -/
theorem hash_of_listing (H : Bytes → Bytes) (d : List DFile) (hnd : (d.map (·.name)).Nodup) :
    writeSum H (sortFiles d) = writeSum H d ∧ ∀ sum, validate H (sortFiles d) sum = validate H d sum :=
  hash_perm H (sortFiles d) d (sortFiles_perm d) (sortFiles_names_nodup d hnd)

end Props.C20
