/-
C15 — HCL round trip returns an equivalent schema, for every dialect and column type.

Model: `Atlas.HclType` — the generic integer-attribute mechanism of schemahcl.TypeRegistry (Convert's
trailing-zero elision with the repaired "explicit" rule, and the reader that fills absent trailing
parameters with the dialect's defaults). The correspondence run compares `toAttrs` with the real
`TypeRegistry.Convert` for every registered type spec of the three dialects x parameter grid, and
decides the schema-level statement (MarshalHCL -> EvalHCLBytes -> diff both ways -> re-marshal) and
the FormatType/ParseType fixpoint on the whole type catalogue and attribute grid.

Proved here (attribute lists of any length):
* `written_prefix` — what is written is a prefix of the values;
* `roundtrip` — reading back what was written returns exactly the original values, provided every
  elided position (value 0, not explicit) has dialect default 0;
* `roundtrip_all_explicit` — with all values explicit nothing is elided: unconditional round trip;
* `last_kept_writes_all` / `explicit_last_zero_written` — when the last parameter is explicit or not
  zero every parameter is written; an explicit zero in last position is written whatever precedes it;
* `remarshal_same_bytes` — under the hypothesis of `roundtrip`, writing what was read back gives the
  same attribute list as the first writing;
* `pinned_loses_explicit_zero` — on the pinned tree an explicit zero in last position was elided and
  read back as the dialect's default (timestamp(0) -> timestamp = timestamp(6)).

PARTIAL: only the integer-attribute mechanism is modelled; FormatType/ParseType of the dialects, the
spec conversion of tables/columns/indexes/keys and the differ are exercised on the implementation
(catalogue + grids), not proved.
-/
import Atlas.HclType

namespace Props.C15
open Atlas.HclType

theorem dropTrailing_prefix : ∀ (vals : List AttrVal), dropTrailing vals <+: vals.map (·.1) := by
  intro vals
  induction vals with
  | nil => exact List.prefix_refl _
  | cons x xs ih =>
    unfold dropTrailing
    split
    · rename_i h
      split
      · exact List.nil_prefix
      · simp
    · rename_i r hne
      simp only [List.map_cons]
      exact (List.cons_prefix_cons).mpr ⟨rfl, ih⟩

/-- **written_prefix**. -/
theorem written_prefix (vals : List AttrVal) : toAttrs vals <+: vals.map (·.1) := dropTrailing_prefix vals

/-- every position that is not written holds a zero that is not explicit. -/
theorem dropped_are_implicit_zero : ∀ (vals : List AttrVal) (i : Nat), (dropTrailing vals).length ≤ i →
    ∀ v, vals[i]? = some v → v = (0, false) := by
  intro vals
  induction vals with
  | nil => intro i _ v h; simp at h
  | cons x xs ih =>
    intro i hi v hv
    unfold dropTrailing at hi
    cases hd : dropTrailing xs with
    | nil =>
      rw [hd] at hi
      simp only at hi
      by_cases hx : x.1 = 0 ∧ x.2 = false
      · cases i with
        | zero =>
          simp at hv; subst hv
          exact Prod.ext hx.1 hx.2
        | succ j =>
          simp at hv
          exact ih j (by rw [hd]; exact Nat.zero_le _) v hv
      · rw [if_neg hx] at hi
        cases i with
        | zero => simp at hi
        | succ j =>
          simp at hv
          exact ih j (by rw [hd]; exact Nat.zero_le _) v hv
    | cons r rs =>
      rw [hd] at hi
      simp only [List.length_cons] at hi
      cases i with
      | zero => omega
      | succ j =>
        simp at hv
        exact ih j (by rw [hd]; simp; omega) v hv

/-- **roundtrip**: if the dialect reads an absent parameter as 0 wherever an implicit zero may have
been elided, reading back what `Convert` wrote returns the original values. -/
theorem roundtrip (vals : List AttrVal) (defaults : List Nat) (hl : defaults.length = vals.length)
    (hd : ∀ i : Nat, vals[i]? = some (0, false) → defaults[i]? = some 0) :
    fromAttrs defaults (toAttrs vals) = vals.map (·.1) := by
  unfold fromAttrs toAttrs
  obtain ⟨t, ht⟩ := dropTrailing_prefix vals
  apply List.ext_getElem?
  intro i
  by_cases hi : i < (dropTrailing vals).length
  · rw [List.getElem?_append_left hi, ← ht, List.getElem?_append_left hi]
  · have hi' : (dropTrailing vals).length ≤ i := by omega
    rw [List.getElem?_append_right hi', List.getElem?_drop]
    have hidx : (dropTrailing vals).length + (i - (dropTrailing vals).length) = i := by omega
    rw [hidx]
    cases hv : vals[i]? with
    | none =>
      have : vals.length ≤ i := by
        rcases Nat.lt_or_ge i vals.length with h | h
        · rw [List.getElem?_eq_getElem h] at hv; cases hv
        · exact h
      rw [List.getElem?_eq_none (by omega), List.getElem?_eq_none (by simp; omega)]
    | some v =>
      have := dropped_are_implicit_zero vals i hi' v hv
      subst this
      rw [hd i hv]
      simp [hv]

/-- **roundtrip_all_explicit**: explicit values are never elided. -/
theorem roundtrip_all_explicit (vals : List AttrVal) (defaults : List Nat) (hl : defaults.length = vals.length)
    (he : ∀ v ∈ vals, v.2 = true) : fromAttrs defaults (toAttrs vals) = vals.map (·.1) := by
  apply roundtrip vals defaults hl
  intro i hi
  have := he (0, false) (List.mem_of_getElem? hi)
  cases this

/-- **pinned_loses_explicit_zero**: `timestamp(0)` (explicit precision 0, dialect default 6) was
written as `timestamp` and read back as precision 6; the repaired rule keeps it. -/
theorem pinned_loses_explicit_zero :
    fromAttrs [6] (toAttrsPinned [(0, true)]) = [6] ∧ fromAttrs [6] (toAttrs [(0, true)]) = [0] := by decide

/-! ### non-vacuity -/

/-- decimal(10) with scale 0 (implicit): written as `decimal(10)`, read back as (10, 0). -/
example : toAttrs [(10, false), (0, false)] = [10] ∧ fromAttrs [10, 0] [10] = [10, 0] := by decide
/-- a zero in the middle is kept when something follows. -/
example : toAttrs [(0, false), (2, false)] = [0, 2] := by decide

/-- **last_kept_writes_all**: when the last parameter is explicit or not zero, nothing is elided —
every parameter is written (lists of any length). -/
theorem last_kept_writes_all : ∀ (vals : List AttrVal) (h : vals ≠ []),
    ¬ ((vals.getLast h).1 = 0 ∧ (vals.getLast h).2 = false) → toAttrs vals = vals.map (·.1) := by
  intro vals
  unfold toAttrs
  induction vals with
  | nil => intro h; exact absurd rfl h
  | cons x xs ih =>
    intro _ hl
    cases xs with
    | nil =>
      simp only [List.getLast_singleton] at hl
      simp [dropTrailing, hl]
    | cons y ys =>
      have hne : y :: ys ≠ [] := by simp
      rw [List.getLast_cons hne] at hl
      have := ih hne hl
      unfold dropTrailing
      rw [this]
      simp

/-- an explicit zero in last position is written (the repaired rule), whatever precedes it. -/
theorem explicit_last_zero_written (pre : List AttrVal) :
    toAttrs (pre ++ [(0, true)]) = pre.map (·.1) ++ [0] := by
  have := last_kept_writes_all (pre ++ [(0, true)]) (by simp) (by simp)
  simpa using this

/-- **remarshal_same_bytes**: under the hypothesis of `roundtrip`, writing what was read back (with
the explicitness the reader restores) gives the same attribute list as the first writing. -/
theorem remarshal_same_bytes (vals : List AttrVal) (defaults : List Nat) (hl : defaults.length = vals.length)
    (hd : ∀ i : Nat, vals[i]? = some (0, false) → defaults[i]? = some 0) :
    toAttrs ((fromAttrs defaults (toAttrs vals)).zip (vals.map (·.2))) = toAttrs vals := by
  rw [roundtrip vals defaults hl hd]
  congr 1
  clear hl hd
  induction vals with
  | nil => rfl
  | cons v vs ih => simp [ih]

example : toAttrs [(3, false), (0, true)] = [3, 0] := by decide

end Props.C15
