/-
C13 — Failure atomicity follows the transaction mode; dry-run changes nothing.

Model: `Atlas.Tx` with failing statements (`ok = false`): `planFiles` = `migrateApplyRun`'s loop with
`tx.driverFor / mayRollback / mayCommit / commit`, `fileOps` = the write order of `Executor.Execute`,
`schemaApply` = `applyChanges` of `schema apply` in its default mode. Plans, final states and the state
after fix-and-re-run are compared with the real binary by the correspondence run.

Proved for every directory `good ++ bad :: rest` (any sizes; `good` succeeds, statement `j` of `bad`
fails, no txmode directives), every number `t0 ≤ |good|` of files applied by earlier runs:
* `fail_file_mode` — the database and the revision table are exactly as after the last completely
  applied file (`after dir |good|`), and the command fails;
* `fail_all_mode` — exactly as before the command;
* `fail_none_mode` — exactly the successful prefix, recorded as such with the error;
* `fix_and_rerun_file / _all / _none` — after replacing the failing file by a succeeding one with the
  same number of statements, the same command reaches the database of a run that never failed;
* `dry_run_identity` — with `--dry-run` the command performs no database operation;
* `schema_apply_all_or_nothing` — `schema apply`: every statement's effect, or the database unchanged.

PARTIAL: per-file txmode directives and the apply-count argument are covered by the correspondence
run (and `mayCommit`'s repaired per-file decision), not by these theorems; `dry_run_identity` speaks
about the operations of the apply loop: the revision-table bootstrap and the `--baseline` revision,
which the real command performs before the loop even under `--dry-run`, are outside the model and
reported by the correspondence run (known findings).
-/
import Lemmas.TxFail
import Props.C10

namespace Props.C13
open Atlas.Tx Props.C10

/-- the shape of the directory: `good` files, the failing file, the rest. -/
structure FailDir (good : List TFile) (bad : TFile) (j : Nat) : Prop where
  good : AllOk good
  bad : bad.FailsAt j

theorem after_good (good : List TFile) (x : List TFile) (t : Nat) (ht : t ≤ good.length) :
    after (good ++ x) t = after good t := by
  unfold after; rw [List.take_append_of_le_length ht]

theorem drop_good (good : List TFile) (x : List TFile) (t : Nat) (ht : t ≤ good.length) :
    (good ++ x).drop t = good.drop t ++ x := List.drop_append_of_le_length ht

theorem after_revs_length_good (good x : List TFile) (t : Nat) (ht : t ≤ good.length) :
    (after (good ++ x) t).revs.length = t :=
  after_revs_length _ t (by simp; omega)

theorem applyFiles_after_good (good x : List TFile) (t0 : Nat) (ht : t0 ≤ good.length) :
    applyFiles (after (good ++ x) t0) (good.drop t0) = after (good ++ x) good.length := by
  rw [after_good _ _ _ ht, after_good _ _ _ (Nat.le_refl _)]
  unfold after
  rw [← applyFiles_append, List.take_append_drop, List.take_length]

/-- **fail_file_mode**: file mode: exactly as after the last completely applied file. -/
theorem fail_file_mode (cfg : Cfg) (hm : cfg.mode = .file) (hc : cfg.count = none) (hd : cfg.dryRun = false)
    (good : List TFile) (bad : TFile) (j : Nat) (rest : List TFile) (h : FailDir good bad j)
    (t0 : Nat) (ht0 : t0 ≤ good.length) :
    let dir := good ++ bad :: rest
    runAll (after dir t0) (plan cfg dir (after dir t0)).1 = after dir good.length ∧
    (plan cfg dir (after dir t0)).2 = false := by
  intro dir
  have hl := after_revs_length_good good (bad :: rest) t0 ht0
  have hplan : plan cfg dir (after dir t0) = _ := plan_after cfg hc hd dir t0 (by simp [dir]; omega)
  rw [hplan, drop_good _ _ _ ht0,
    planFiles_file_fail cfg hm _ bad j h.bad rest _ t0 (fun f hf => h.good f (List.mem_of_mem_drop hf)) (by rw [hl]; exact Nat.le_refl _)]
  refine ⟨?_, rfl⟩
  unfold runAll St.crash
  have hb := blocks_full (good.drop t0) (after dir t0)
  rw [hl] at hb
  rw [applyOps_append, hb, block_rollback _ (failBody_pure _ _ _)]
  exact applyFiles_after_good good _ t0 ht0

/-- **fail_all_mode**: all mode: exactly as before the command. -/
theorem fail_all_mode (cfg : Cfg) (hm : cfg.mode = .all) (hc : cfg.count = none) (hd : cfg.dryRun = false)
    (good : List TFile) (bad : TFile) (j : Nat) (rest : List TFile) (h : FailDir good bad j)
    (t0 : Nat) (ht0 : t0 ≤ good.length) :
    let dir := good ++ bad :: rest
    runAll (after dir t0) (plan cfg dir (after dir t0)).1 = after dir t0 ∧
    (plan cfg dir (after dir t0)).2 = false := by
  intro dir
  have hl := after_revs_length_good good (bad :: rest) t0 ht0
  have hplan : plan cfg dir (after dir t0) = _ := plan_after cfg hc hd dir t0 (by simp [dir]; omega)
  rw [hplan, drop_good _ _ _ ht0,
    planFiles_all_fail cfg hm _ bad j h.bad rest _ t0 (fun f hf => h.good f (List.mem_of_mem_drop hf)) (by rw [hl]; exact Nat.le_refl _)]
  refine ⟨?_, rfl⟩
  unfold runAll St.crash
  rw [block_rollback]
  intro o ho
  rcases List.mem_append.mp ho with ho | ho
  · exact bodies_pure _ _ o ho
  · exact failBody_pure _ _ _ o ho

/-- **fail_none_mode**: none mode: exactly the successful prefix, recorded with the error. -/
theorem fail_none_mode (cfg : Cfg) (hm : cfg.mode = .none) (hc : cfg.count = none) (hd : cfg.dryRun = false)
    (good : List TFile) (bad : TFile) (j : Nat) (rest : List TFile) (h : FailDir good bad j)
    (t0 : Nat) (ht0 : t0 ≤ good.length) :
    let dir := good ++ bad :: rest
    runAll (after dir t0) (plan cfg dir (after dir t0)).1 = failedFile (after dir good.length) j bad.ok.length ∧
    (plan cfg dir (after dir t0)).2 = false := by
  intro dir
  have hl := after_revs_length_good good (bad :: rest) t0 ht0
  have hplan : plan cfg dir (after dir t0) = _ := plan_after cfg hc hd dir t0 (by simp [dir]; omega)
  rw [hplan, drop_good _ _ _ ht0,
    planFiles_none_fail cfg hm _ bad j h.bad rest _ t0 (fun f hf => h.good f (List.mem_of_mem_drop hf)) (by rw [hl]; exact Nat.le_refl _)]
  refine ⟨?_, rfl⟩
  unfold runAll St.crash
  have hpure : ∀ o ∈ bodies t0 (good.drop t0) ++ failBody (t0 + (good.drop t0).length) bad.ok.length j, o.pure = true := by
    intro o ho
    rcases List.mem_append.mp ho with ho | ho
    · exact bodies_pure _ _ o ho
    · exact failBody_pure _ _ _ o ho
  rw [applyOps_pure_none _ hpure]
  show List.foldl _ _ _ = _
  rw [List.foldl_append]
  have hb := bodies_effect (good.drop t0) (after dir t0)
  rw [hl] at hb
  rw [hb, applyFiles_after_good good _ t0 ht0]
  have hg : (after dir good.length).revs.length = t0 + (good.drop t0).length := by
    rw [after_revs_length_good good _ good.length (Nat.le_refl _)]; simp; omega
  rw [← hg, failBody_effect]

/-! ### fixing the file and running again -/

/-- the repaired directory: the failing file replaced by a succeeding one of the same length. -/
structure Fixed (bad bad' : TFile) (rest : List TFile) : Prop where
  ok : bad'.AllOk
  len : bad'.ok.length = bad.ok.length
  rest : AllOk rest

theorem allOk_fixed {good : List TFile} {bad bad' : TFile} {j : Nat} {rest : List TFile}
    (h : FailDir good bad j) (hf : Fixed bad bad' rest) : AllOk (good ++ bad' :: rest) := by
  intro f hmem
  rcases List.mem_append.mp hmem with hm | hm
  · exact h.good f hm
  · rcases List.mem_cons.mp hm with rfl | hm
    · exact hf.ok
    · exact hf.rest f hm

theorem fix_and_rerun_file (cfg : Cfg) (hm : cfg.mode = .file) (hc : cfg.count = none) (hd : cfg.dryRun = false)
    (good : List TFile) (bad bad' : TFile) (j : Nat) (rest : List TFile) (h : FailDir good bad j)
    (hf : Fixed bad bad' rest) (t0 : Nat) (ht0 : t0 ≤ good.length) :
    let dir := good ++ bad :: rest
    let dir' := good ++ bad' :: rest
    let c := runAll (after dir t0) (plan cfg dir (after dir t0)).1
    runAll c (plan cfg dir' c).1 = after dir' dir'.length := by
  intro dir dir' c
  have hc' : c = after dir' good.length := by
    show runAll _ _ = _
    rw [(fail_file_mode cfg hm hc hd good bad j rest h t0 ht0).1, after_good _ _ _ (Nat.le_refl _), after_good _ _ _ (Nat.le_refl _)]
  rw [hc']
  exact rerun_file_all cfg (Or.inl hm) hc hd dir' (allOk_fixed h hf) good.length (by simp [dir'])

theorem fix_and_rerun_all (cfg : Cfg) (hm : cfg.mode = .all) (hc : cfg.count = none) (hd : cfg.dryRun = false)
    (good : List TFile) (bad bad' : TFile) (j : Nat) (rest : List TFile) (h : FailDir good bad j)
    (hf : Fixed bad bad' rest) (t0 : Nat) (ht0 : t0 ≤ good.length) :
    let dir := good ++ bad :: rest
    let dir' := good ++ bad' :: rest
    let c := runAll (after dir t0) (plan cfg dir (after dir t0)).1
    runAll c (plan cfg dir' c).1 = after dir' dir'.length := by
  intro dir dir' c
  have hc' : c = after dir' t0 := by
    show runAll _ _ = _
    rw [(fail_all_mode cfg hm hc hd good bad j rest h t0 ht0).1, after_good _ _ _ ht0, after_good _ _ _ ht0]
  rw [hc']
  exact rerun_file_all cfg (Or.inr hm) hc hd dir' (allOk_fixed h hf) t0 (by simp [dir']; omega)

theorem fix_and_rerun_none (cfg : Cfg) (hm : cfg.mode = .none) (hc : cfg.count = none) (hd : cfg.dryRun = false)
    (good : List TFile) (bad bad' : TFile) (j : Nat) (rest : List TFile) (h : FailDir good bad j)
    (hf : Fixed bad bad' rest) (t0 : Nat) (ht0 : t0 ≤ good.length) :
    let dir := good ++ bad :: rest
    let dir' := good ++ bad' :: rest
    let c := runAll (after dir t0) (plan cfg dir (after dir t0)).1
    runAll c (plan cfg dir' c).1 = after dir' dir'.length := by
  intro dir dir' c
  have hg : after dir good.length = after dir' good.length := by
    rw [after_good _ _ _ (Nat.le_refl _), after_good _ _ _ (Nat.le_refl _)]
  have hc' : c = failedFile (after dir' good.length) j bad'.ok.length := by
    show runAll _ _ = _
    rw [(fail_none_mode cfg hm hc hd good bad j rest h t0 ht0).1, hg, hf.len]
  rw [hc']
  have hl : (after dir' good.length).revs.length = good.length := after_revs_length_good good _ _ (Nat.le_refl _)
  have hjlt : j < bad'.ok.length := by rw [hf.len]; exact h.bad.lt
  have hps : pendingStart (failedFile (after dir' good.length) j bad'.ok.length) = good.length := by
    unfold pendingStart failedFile
    simp only [List.getLast?_concat, if_pos hjlt, List.length_append, List.length_singleton, hl]
    omega
  have hdrop : dir'.drop good.length = bad' :: rest := by simp [dir']
  have hplan : plan cfg dir' (failedFile (after dir' good.length) j bad'.ok.length) =
      (bodyE good.length bad'.ok.length j true ++ bodies (good.length + 1) rest, true) := by
    simp only [plan, hd, hc, limit, hps, hdrop]
    exact planFiles_none_resumeE cfg hm _ bad' rest good.length j true
      (by intro f hmem; rcases List.mem_cons.mp hmem with rfl | hmem; exact hf.ok; exact hf.rest f hmem)
      (by simp [failedFile, hl])
      (by have := List.getElem?_concat_length (l := (after dir' good.length).revs) (a := (⟨j, bad'.ok.length, true⟩ : Rev))
          rw [hl] at this; exact this)
  rw [hplan]
  unfold runAll St.crash
  have hpure : ∀ o ∈ bodyE good.length bad'.ok.length j true ++ bodies (good.length + 1) rest, o.pure = true := by
    intro o ho
    rcases List.mem_append.mp ho with ho | ho
    · exact bodyE_pure _ _ _ _ o ho
    · exact bodies_pure _ _ o ho
  rw [applyOps_pure_none _ hpure]
  have heff := resumeE_effect (after dir' good.length) bad'.ok.length rest j (by omega)
  rw [hl] at heff
  show List.foldl _ _ _ = _
  rw [heff]
  have : after dir' dir'.length = applyFiles (after dir' good.length) (bad' :: rest) := by
    rw [← hdrop, after_all]
  rw [this, applyFiles]
  simp [applyFile, hl]

/-- **dry_run_identity**: with `--dry-run` the apply loop performs no database operation. -/
theorem dry_run_identity (cfg : Cfg) (hd : cfg.dryRun = true) (dir : List TFile) (db : Db) :
    (plan cfg dir db).1 = [] ∧ runAll db (plan cfg dir db).1 = db := by
  simp [plan, hd, runAll, applyOps, St.crash]

/-- **schema_apply_all_or_nothing**. -/
theorem schema_apply_all_or_nothing (stmts : List Bool) (db : Db) :
    runAll db (schemaApply stmts) =
      if stmts.all id then { db with journal := db.journal ++ (List.range stmts.length).map (fun x => (0, x)) } else db := by
  unfold runAll schemaApply St.crash
  rw [applyOps_cons]
  show (applyOps { dur := db, work := some db } (schemaApplyOps 0 stmts)).dur = _
  rw [schemaApplyOps_effect]
  split <;> simp [List.range_eq_range']

/-! ### non-vacuity -/

def good2 : List TFile := [{ ok := [true, true] }]
def badF : TFile := { ok := [true, false, true] }

example : FailDir good2 badF 1 :=
  ⟨by intro f hf; simp [good2] at hf; subst hf; exact ⟨rfl, by simp⟩,
   ⟨rfl, by decide, by decide, by intro i hi; have : i = 0 := by omega
                                  subst this; rfl⟩⟩

/-- none mode: the first file and the first statement of the second are applied, recorded with the
error; file mode: only the first file. -/
example : runAll {} (plan { mode := .none } (good2 ++ [badF]) {}).1 =
    { journal := [(0,0),(0,1),(1,0)], revs := [⟨2,2,false⟩, ⟨1,3,true⟩] } := by decide
example : runAll {} (plan { mode := .file } (good2 ++ [badF]) {}).1 =
    { journal := [(0,0),(0,1)], revs := [⟨2,2,false⟩] } := by decide
example : runAll {} (plan { mode := .all } (good2 ++ [badF]) {}).1 = {} := by decide

/-- the pinned `mayCommit` (global mode) leaves a `txmode file` file under `--tx-mode none`
uncommitted: the next file hits "locked" and everything of that file is rolled back. -/
example :
    let dir : List TFile := [{ ok := [true], directive := some .file }, { ok := [true] }]
    (plan { mode := .none, fixed := false } dir {}).2 = false ∧
    runAll {} (plan { mode := .none, fixed := false } dir {}).1 = {} ∧
    (plan { mode := .none, fixed := true } dir {}).2 = true := by decide

end Props.C13
