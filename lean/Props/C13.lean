/-
C13 — Failure atomicity follows the transaction mode; dry-run changes nothing.

Model: `Atlas.Tx` with failing statements (`ok = false`): `planFiles` = `migrateApplyRun`'s loop with
`tx.driverFor / mayRollback / mayCommit / commit`, `fileOps` = the write order of `Executor.Execute`,
`schemaApply` = `applyChanges` of `schema apply` in its default mode. Plans, final states and the state
after fix-and-re-run are compared with the real binary by the correspondence run.

Proved for every directory `good ++ bad :: rest` (any sizes; `good` succeeds, statement `j` of `bad`
fails, no txmode directives), every number `t0 ≤ |good|` of files applied by earlier runs:
* `fail_file_mode` — the database and the revision table are exactly as after the last completely
  applied file (`after dir |good|`), and the command fails;
* `fail_all_mode` — exactly as before the command;
* `fail_none_mode` — exactly the successful prefix, recorded as such with the error;
* `fix_and_rerun_file / _all / _none` — after replacing the failing file by a succeeding one with the
  same number of statements, the same command reaches the database of a run that never failed;
* `dry_run_identity` — with `--dry-run` the command performs no database operation;
* `schema_apply_all_or_nothing` — `schema apply`: every statement's effect, or the database unchanged.

* `fail_mixed` — directories whose files carry `-- atlas:txmode` directives (any mix of `file` and `none`
  files, by the global mode or per file, repaired `mayCommit`): the outcome follows the mode of the FAILING
  file — rolled back to the last completely applied file if it runs in its own transaction, the successful
  prefix recorded with the error if it runs without one; `fix_and_rerun_mixed` — after repairing the file
  the same command reaches the database of a never-failing run, in both cases;
* `fail_file_mode_count / fail_all_mode_count / fail_none_mode_count`, `count_stops_before_failure` — the
  apply-count argument: when the failing file is among the `n` files to apply the outcome is the one
  above; when the `n` files end before it the command succeeds, applies exactly `n` files and does not
  touch the failing file (via `Atlas.Tx.plan_count`: the command with a count is the count-less command
  on the directory cut after `n` pending files).

* `fail_all_mode_any` — `--tx-mode all` for ANY directory (failing statements anywhere, `txmode` directives
  of any kind - this mode rejects each of them -, any count, any revision table): a command that fails leaves
  the database exactly as it found it; `all_mode_ok_no_directive` — one that succeeds met no directive.

* `fail_file_mode_any` — `--tx-mode file` for ANY directory without directives (repaired `mayCommit`): whether
  the command fails or not, the database is that of a complete, successful run over the first `t` pending
  files for some `t` - the failing file left nothing behind.
* `fail_none_mode_any` — `--tx-mode none` for ANY directory without directives: whether the command fails or
  not, the database holds exactly the operations it performed, in order - nothing is rolled back.

PARTIAL: a per-file directive `all` under `--tx-mode file / none` (rejected by `modeFor`) and the
pinned-tree `mayCommit` (`fixed = false`) are covered by the correspondence run and by `decide`d
instances, not by general theorems; `dry_run_identity` speaks
about the operations of the apply loop: the revision-table bootstrap and the `--baseline` revision,
which the real command performs before the loop even under `--dry-run`, are outside the model and
reported by the correspondence run (known findings).
-/
import Lemmas.TxFail
import Lemmas.TxMixed
import Lemmas.TxAllAtomic
import Lemmas.TxNonePlain
import Lemmas.TxFileBlocks
import Props.C10

namespace Props.C13
open Atlas.Tx Props.C10

/-- the shape of the directory: `good` files, the failing file, the rest. -/
structure FailDir (good : List TFile) (bad : TFile) (j : Nat) : Prop where
  good : AllOk good
  bad : bad.FailsAt j

theorem after_good (good : List TFile) (x : List TFile) (t : Nat) (ht : t ≤ good.length) :
    after (good ++ x) t = after good t := by
  unfold after; rw [List.take_append_of_le_length ht]

theorem drop_good (good : List TFile) (x : List TFile) (t : Nat) (ht : t ≤ good.length) :
    (good ++ x).drop t = good.drop t ++ x := List.drop_append_of_le_length ht

theorem after_revs_length_good (good x : List TFile) (t : Nat) (ht : t ≤ good.length) :
    (after (good ++ x) t).revs.length = t :=
  after_revs_length _ t (by simp; omega)

theorem applyFiles_after_good (good x : List TFile) (t0 : Nat) (ht : t0 ≤ good.length) :
    applyFiles (after (good ++ x) t0) (good.drop t0) = after (good ++ x) good.length := by
  rw [after_good _ _ _ ht, after_good _ _ _ (Nat.le_refl _)]
  unfold after
  rw [← applyFiles_append, List.take_append_drop, List.take_length]

/-- **fail_file_mode**: file mode: exactly as after the last completely applied file. -/
theorem fail_file_mode (cfg : Cfg) (hm : cfg.mode = .file) (hc : cfg.count = none) (hd : cfg.dryRun = false)
    (good : List TFile) (bad : TFile) (j : Nat) (rest : List TFile) (h : FailDir good bad j)
    (t0 : Nat) (ht0 : t0 ≤ good.length) :
    let dir := good ++ bad :: rest
    runAll (after dir t0) (plan cfg dir (after dir t0)).1 = after dir good.length ∧
    (plan cfg dir (after dir t0)).2 = false := by
  intro dir
  have hl := after_revs_length_good good (bad :: rest) t0 ht0
  have hplan : plan cfg dir (after dir t0) = _ := plan_after cfg hc hd dir t0 (by simp [dir]; omega)
  rw [hplan, drop_good _ _ _ ht0,
    planFiles_file_fail cfg hm _ bad j h.bad rest _ t0 (fun f hf => h.good f (List.mem_of_mem_drop hf)) (by rw [hl]; exact Nat.le_refl _)]
  refine ⟨?_, rfl⟩
  unfold runAll St.crash
  have hb := blocks_full (good.drop t0) (after dir t0)
  rw [hl] at hb
  rw [applyOps_append, hb, block_rollback _ (failBody_pure _ _ _)]
  exact applyFiles_after_good good _ t0 ht0

/-- **fail_all_mode**: all mode: exactly as before the command. -/
theorem fail_all_mode (cfg : Cfg) (hm : cfg.mode = .all) (hc : cfg.count = none) (hd : cfg.dryRun = false)
    (good : List TFile) (bad : TFile) (j : Nat) (rest : List TFile) (h : FailDir good bad j)
    (t0 : Nat) (ht0 : t0 ≤ good.length) :
    let dir := good ++ bad :: rest
    runAll (after dir t0) (plan cfg dir (after dir t0)).1 = after dir t0 ∧
    (plan cfg dir (after dir t0)).2 = false := by
  intro dir
  have hl := after_revs_length_good good (bad :: rest) t0 ht0
  have hplan : plan cfg dir (after dir t0) = _ := plan_after cfg hc hd dir t0 (by simp [dir]; omega)
  rw [hplan, drop_good _ _ _ ht0,
    planFiles_all_fail cfg hm _ bad j h.bad rest _ t0 (fun f hf => h.good f (List.mem_of_mem_drop hf)) (by rw [hl]; exact Nat.le_refl _)]
  refine ⟨?_, rfl⟩
  unfold runAll St.crash
  rw [block_rollback]
  intro o ho
  rcases List.mem_append.mp ho with ho | ho
  · exact bodies_pure _ _ o ho
  · exact failBody_pure _ _ _ o ho

/-- **fail_none_mode**: none mode: exactly the successful prefix, recorded with the error. -/
theorem fail_none_mode (cfg : Cfg) (hm : cfg.mode = .none) (hc : cfg.count = none) (hd : cfg.dryRun = false)
    (good : List TFile) (bad : TFile) (j : Nat) (rest : List TFile) (h : FailDir good bad j)
    (t0 : Nat) (ht0 : t0 ≤ good.length) :
    let dir := good ++ bad :: rest
    runAll (after dir t0) (plan cfg dir (after dir t0)).1 = failedFile (after dir good.length) j bad.ok.length ∧
    (plan cfg dir (after dir t0)).2 = false := by
  intro dir
  have hl := after_revs_length_good good (bad :: rest) t0 ht0
  have hplan : plan cfg dir (after dir t0) = _ := plan_after cfg hc hd dir t0 (by simp [dir]; omega)
  rw [hplan, drop_good _ _ _ ht0,
    planFiles_none_fail cfg hm _ bad j h.bad rest _ t0 (fun f hf => h.good f (List.mem_of_mem_drop hf)) (by rw [hl]; exact Nat.le_refl _)]
  refine ⟨?_, rfl⟩
  unfold runAll St.crash
  have hpure : ∀ o ∈ bodies t0 (good.drop t0) ++ failBody (t0 + (good.drop t0).length) bad.ok.length j, o.pure = true := by
    intro o ho
    rcases List.mem_append.mp ho with ho | ho
    · exact bodies_pure _ _ o ho
    · exact failBody_pure _ _ _ o ho
  rw [applyOps_pure_none _ hpure]
  show List.foldl _ _ _ = _
  rw [List.foldl_append]
  have hb := bodies_effect (good.drop t0) (after dir t0)
  rw [hl] at hb
  rw [hb, applyFiles_after_good good _ t0 ht0]
  have hg : (after dir good.length).revs.length = t0 + (good.drop t0).length := by
    rw [after_revs_length_good good _ good.length (Nat.le_refl _)]; simp; omega
  rw [← hg, failBody_effect]

/-! ### fixing the file and running again -/

/-- the repaired directory: the failing file replaced by a succeeding one of the same length. -/
structure Fixed (bad bad' : TFile) (rest : List TFile) : Prop where
  ok : bad'.AllOk
  len : bad'.ok.length = bad.ok.length
  rest : AllOk rest

theorem allOk_fixed {good : List TFile} {bad bad' : TFile} {j : Nat} {rest : List TFile}
    (h : FailDir good bad j) (hf : Fixed bad bad' rest) : AllOk (good ++ bad' :: rest) := by
  intro f hmem
  rcases List.mem_append.mp hmem with hm | hm
  · exact h.good f hm
  · rcases List.mem_cons.mp hm with rfl | hm
    · exact hf.ok
    · exact hf.rest f hm

theorem fix_and_rerun_file (cfg : Cfg) (hm : cfg.mode = .file) (hc : cfg.count = none) (hd : cfg.dryRun = false)
    (good : List TFile) (bad bad' : TFile) (j : Nat) (rest : List TFile) (h : FailDir good bad j)
    (hf : Fixed bad bad' rest) (t0 : Nat) (ht0 : t0 ≤ good.length) :
    let dir := good ++ bad :: rest
    let dir' := good ++ bad' :: rest
    let c := runAll (after dir t0) (plan cfg dir (after dir t0)).1
    runAll c (plan cfg dir' c).1 = after dir' dir'.length := by
  intro dir dir' c
  have hc' : c = after dir' good.length := by
    show runAll _ _ = _
    rw [(fail_file_mode cfg hm hc hd good bad j rest h t0 ht0).1, after_good _ _ _ (Nat.le_refl _), after_good _ _ _ (Nat.le_refl _)]
  rw [hc']
  exact rerun_file_all cfg (Or.inl hm) hc hd dir' (allOk_fixed h hf) good.length (by simp [dir'])

theorem fix_and_rerun_all (cfg : Cfg) (hm : cfg.mode = .all) (hc : cfg.count = none) (hd : cfg.dryRun = false)
    (good : List TFile) (bad bad' : TFile) (j : Nat) (rest : List TFile) (h : FailDir good bad j)
    (hf : Fixed bad bad' rest) (t0 : Nat) (ht0 : t0 ≤ good.length) :
    let dir := good ++ bad :: rest
    let dir' := good ++ bad' :: rest
    let c := runAll (after dir t0) (plan cfg dir (after dir t0)).1
    runAll c (plan cfg dir' c).1 = after dir' dir'.length := by
  intro dir dir' c
  have hc' : c = after dir' t0 := by
    show runAll _ _ = _
    rw [(fail_all_mode cfg hm hc hd good bad j rest h t0 ht0).1, after_good _ _ _ ht0, after_good _ _ _ ht0]
  rw [hc']
  exact rerun_file_all cfg (Or.inr hm) hc hd dir' (allOk_fixed h hf) t0 (by simp [dir']; omega)

theorem fix_and_rerun_none (cfg : Cfg) (hm : cfg.mode = .none) (hc : cfg.count = none) (hd : cfg.dryRun = false)
    (good : List TFile) (bad bad' : TFile) (j : Nat) (rest : List TFile) (h : FailDir good bad j)
    (hf : Fixed bad bad' rest) (t0 : Nat) (ht0 : t0 ≤ good.length) :
    let dir := good ++ bad :: rest
    let dir' := good ++ bad' :: rest
    let c := runAll (after dir t0) (plan cfg dir (after dir t0)).1
    runAll c (plan cfg dir' c).1 = after dir' dir'.length := by
  intro dir dir' c
  have hg : after dir good.length = after dir' good.length := by
    rw [after_good _ _ _ (Nat.le_refl _), after_good _ _ _ (Nat.le_refl _)]
  have hc' : c = failedFile (after dir' good.length) j bad'.ok.length := by
    show runAll _ _ = _
    rw [(fail_none_mode cfg hm hc hd good bad j rest h t0 ht0).1, hg, hf.len]
  rw [hc']
  have hl : (after dir' good.length).revs.length = good.length := after_revs_length_good good _ _ (Nat.le_refl _)
  have hjlt : j < bad'.ok.length := by rw [hf.len]; exact h.bad.lt
  have hps : pendingStart (failedFile (after dir' good.length) j bad'.ok.length) = good.length := by
    unfold pendingStart failedFile
    simp only [List.getLast?_concat, if_pos hjlt, List.length_append, List.length_singleton, hl]
    omega
  have hdrop : dir'.drop good.length = bad' :: rest := by simp [dir']
  have hplan : plan cfg dir' (failedFile (after dir' good.length) j bad'.ok.length) =
      (bodyE good.length bad'.ok.length j true ++ bodies (good.length + 1) rest, true) := by
    simp only [plan, hd, hc, limit, hps, hdrop]
    exact planFiles_none_resumeE cfg hm _ bad' rest good.length j true
      (by intro f hmem; rcases List.mem_cons.mp hmem with rfl | hmem; exact hf.ok; exact hf.rest f hmem)
      (by simp [failedFile, hl])
      (by have := List.getElem?_concat_length (l := (after dir' good.length).revs) (a := (⟨j, bad'.ok.length, true⟩ : Rev))
          rw [hl] at this; exact this)
  rw [hplan]
  unfold runAll St.crash
  have hpure : ∀ o ∈ bodyE good.length bad'.ok.length j true ++ bodies (good.length + 1) rest, o.pure = true := by
    intro o ho
    rcases List.mem_append.mp ho with ho | ho
    · exact bodyE_pure _ _ _ _ o ho
    · exact bodies_pure _ _ o ho
  rw [applyOps_pure_none _ hpure]
  have heff := resumeE_effect (after dir' good.length) bad'.ok.length rest j (by omega)
  rw [hl] at heff
  show List.foldl _ _ _ = _
  rw [heff]
  have : after dir' dir'.length = applyFiles (after dir' good.length) (bad' :: rest) := by
    rw [← hdrop, after_all]
  rw [this, applyFiles]
  simp [applyFile, hl]

/-! ### directories with `-- atlas:txmode` directives -/

/-- `good` files succeed, statement `j` of `bad` fails; every file runs in `file` or `none` mode, by
the global mode or by its own directive. -/
structure MixedFailDir (cfg : Cfg) (good : List TFile) (bad : TFile) (j : Nat) : Prop where
  good : MixedOk cfg good
  bad : bad.FailsIn cfg j

/-- **fail_mixed**: the outcome follows the mode of the FAILING FILE, whatever the modes of the files
before it: a file in its own transaction is rolled back (the database is as after the last completely
applied file); a file without a transaction keeps its successful prefix, recorded with the error. -/
theorem fail_mixed (cfg : Cfg) (hfix : cfg.fixed = true) (hc : cfg.count = none) (hd : cfg.dryRun = false)
    (good : List TFile) (bad : TFile) (j : Nat) (rest : List TFile) (h : MixedFailDir cfg good bad j)
    (t0 : Nat) (ht0 : t0 ≤ good.length) :
    let dir := good ++ bad :: rest
    runAll (after dir t0) (plan cfg dir (after dir t0)).1 =
      (if modeFor cfg bad = some .file then after dir good.length
       else failedFile (after dir good.length) j bad.ok.length) ∧
    (plan cfg dir (after dir t0)).2 = false := by
  intro dir
  have hl := after_revs_length_good good (bad :: rest) t0 ht0
  have hplan : plan cfg dir (after dir t0) = _ := plan_after cfg hc hd dir t0 (by simp [dir]; omega)
  rw [hplan, drop_good _ _ _ ht0,
    planFiles_mixed_fail cfg hfix _ bad j h.bad rest _ t0 (fun f hf => h.good f (List.mem_of_mem_drop hf))
      (by rw [hl]; exact Nat.le_refl _)]
  refine ⟨?_, rfl⟩
  unfold runAll St.crash
  have hb := mblocks_full cfg (good.drop t0) (after dir t0)
  rw [hl] at hb
  rw [applyOps_append, hb, applyFiles_after_good good _ t0 ht0]
  have hg : (after dir good.length).revs.length = t0 + (good.drop t0).length := by
    rw [after_revs_length_good good _ good.length (Nat.le_refl _)]; simp; omega
  rw [← hg, mfail_effect]

/-- the repaired directive mix: the failing file replaced by a succeeding one with the same number of
statements and the same directive; the files behind it succeed. -/
structure MixedFixed (cfg : Cfg) (bad bad' : TFile) (rest : List TFile) : Prop where
  ok : ∀ b ∈ bad'.ok, b = true
  len : bad'.ok.length = bad.ok.length
  dir : bad'.directive = bad.directive
  rest : MixedOk cfg rest

theorem mixedOk_fixed {cfg : Cfg} {good : List TFile} {bad bad' : TFile} {j : Nat} {rest : List TFile}
    (h : MixedFailDir cfg good bad j) (hf : MixedFixed cfg bad bad' rest) : MixedOk cfg (good ++ bad' :: rest) := by
  have hmode : modeFor cfg bad' = modeFor cfg bad := by simp [modeFor, hf.dir]
  intro f hmem
  rcases List.mem_append.mp hmem with hm | hm
  · exact h.good f hm
  · rcases List.mem_cons.mp hm with rfl | hm
    · exact ⟨hf.ok, by rw [hmode]; exact h.bad.mode⟩
    · exact hf.rest f hm

/-- **fix_and_rerun_mixed**: after replacing the failing file of a directive mix by a succeeding one, the
same command reaches the database of a run that never failed – whether the failed file had been rolled
back (own transaction) or had left its recorded prefix (no transaction). -/
theorem fix_and_rerun_mixed (cfg : Cfg) (hfix : cfg.fixed = true) (hc : cfg.count = none) (hd : cfg.dryRun = false)
    (good : List TFile) (bad bad' : TFile) (j : Nat) (rest : List TFile) (h : MixedFailDir cfg good bad j)
    (hf : MixedFixed cfg bad bad' rest) (t0 : Nat) (ht0 : t0 ≤ good.length) :
    let dir := good ++ bad :: rest
    let dir' := good ++ bad' :: rest
    let c := runAll (after dir t0) (plan cfg dir (after dir t0)).1
    runAll c (plan cfg dir' c).1 = after dir' dir'.length := by
  intro dir dir' c
  have hmode : modeFor cfg bad' = modeFor cfg bad := by simp [modeFor, hf.dir]
  have hg : after dir good.length = after dir' good.length := by
    rw [after_good _ _ _ (Nat.le_refl _), after_good _ _ _ (Nat.le_refl _)]
  have hok' := mixedOk_fixed h hf
  by_cases hm : modeFor cfg bad = some .file
  · have hc' : c = after dir' good.length := by
      show runAll _ _ = _
      rw [(fail_mixed cfg hfix hc hd good bad j rest h t0 ht0).1, if_pos hm, hg]
    rw [hc']
    exact (run_mixed cfg hfix hc hd dir' hok' good.length (by simp [dir'])).1
  · have hmn : modeFor cfg bad' = some .none := by
      rw [hmode]; rcases h.bad.mode with h' | h'
      · exact absurd h' hm
      · exact h'
    have hc' : c = failedFile (after dir' good.length) j bad'.ok.length := by
      show runAll _ _ = _
      rw [(fail_mixed cfg hfix hc hd good bad j rest h t0 ht0).1, if_neg hm, hg, hf.len]
    rw [hc']
    have hl : (after dir' good.length).revs.length = good.length := after_revs_length_good good _ _ (Nat.le_refl _)
    have hjlt : j < bad'.ok.length := by rw [hf.len]; exact h.bad.lt
    have hps : pendingStart (failedFile (after dir' good.length) j bad'.ok.length) = good.length := by
      unfold pendingStart failedFile
      simp only [List.getLast?_concat, if_pos hjlt, List.length_append, List.length_singleton, hl]
      omega
    have hdrop : dir'.drop good.length = bad' :: rest := by simp [dir']
    have hplan : plan cfg dir' (failedFile (after dir' good.length) j bad'.ok.length) =
        (bodyE good.length bad'.ok.length j true ++ mblocks cfg (good.length + 1) rest, true) := by
      simp only [plan, hd, hc, limit, hps, hdrop]
      exact planFiles_mixed_resumeE cfg hfix _ bad' rest good.length j true hf.ok hmn hf.rest
        (by simp [failedFile, hl])
        (by have := List.getElem?_concat_length (l := (after dir' good.length).revs) (a := (⟨j, bad'.ok.length, true⟩ : Rev))
            rw [hl] at this; exact this)
    rw [hplan]
    unfold runAll St.crash
    have heff := resumeE_mixed_effect cfg (after dir' good.length) bad'.ok.length rest j (by omega)
    rw [hl] at heff
    rw [heff]
    have : after dir' dir'.length = applyFiles (after dir' good.length) (bad' :: rest) := by
      rw [← hdrop, after_all]
    rw [this, applyFiles]
    simp [applyFile, hl]

/-! ### the apply-count argument -/

/-- the directory cut behind the failing file: the failing file is among the `n` files to apply. -/
theorem take_reaches_bad (good : List TFile) (bad : TFile) (rest : List TFile) (t0 n : Nat)
    (hn : good.length < t0 + n) :
    (good ++ bad :: rest).take (t0 + n) = good ++ bad :: rest.take (t0 + n - good.length - 1) := by
  rw [List.take_append, List.take_of_length_le (by omega)]
  obtain ⟨m, hm⟩ : ∃ m, t0 + n - good.length = m + 1 := ⟨t0 + n - good.length - 1, by omega⟩
  rw [hm, List.take_succ_cons]
  simp

/-- **fail_file_mode_count / fail_all_mode_count / fail_none_mode_count**: when the failing file is among
the `n` files the command is asked to apply, the count changes nothing about the outcome. -/
theorem fail_file_mode_count (cfg : Cfg) (hm : cfg.mode = .file) (n : Nat) (hc : cfg.count = some n)
    (hd : cfg.dryRun = false)
    (good : List TFile) (bad : TFile) (j : Nat) (rest : List TFile) (h : FailDir good bad j)
    (t0 : Nat) (ht0 : t0 ≤ good.length) (hn : good.length < t0 + n) :
    let dir := good ++ bad :: rest
    runAll (after dir t0) (plan cfg dir (after dir t0)).1 = after dir good.length ∧
    (plan cfg dir (after dir t0)).2 = false := by
  intro dir
  rw [plan_count_after cfg n hc dir t0 (by simp [dir]; omega), ← after_take dir (t0 + n) t0 (by omega)]
  have := fail_file_mode cfg.noCount hm rfl hd good bad j (rest.take (t0 + n - good.length - 1)) h t0 ht0
  simp only [← take_reaches_bad good bad rest t0 n hn] at this
  rw [after_take dir (t0 + n) good.length (by omega)] at this
  exact this

theorem fail_all_mode_count (cfg : Cfg) (hm : cfg.mode = .all) (n : Nat) (hc : cfg.count = some n)
    (hd : cfg.dryRun = false)
    (good : List TFile) (bad : TFile) (j : Nat) (rest : List TFile) (h : FailDir good bad j)
    (t0 : Nat) (ht0 : t0 ≤ good.length) (hn : good.length < t0 + n) :
    let dir := good ++ bad :: rest
    runAll (after dir t0) (plan cfg dir (after dir t0)).1 = after dir t0 ∧
    (plan cfg dir (after dir t0)).2 = false := by
  intro dir
  rw [plan_count_after cfg n hc dir t0 (by simp [dir]; omega)]
  have := fail_all_mode cfg.noCount hm rfl hd good bad j (rest.take (t0 + n - good.length - 1)) h t0 ht0
  simp only [← take_reaches_bad good bad rest t0 n hn] at this
  rw [after_take dir (t0 + n) t0 (by omega)] at this ⊢
  exact this

theorem fail_none_mode_count (cfg : Cfg) (hm : cfg.mode = .none) (n : Nat) (hc : cfg.count = some n)
    (hd : cfg.dryRun = false)
    (good : List TFile) (bad : TFile) (j : Nat) (rest : List TFile) (h : FailDir good bad j)
    (t0 : Nat) (ht0 : t0 ≤ good.length) (hn : good.length < t0 + n) :
    let dir := good ++ bad :: rest
    runAll (after dir t0) (plan cfg dir (after dir t0)).1 = failedFile (after dir good.length) j bad.ok.length ∧
    (plan cfg dir (after dir t0)).2 = false := by
  intro dir
  rw [plan_count_after cfg n hc dir t0 (by simp [dir]; omega), ← after_take dir (t0 + n) t0 (by omega)]
  have := fail_none_mode cfg.noCount hm rfl hd good bad j (rest.take (t0 + n - good.length - 1)) h t0 ht0
  simp only [← take_reaches_bad good bad rest t0 n hn] at this
  rw [after_take dir (t0 + n) good.length (by omega)] at this
  exact this

/-- **count_stops_before_failure** (file / all mode): when the `n` files to apply end before the failing
file, the command succeeds and applies exactly those `n` files: the failing file is not touched. -/
theorem count_stops_before_failure (cfg : Cfg) (hm : cfg.mode = .file ∨ cfg.mode = .all) (n : Nat)
    (hc : cfg.count = some n) (hd : cfg.dryRun = false)
    (good : List TFile) (bad : TFile) (j : Nat) (rest : List TFile) (h : FailDir good bad j)
    (t0 : Nat) (hn : t0 + n ≤ good.length) :
    let dir := good ++ bad :: rest
    runAll (after dir t0) (plan cfg dir (after dir t0)).1 = after dir (t0 + n) ∧
    (plan cfg dir (after dir t0)).2 = true := by
  intro dir
  have ht0 : t0 ≤ good.length := by omega
  have hcut : dir.take (t0 + n) = good.take (t0 + n) := by
    simp only [dir]; rw [List.take_append_of_le_length hn]
  have hgood : AllOk (good.take (t0 + n)) := allOk_take h.good _
  have hlen : (good.take (t0 + n)).length = t0 + n := by simp; omega
  rw [plan_count_after cfg n hc dir t0 (by simp [dir]; omega), ← after_take dir (t0 + n) t0 (by omega), hcut]
  refine ⟨?_, plan_ok cfg.noCount rfl hd _ hgood t0 (by omega)⟩
  rw [rerun_file_all cfg.noCount hm rfl hd _ hgood t0 (by omega), hlen, ← hcut,
    after_take dir (t0 + n) (t0 + n) (Nat.le_refl _)]

/-- **dry_run_identity**: with `--dry-run` the apply loop performs no database operation. -/
theorem dry_run_identity (cfg : Cfg) (hd : cfg.dryRun = true) (dir : List TFile) (db : Db) :
    (plan cfg dir db).1 = [] ∧ runAll db (plan cfg dir db).1 = db := by
  simp [plan, hd, runAll, applyOps, St.crash]

/-- **schema_apply_all_or_nothing**. -/
theorem schema_apply_all_or_nothing (stmts : List Bool) (db : Db) :
    runAll db (schemaApply stmts) =
      if stmts.all id then { db with journal := db.journal ++ (List.range stmts.length).map (fun x => (0, x)) } else db := by
  unfold runAll schemaApply St.crash
  rw [applyOps_cons]
  show (applyOps { dur := db, work := some db } (schemaApplyOps 0 stmts)).dur = _
  rw [schemaApplyOps_effect]
  split <;> simp [List.range_eq_range']

/-! ### non-vacuity -/

def good2 : List TFile := [{ ok := [true, true] }]
def badF : TFile := { ok := [true, false, true] }

example : FailDir good2 badF 1 :=
  ⟨by intro f hf; simp [good2] at hf; subst hf; exact ⟨rfl, by simp⟩,
   ⟨rfl, by decide, by decide, by intro i hi; have : i = 0 := by omega
                                  subst this; rfl⟩⟩

/-- none mode: the first file and the first statement of the second are applied, recorded with the
error; file mode: only the first file. -/
example : runAll {} (plan { mode := .none } (good2 ++ [badF]) {}).1 =
    { journal := [(0,0),(0,1),(1,0)], revs := [⟨2,2,false⟩, ⟨1,3,true⟩] } := by decide
example : runAll {} (plan { mode := .file } (good2 ++ [badF]) {}).1 =
    { journal := [(0,0),(0,1)], revs := [⟨2,2,false⟩] } := by decide
example : runAll {} (plan { mode := .all } (good2 ++ [badF]) {}).1 = {} := by decide

/-- **fail_all_mode_any**: `--tx-mode all` is all-or-nothing for every directory, every directive mix (all of
them are rejected in this mode), every count and every state of the revision table: a failed command has
changed nothing. -/
theorem fail_all_mode_any (cfg : Cfg) (hm : cfg.mode = .all) (dir : List TFile) (db : Db)
    (hf : (plan cfg dir db).2 = false) : runAll db (plan cfg dir db).1 = db :=
  plan_all_fail_any cfg hm dir db hf

/-- **all_mode_ok_no_directive**: a successful `--tx-mode all` run applied files without directives only. -/
theorem all_mode_ok_no_directive (cfg : Cfg) (hm : cfg.mode = .all) (hd : cfg.dryRun = false) (dir : List TFile)
    (db : Db) (hok : (plan cfg dir db).2 = true) :
    ∀ f ∈ limit cfg.count (dir.drop (pendingStart db)), f.directive = none := by
  unfold plan at hok
  simp only [hd, Bool.false_eq_true, ↓reduceIte] at hok
  exact planFiles_all_ok_directives cfg hm db _ false (pendingStart db) hok

/-- **fail_file_mode_any**: `--tx-mode file`, any directory without directives (failing statements anywhere), any
count and revision table: the final database is the one a complete, successful run over the first `t` pending
files leaves. -/
theorem fail_file_mode_any (cfg : Cfg) (hm : cfg.mode = .file) (hfix : cfg.fixed = true) (hdr : cfg.dryRun = false)
    (dir : List TFile) (hd : ∀ f ∈ dir, f.directive = none) (db : Db) :
    ∃ t, t ≤ (limit cfg.count (dir.drop (pendingStart db))).length ∧
      (planFiles cfg db false (pendingStart db) ((limit cfg.count (dir.drop (pendingStart db))).take t)).2 = true ∧
      runAll db (plan cfg dir db).1 =
        runAll db (planFiles cfg db false (pendingStart db) ((limit cfg.count (dir.drop (pendingStart db))).take t)).1 := by
  obtain ⟨t, ht, hok, heq⟩ := plan_file_crash_any cfg hm hfix hdr dir hd db (plan cfg dir db).1.length
  refine ⟨t, ht, hok, ?_⟩
  simpa [crashAt, runAll, List.take_length] using heq

/-- **fail_none_mode_any**: `--tx-mode none`, any directory without directives (failing statements anywhere),
any count and revision table: the final database is the fold of every operation of the command - the successful
prefix and the revision rows that record it; nothing is undone. -/
theorem fail_none_mode_any (cfg : Cfg) (hm : cfg.mode = .none) (dir : List TFile)
    (hd : ∀ f ∈ dir, f.directive = none) (db : Db) :
    runAll db (plan cfg dir db).1 = (plan cfg dir db).1.foldl durApply db := by
  have := plan_none_crash_any cfg hm dir hd db (plan cfg dir db).1.length
  simpa [crashAt, runAll, List.take_length] using this

/-- premises met: two good files, then a file with a directive (each kind), then another file. -/
def rejDir (m : Mode) : List TFile := [{ ok := [true, true] }, { ok := [true] }, { ok := [true], directive := some m }, { ok := [true] }]

example : ∀ m : Mode, (plan { mode := .all } (rejDir m) {}).2 = false ∧ runAll {} (plan { mode := .all } (rejDir m) {}).1 = {} := by
  intro m; cases m <;> decide
/-- the same directory without the directive commits everything at once. -/
example : (plan { mode := .all } [{ ok := [true, true] }, { ok := [true] }] {}).2 = true ∧
    runAll {} (plan { mode := .all } [{ ok := [true, true] }, { ok := [true] }] {}).1 =
      { journal := [(0,0),(0,1),(1,0)], revs := [⟨2,2,false⟩, ⟨1,1,false⟩] } := by decide

/-- a directive mix: under `--tx-mode none` the first file asks for its own transaction, and so does the
failing one: it is rolled back (`fail_mixed`, first branch); without its directive it keeps its prefix. -/
def goodM : List TFile := [{ ok := [true, true], directive := some .file }, { ok := [true] }]
def badM : TFile := { ok := [true, false, true], directive := some .file }

example : MixedFailDir { mode := .none } goodM badM 1 :=
  ⟨by intro f hf
      simp only [goodM, List.mem_cons, List.not_mem_nil, or_false] at hf
      rcases hf with rfl | rfl
      · exact ⟨by simp, Or.inl (by decide)⟩
      · exact ⟨by simp, Or.inr (by decide)⟩,
   ⟨by decide, by decide, by intro i hi; have : i = 0 := by omega
                             subst this; rfl, Or.inl (by decide)⟩⟩

example : runAll {} (plan { mode := .none } (goodM ++ [badM]) {}).1 =
    { journal := [(0,0),(0,1),(1,0)], revs := [⟨2,2,false⟩, ⟨1,1,false⟩] } := by decide
example : runAll {} (plan { mode := .none } (goodM ++ [{ badM with directive := none }]) {}).1 =
    { journal := [(0,0),(0,1),(1,0),(2,0)], revs := [⟨2,2,false⟩, ⟨1,1,false⟩, ⟨1,3,true⟩] } := by decide
/-- `migrate apply 1` / `migrate apply 2` on `good2 ++ [badF]`: one file and success; the failure. -/
example : plan { mode := .file, count := some 1 } (good2 ++ [badF]) {} = plan { mode := .file } good2 {} ∧
    (plan { mode := .file } good2 {}).2 = true := by decide
example : (plan { mode := .file, count := some 2 } (good2 ++ [badF]) {}).2 = false := by decide

/-- the pinned `mayCommit` (global mode) leaves a `txmode file` file under `--tx-mode none`
uncommitted: the next file hits "locked" and everything of that file is rolled back. -/
example :
    let dir : List TFile := [{ ok := [true], directive := some .file }, { ok := [true] }]
    (plan { mode := .none, fixed := false } dir {}).2 = false ∧
    runAll {} (plan { mode := .none, fixed := false } dir {}).1 = {} ∧
    (plan { mode := .none, fixed := true } dir {}).2 = true := by decide

/-- **schema_apply_failure_changes_nothing**: if any statement of a `schema apply` fails — at any position,
any number of statements — the database is exactly what it was. -/
theorem schema_apply_failure_changes_nothing (stmts : List Bool) (db : Db) (h : false ∈ stmts) :
    runAll db (schemaApply stmts) = db := by
  rw [schema_apply_all_or_nothing]
  have : stmts.all id = false := by
    rw [List.all_eq_false]; exact ⟨false, h, by simp⟩
  simp [this]

/-- … and when none fails every statement has been executed, in order, once. -/
theorem schema_apply_success_runs_all (stmts : List Bool) (db : Db) (h : false ∉ stmts) :
    (runAll db (schemaApply stmts)).journal = db.journal ++ (List.range stmts.length).map (fun x => (0, x)) := by
  rw [schema_apply_all_or_nothing]
  have : stmts.all id = true := by
    rw [List.all_eq_true]; intro x hx; cases x
    · exact absurd hx h
    · rfl
  simp [this]

end Props.C13
