/-
C08 — The statement scanner is total, lossless and position-accurate on arbitrary input.

Model: `Atlas.Lex` (sql/migrate/lex.go), field by field, for every scanner option used by
`migrate.Stmts` and the MySQL / PostgreSQL / SQLite drivers. The theorems below hold for EVERY byte
string (not only 7-bit input) and every combination of the modelled options.

Proved: every returned statement's text is found at its reported position, positions are increasing
and the statements do not overlap (`scan_positions`), and the scan never ends in one of the modelled
out-of-range slice expressions (`scan_never_panics`). Both are false on the pinned commit – witnesses
`pinned_header_pos`, `pinned_delimiter_quote_panics`.

`fuel_suffices`, `fuel_irrelevant` (over `Lemmas/LexFuel.lean`): the loops of the model are written with a
fuel argument; for EVERY input and option set the fuel `scan` hands out is never exhausted (`Out.fuel` is
not a possible outcome) and the result is the same for every larger fuel – every iteration of the `Scan:`
loop that goes on consumes a byte, every returned statement shortens the input, nested BEGIN blocks run on
strictly shorter input. So the model's answers are those of the unbounded loops of lex.go, and those
loops terminate on every input (`statement_shortens_input`, `iteration_consumes`).

`scan_reassembles`, `scan_total_length` — the structural half of *lossless*: for every input and
option set the input is exactly gap₀ ++ stmt₀ ++ gap₁ ++ … ++ stmtₙ₋₁ ++ gapₙ with the returned texts in
the returned order (no byte of a statement altered, duplicated or moved; everything else lies in one
of the n+1 gaps), so the texts together are never longer than the input.

Not proved (covered by the correspondence + monitor only): that each gap holds only
blank/comment/delimiter text (the gap grammar of `lossless`).
-/
import Lemmas.Lex
import Lemmas.LexFuel

namespace Props.C08
open Atlas Atlas.Lex

/-- the statements lie in `src` one after the other, each exactly at its `pos`, the first not before `lo`. -/
def Chain (src : Bytes) : Nat → List Stmt → Prop
  | _, [] => True
  | lo, st :: rest =>
    lo ≤ st.pos ∧ (src.drop st.pos).take st.text.length = st.text ∧ Chain src (st.pos + st.text.length) rest

theorem Chain.mono {src : Bytes} {lo lo' : Nat} {l : List Stmt} (h : Chain src lo l) (hle : lo' ≤ lo) :
    Chain src lo' l := by
  cases l with
  | nil => trivial
  | cons st rest => exact ⟨Nat.le_trans hle h.1, h.2.1, h.2.2⟩

theorem Chain.append {src : Bytes} : ∀ {lo : Nat} {l : List Stmt} {st : Stmt} {hi : Nat},
    Chain src lo l → (∀ x ∈ l, x.pos + x.text.length ≤ hi) → lo ≤ hi → StmtOK src hi (st.pos + st.text.length) st →
    Chain src lo (l ++ [st]) := by
  intro lo l
  induction l generalizing lo with
  | nil =>
    intro st hi _ _ hle ok
    exact ⟨Nat.le_trans hle ok.lo_le, ok.found, trivial⟩
  | cons x xs ih =>
    intro st hi h hall _ ok
    refine ⟨h.1, h.2.1, ih h.2.2 (fun y hy => hall y (List.mem_cons_of_mem _ hy)) (hall x (List.mem_cons_self ..)) ok⟩

/-- the loop of `Scan`: what it adds to the statements collected so far. -/
theorem scanAll_chain (o : Opts) (src : Bytes) (fuel : Nat) :
    ∀ (n : Nat) (s : St) (acc : List Stmt) (out : List Stmt), Inv src s → s.pos = 0 →
      Chain src 0 acc.reverse → (∀ x ∈ acc, x.pos + x.text.length ≤ off src s) →
      scanAll true o fuel n s acc = .inr out → Chain src 0 out := by
  intro n
  induction n with
  | zero => intro s acc out _ _ _ _ h; simp [scanAll] at h
  | succ n ih =>
    intro s acc out inv hp hc hall h
    unfold scanAll at h
    rcases hs : stmt true o fuel s with ⟨s1, res⟩
    rw [hs] at h
    cases res with
    | inl e =>
      cases e with
      | eof => simp only [Sum.inr.injEq] at h; subst h; exact hc
      | err => simp at h
      | panic => simp at h
      | fuel => simp at h
    | inr st =>
      simp only at h
      obtain ⟨i1, p1, ok⟩ := (fuelled o fuel).stmt src s s1 st inv hp hs
      apply ih s1 (st :: acc) out i1 p1 _ _ h
      · rw [List.reverse_cons]
        refine Chain.append hc ?_ (Nat.zero_le _) ⟨ok.lo_le, Nat.le_refl _, ok.found⟩
        intro x hx
        exact hall x (List.mem_reverse.mp hx)
      · intro x hx
        rcases List.mem_cons.mp hx with rfl | hx
        · exact ok.le_hi
        · have h1 := hall x hx
          have h2 : off src s ≤ off src s1 := Nat.le_trans ok.lo_le (Nat.le_trans (Nat.le_add_right _ _) ok.le_hi)
          omega

/-- every statement the loop returns lies inside the input. -/
theorem scanAll_bounded (o : Opts) (src : Bytes) (fuel : Nat) :
    ∀ (n : Nat) (s : St) (acc : List Stmt) (out : List Stmt), Inv src s → s.pos = 0 →
      (∀ x ∈ acc, x.pos + x.text.length ≤ off src s) →
      scanAll true o fuel n s acc = .inr out → ∀ x ∈ out, x.pos + x.text.length ≤ src.length := by
  intro n
  induction n with
  | zero => intro s acc out _ _ _ h; simp [scanAll] at h
  | succ n ih =>
    intro s acc out inv hp hall h
    unfold scanAll at h
    rcases hs : stmt true o fuel s with ⟨s1, res⟩
    rw [hs] at h
    cases res with
    | inl e =>
      cases e with
      | eof =>
        simp only [Sum.inr.injEq] at h; subst h
        intro x hx
        have := hall x (List.mem_reverse.mp hx)
        have hoff : off src s ≤ src.length := by unfold off; omega
        omega
      | err => simp at h
      | panic => simp at h
      | fuel => simp at h
    | inr st =>
      simp only at h
      obtain ⟨i1, p1, ok⟩ := (fuelled o fuel).stmt src s s1 st inv hp hs
      apply ih s1 (st :: acc) out i1 p1 _ h
      intro x hx
      rcases List.mem_cons.mp hx with rfl | hx
      · exact ok.le_hi
      · have h1 := hall x hx
        have h2 : off src s ≤ off src s1 := Nat.le_trans ok.lo_le (Nat.le_trans (Nat.le_add_right _ _) ok.le_hi)
        omega

/-- **scan_positions** (`pos_exact` + `pos_increasing_disjoint`): for every input and every option set,
if the scan returns statements then each statement's text is exactly the bytes of the input at its
reported position, the positions are increasing and the statements do not overlap. -/
theorem scan_positions (o : Opts) (src : Bytes) (stmts : List Stmt) (h : scan true o src = .inr stmts) :
    Chain src 0 stmts := by
  unfold scan at h
  cases hi : init true src with
  | none => rw [hi] at h; cases h
  | some s =>
    rw [hi] at h
    obtain ⟨inv, hp⟩ := init_inv hi
    exact scanAll_chain o src _ _ s [] stmts inv hp trivial (by simp) h

/-- **scan_bounded**: every returned statement lies inside the input (`Pos + len(Text) ≤ len(input)`):
a consumer slicing the file at `Pos` never goes out of range. -/
theorem scan_bounded (o : Opts) (src : Bytes) (stmts : List Stmt) (h : scan true o src = .inr stmts) :
    ∀ st ∈ stmts, st.pos + st.text.length ≤ src.length := by
  unfold scan at h
  cases hi : init true src with
  | none => rw [hi] at h; cases h
  | some s =>
    rw [hi] at h
    obtain ⟨inv, hp⟩ := init_inv hi
    exact scanAll_bounded o src _ _ s [] stmts inv hp (by simp) h

/-- consequence in the words of the property: statement `i` ends before statement `j > i` begins. -/
theorem chain_disjoint {src : Bytes} : ∀ {lo : Nat} {l : List Stmt}, Chain src lo l →
    ∀ i j (hi : i < l.length) (hj : j < l.length), i < j → l[i].pos + l[i].text.length ≤ l[j].pos := by
  intro lo l
  induction l generalizing lo with
  | nil => intro _ i j hi; simp at hi
  | cons x xs ih =>
    intro h i j hi hj hij
    cases j with
    | zero => omega
    | succ j =>
      cases i with
      | zero =>
        simp only [List.getElem_cons_zero, List.getElem_cons_succ]
        -- every later statement starts at or after the end of `x`
        have key : ∀ {lo : Nat} {l : List Stmt}, Chain src lo l → ∀ k (hk : k < l.length), lo ≤ l[k].pos := by
          intro lo l
          induction l generalizing lo with
          | nil => intro _ k hk; simp at hk
          | cons y ys ih2 =>
            intro hc k hk
            cases k with
            | zero => exact hc.1
            | succ k =>
              have h1 := ih2 hc.2.2 k (by simpa using hk)
              have h2 := hc.1
              simp only [List.getElem_cons_succ]
              exact Nat.le_trans h2 (Nat.le_trans (Nat.le_add_right _ _) h1)
        exact key h.2.2 j (by simpa using hj)
      | succ i =>
        simp only [List.getElem_cons_succ]
        exact ih h.2.2 i j (by simpa using hi) (by simpa using hj) (by omega)

/-! ### never a crash -/

theorem delimCmd_no_panic (o : Opts) (s : St) : delimCmd true o s ≠ .inl .panic := by
  unfold delimCmd
  split
  · simp
  · simp only
    split
    · rename_i h; simp at h
    · split <;> simp

/-- `ret` outcomes of an iteration are never the panic outcome. -/
def NoPanicStep : Step → Prop
  | .ret _ out => out ≠ .panic
  | _ => True

theorem beginBlock_np (body : Bool → Bytes → St → Option Nat) (a : Bool) (s : St) (n d op : Nat) :
    NoPanicStep (beginBlock true body a s n d op) := by
  unfold beginBlock
  simp only
  split
  · trivial
  · split <;> trivial

theorem stepCh_np (o : Opts) (body : Bool → Bytes → St → Option Nat) (s : St) (r : R) (d op : Nat) :
    NoPanicStep (stepCh true o body s r d op) := by
  have hE : NoPanicStep (stepE true o body s d op) := by
    unfold stepE
    split
    · split
      · trivial
      · exact beginBlock_np ..
    · trivial
  have hD : NoPanicStep (stepD true o body s d op) := by
    unfold stepD
    split
    · split
      · trivial
      · exact beginBlock_np ..
    · exact hE
  have hC : NoPanicStep (stepC true o body s r d op) := by
    unfold stepC
    split
    · split
      · simp [NoPanicStep]
      · trivial
    · split
      · trivial
      · split
        · trivial
        · split
          · trivial
          · exact hD
  have hB : NoPanicStep (stepB true o body s r d op) := by
    unfold stepB
    split
    · split
      · rename_i out hd
        simp only [NoPanicStep]
        intro hp
        rw [hp] at hd
        exact delimCmd_no_panic o _ hd
      · trivial
    · split
      · trivial
      · exact hC
  unfold stepCh
  split
  · trivial
  · split
    · split
      · simp [NoPanicStep]
      · trivial
    · split
      · split
        · split
          · simp [NoPanicStep]
          · trivial
        · simp [NoPanicStep]
      · exact hB

theorem step_np (o : Opts) (body : Bool → Bytes → St → Option Nat) (s : St) (d op : Nat) :
    NoPanicStep (step true o body s d op) := by
  unfold step
  split
  · split
    · simp [NoPanicStep]
    · split
      · trivial
      · simp [NoPanicStep]
  · exact stepCh_np ..

theorem scanLoop_np (o : Opts) : ∀ (fuel : Nat) (s : St) (d op : Nat),
    (scanLoop true o fuel s d op).2 ≠ .inr .panic := by
  intro fuel
  induction fuel with
  | zero => intro s d op; simp [scanLoop]
  | succ n ih =>
    intro s d op
    unfold scanLoop
    have := step_np o (fun a d b => bodyLoop true o a d n b) s d op
    cases hst : step true o (fun a d b => bodyLoop true o a d n b) s d op with
    | cont s1 d1 op1 => exact ih s1 d1 op1
    | brk s1 t => simp
    | ret s1 out =>
      rw [hst] at this
      simp only [NoPanicStep] at this
      simp only [ne_eq, Sum.inr.injEq]
      exact this

theorem stmt_np (o : Opts) (fuel : Nat) (s : St) : (stmt true o fuel s).2 ≠ .inl .panic := by
  cases fuel with
  | zero => simp [stmt]
  | succ n =>
    unfold stmt
    have := scanLoop_np o n (skipSpaces s) 0 0
    rcases hl : scanLoop true o n (skipSpaces s) 0 0 with ⟨s1, res⟩
    rw [hl] at this
    cases res with
    | inl t => simp
    | inr out =>
      simp only [ne_eq, Sum.inl.injEq]
      intro h
      subst h
      exact this rfl

/-- **scan_never_panics** (the "terminates without crashing" half that is about index/slice
expressions): on the repaired tree no input drives the scanner into an out-of-range slice. -/
theorem scan_never_panics (o : Opts) (src : Bytes) : scan true o src ≠ .inl .panic := by
  unfold scan
  cases hi : init true src with
  | none => simp
  | some s =>
    simp only
    suffices ∀ (n : Nat) (s : St) (acc : List Stmt), scanAll true o (fuelFor src) n s acc ≠ .inl .panic from this _ _ _
    intro n
    induction n with
    | zero => intro s acc; simp [scanAll]
    | succ n ih =>
      intro s acc
      unfold scanAll
      have := stmt_np o (fuelFor src) s
      rcases hs : stmt true o (fuelFor src) s with ⟨s1, res⟩
      rw [hs] at this
      cases res with
      | inr st => exact ih s1 (st :: acc)
      | inl e =>
        cases e with
        | eof => simp
        | err => simp
        | fuel => simp
        | panic => exact absurd rfl this

/-! ### consumers: positions map to lines (`FileReport.Line`, cmd/atlas/internal/migratelint) -/

/-- `FileReport.Line(pos)`: `strings.Count(f.Text[:pos], "\n") + 1` over the raw file bytes. -/
def lineOf (src : Bytes) (pos : Nat) : Nat := (src.take pos).count 10 + 1

/-- where a statement really starts: one more than the number of line feeds before its first byte,
whatever the line ends look like (a carriage return is not a line feed, so CRLF files count the same). -/
theorem line_of_split (pre text rest : Bytes) : lineOf (pre ++ text ++ rest) pre.length = pre.count 10 + 1 := by
  unfold lineOf
  rw [List.append_assoc, List.take_left']
  rfl

/-- **positions_map_to_lines**: for every statement the scanner returns, `Line(Pos)` is the line on
which the statement's text starts in the file: the file splits as `pre ++ text ++ rest` with
`pre.length = Pos`, and the reported line is `1 +` the line feeds of `pre`. -/
theorem positions_map_to_lines (o : Opts) (src : Bytes) (stmts : List Stmt) (h : scan true o src = .inr stmts) :
    ∀ st ∈ stmts, ∃ pre rest, src = pre ++ st.text ++ rest ∧ pre.length = st.pos ∧
      lineOf src st.pos = pre.count 10 + 1 := by
  have hc := scan_positions o src stmts h
  have key : ∀ (l : List Stmt) (lo : Nat), Chain src lo l → ∀ st ∈ l,
      (src.drop st.pos).take st.text.length = st.text := by
    intro l
    induction l with
    | nil => intro _ _ st hst; cases hst
    | cons a l ih =>
      intro lo hch st hst
      rcases List.mem_cons.mp hst with rfl | hm
      · exact hch.2.1
      · exact ih _ hch.2.2 st hm
  intro st hst
  have ht := key stmts 0 hc st hst
  have hlen : st.pos ≤ src.length := by have := scan_bounded o src stmts h st hst; omega
  refine ⟨src.take st.pos, (src.drop st.pos).drop st.text.length, ?_, by simp [hlen], ?_⟩
  · rw [List.append_assoc]
    conv => lhs; rw [← List.take_append_drop st.pos src]
    congr 1
    conv => lhs; rw [← List.take_append_drop st.text.length (src.drop st.pos)]
    rw [ht]
  · unfold lineOf; rfl

/-! ### non-vacuity and the pinned commit's counterexamples (tests by evaluation) -/

/-! ### termination: the fuel of the model is never the limit -/

/-- **iteration_consumes**: an iteration of the `Scan:` loop that continues has moved the cursor forward
by at least one byte (whatever the nested-scanner oracle answers), so the loop of `stmt` terminates. -/
theorem iteration_consumes (fixed : Bool) (o : Opts) (body : Bool → Bytes → St → Option Nat) (s s' : St)
    (d op d' op' : Nat) (h : step fixed o body s d op = .cont s' d' op') : rem s' + 1 ≤ rem s := by
  have := step_prog fixed o body s d op
  rw [h] at this
  exact this.1

/-- **statement_shortens_input**: every statement `stmt` returns leaves strictly less input behind, so the
`for` loop of `Scan` (and of the nested BEGIN … END scanners) terminates. -/
theorem statement_shortens_input (fixed : Bool) (o : Opts) (fuel : Nat) (s s' : St) (st : Stmt)
    (hp : s.pos = 0) (hd : s.delim ≠ []) (h : stmt fixed o fuel s = (s', .inr st)) :
    s'.input.length < s.input.length := by
  have := (stmt_prog fixed o fuel s s' st h hp hd).2.1
  omega

theorem fuelFor_ge (input : Bytes) : 3 * input.length + 2 ≤ fuelFor input := by
  unfold fuelFor
  have : (input.length + 3) * 3 ≤ (input.length + 3) * (input.length + 3) :=
    Nat.mul_le_mul_left _ (by omega)
  omega

/-- both bounds at their thresholds. -/
theorem scanWith_min (fixed : Bool) (o : Opts) (src : Bytes) (F n : Nat)
    (hF : 3 * src.length + 2 ≤ F) (hn : src.length + 1 ≤ n) :
    scanWith fixed o F n src ≠ .inl .fuel ∧
    scanWith fixed o F n src = scanWith fixed o (3 * src.length + 2) (src.length + 1) src := by
  unfold scanWith
  cases hi : init fixed src with
  | none => exact ⟨by simp, rfl⟩
  | some s =>
    obtain ⟨p1, p2, p3⟩ := init_shape hi
    simp only
    obtain ⟨r1, r2⟩ := scanAll_stable fixed o (src.length + 1) s [] (3 * src.length + 2) p1 p3 (by omega) (by omega)
    have e := r2 (F - (3 * src.length + 2)) (n - (src.length + 1))
    have eF : 3 * src.length + 2 + (F - (3 * src.length + 2)) = F := by omega
    have en : src.length + 1 + (n - (src.length + 1)) = n := by omega
    rw [eF, en] at e
    rw [e]
    exact ⟨r1, rfl⟩

/-- **fuel_suffices**: for every input and every option set, the scan never stops because a loop of the
model ran out of fuel. -/
theorem fuel_suffices (fixed : Bool) (o : Opts) (src : Bytes) : scan fixed o src ≠ .inl .fuel := by
  rw [scan_eq_scanWith]
  exact (scanWith_min fixed o src _ _ (fuelFor_ge src) (by omega)).1

/-- **fuel_irrelevant**: any larger bounds give the same result as `scan`: the model computes what the
unbounded loops of lex.go compute. -/
theorem fuel_irrelevant (fixed : Bool) (o : Opts) (src : Bytes) (F n : Nat)
    (hF : 3 * src.length + 2 ≤ F) (hn : src.length + 1 ≤ n) :
    scanWith fixed o F n src = scan fixed o src := by
  rw [scan_eq_scanWith, (scanWith_min fixed o src F n hF hn).2,
    (scanWith_min fixed o src _ _ (fuelFor_ge src) (by omega)).2]

/-- the private fuel of the quote and dollar-quote loops (`len(input) + 1`) is never the limit either. -/
theorem inner_fuel_suffices (q : UInt8) (e : Bool) (m : Bytes) (s : St) (k : Nat) :
    skipQuoteLoop q e (s.input.length + 1 + k) s = skipQuoteLoop q e (s.input.length + 1) s ∧
    dollarLoop m (s.input.length + 1 + k) s = dollarLoop m (s.input.length + 1) s :=
  ⟨skipQuote_fuel_ok q e s k, dollarLoop_fuel_ok m s k⟩

/-- an instance: any generous bounds give the result of `scan` (the hypotheses are plain size bounds). -/
example (o : Opts) : scanWith true o 1000 1000 (Bytes.ascii "BEGIN x;END".toList) =
    scan true o (Bytes.ascii "BEGIN x;END".toList) :=
  fuel_irrelevant true o _ 1000 1000 (by decide) (by decide)

def stmtsOpts : Opts := { matchBeginAtomic := true, matchDollarQuote := true }

/-- `-- atlas:delimiter \\n` followed by a line break and `a` -/
def inHeader : Bytes := Bytes.ascii
  ['-', '-', ' ', 'a', 't', 'l', 'a', 's', ':', 'd', 'e', 'l', 'i', 'm', 'i', 't', 'e', 'r', ' ', '\\', 'n', '\n', 'a']

/-- the repaired `init` counts the 22 bytes of the stripped header line in `total` (so `Stmt.Pos` of
the statement `a` is 22) … -/
example : (init true inHeader).map (fun s => (s.total, s.input)) = some (22, Bytes.ascii ['a']) := by decide

/-- … while the pinned commit starts counting at the second line: every position is short by 22. -/
theorem pinned_header_pos : (init false inHeader).map (fun s => (s.total, s.input)) = some (0, Bytes.ascii ['a']) := by
  decide

/-- the state in which `stmt` calls `delimCmd` for the input `DELIMITER '` + line break + `foo`. -/
def stQuote : St :=
  { input := Bytes.ascii ['D', 'E', 'L', 'I', 'M', 'I', 'T', 'E', 'R', ' ', '\'', '\n', 'f', 'o', 'o'],
    pos := 9, total := 9, width := 1 }

/-- `DELIMITER '` drives the pinned commit into `delim[1:0]` (slice bounds out of range) … -/
theorem pinned_delimiter_quote_panics : delimCmd false stmtsOpts stQuote = .inl .panic := by decide

/-- … and the repaired tree takes the quote character itself as the delimiter. -/
example : (match delimCmd true stmtsOpts stQuote with | .inr s => s.delim | .inl _ => []) = Bytes.ascii ['\''] := by
  decide

/-! ### the structural half of *lossless* -/

/-- gap₀ ++ text₀ ++ gap₁ ++ text₁ ++ … ++ gapₙ. -/
def weave : List Bytes → List Bytes → Bytes
  | g :: gs, t :: ts => g ++ t ++ weave gs ts
  | [g], [] => g
  | _, _ => []

theorem chain_weave {src : Bytes} : ∀ {lo : Nat} {l : List Stmt}, Chain src lo l →
    ∃ gaps : List Bytes, gaps.length = l.length + 1 ∧ src.drop lo = weave gaps (l.map (·.text)) := by
  intro lo l
  induction l generalizing lo with
  | nil => intro _; exact ⟨[src.drop lo], rfl, rfl⟩
  | cons st rest ih =>
    intro h
    obtain ⟨gaps, hlen, hw⟩ := ih h.2.2
    refine ⟨(src.drop lo).take (st.pos - lo) :: gaps, by simp [hlen], ?_⟩
    simp only [List.map_cons, weave]
    rw [← hw]
    have h1 : src.drop lo = (src.drop lo).take (st.pos - lo) ++ (src.drop lo).drop (st.pos - lo) :=
      (List.take_append_drop _ _).symm
    have h2 : (src.drop lo).drop (st.pos - lo) = src.drop st.pos := by
      rw [List.drop_drop]; congr 1; have := h.1; omega
    have h3 : src.drop st.pos = st.text ++ src.drop (st.pos + st.text.length) := by
      have := (List.take_append_drop st.text.length (src.drop st.pos)).symm
      rw [h.2.1, List.drop_drop] at this
      exact this
    rw [List.append_assoc, ← h3, ← h2]
    exact h1

/-- **scan_reassembles** (the structural half of *lossless*): for every input and option set, the
input is exactly gap₀ ++ stmt₀ ++ gap₁ ++ … ++ stmtₙ₋₁ ++ gapₙ with the returned statement texts in
the returned order — no byte of a statement is altered, duplicated or moved, and everything that is
not in a statement lies in one of the n+1 gaps. -/
theorem scan_reassembles (o : Opts) (src : Bytes) (stmts : List Stmt) (h : scan true o src = .inr stmts) :
    ∃ gaps : List Bytes, gaps.length = stmts.length + 1 ∧ src = weave gaps (stmts.map (·.text)) := by
  obtain ⟨gaps, hl, hw⟩ := chain_weave (scan_positions o src stmts h)
  exact ⟨gaps, hl, by simpa using hw⟩

theorem weave_length : ∀ (gaps texts : List Bytes), gaps.length = texts.length + 1 →
    (weave gaps texts).length = (gaps.map List.length).sum + (texts.map List.length).sum := by
  intro gaps texts
  induction texts generalizing gaps with
  | nil =>
    intro h
    match gaps, h with
    | [g], _ => simp [weave]
  | cons t ts ih =>
    intro h
    match gaps, h with
    | g :: gs, h =>
      simp only [weave, List.length_append, List.map_cons, List.sum_cons]
      rw [ih gs (by simpa using h)]
      omega

/-- **scan_total_length**: the statement texts together are never longer than the input. -/
theorem scan_total_length (o : Opts) (src : Bytes) (stmts : List Stmt) (h : scan true o src = .inr stmts) :
    ((stmts.map (·.text)).map List.length).sum ≤ src.length := by
  obtain ⟨gaps, hl, hw⟩ := scan_reassembles o src stmts h
  have := weave_length gaps (stmts.map (·.text)) (by simpa using hl)
  rw [← hw] at this
  omega

example : weave [[1], [2], [3]] [[10], [20]] = [1, 10, 2, 20, 3] := by decide

end Props.C08
