/-
C02 — Diff is exact: every difference is reported once, and nothing else.

Model: `Atlas.Diff` — the generic differ of sql/internal/sqlx/diff.go (table, column, primary-key,
index incl. similar-unnamed matching, foreign-key and check loops) over an abstract schema graph whose
attribute comparisons are equality of tokens. The correspondence run compares this model and an
independent edit catalogue with the three real differs in the CLI's comparison mode.

Proved for well-formed schemas of any size (distinct table / column / index / foreign-key / check
names):
* `diff_self`, `diff_reordered` — the diff of a schema with itself, and with the same tables,
  columns, indexes, foreign keys and checks listed in any other order, is empty;
* `add_table_exact`, `drop_table_exact` — one table added / removed anywhere ⇒ exactly that change;
* `column_edit_exact` — one column added, dropped or modified in one table ⇒ exactly one
  `ModifyTable` holding exactly that column change (with exactly the differing kind bits);
* `fk_edit_exact`, `table_attr_exact` — likewise for a foreign key and the table attributes;
* the generic lemmas `keyedDiff_add/_drop/_modify` state exactness for every keyed collection;
* `diff_characterisation`, `column_diff_characterisation` — for ARBITRARY pairs of schemas (any set of
  simultaneous edits): the diff contains exactly a DropTable per disappeared table, an AddTable per
  new table, and for every table present in both exactly its non-empty table diff (likewise for the
  columns of a table); `diff_count` — every table contributes at most one change.

PARTIAL: exactness for index / check edits inside a table is decided
by the correspondence run (model = implementation on random multi-edit pairs) and the catalogue
monitor, not by a theorem; dialect-specific attribute comparison (ColumnChange, typeChanged,
defaultChanged, Normalize) is abstracted to token equality and validated by the catalogue only.
-/
import Lemmas.Diff

namespace Props.C02
open Atlas.Diff

structure TableWF (t : Table) : Prop where
  cols : (t.cols.map Col.name).Nodup
  idxs : (t.idxs.map Idx.name).Nodup
  fks : (t.fks.map FK.symbol).Nodup
  checks : (t.checks.filterMap Check.name).Nodup

structure WF (s : List Table) : Prop where
  names : (s.map Table.name).Nodup
  tables : ∀ t ∈ s, TableWF t

/-- the same table with its children listed in another order. -/
structure Reordered (a b : Table) : Prop where
  name : a.name = b.name
  attrs : a.attrs = b.attrs
  pk : a.pk = b.pk
  cols : b.cols.Perm a.cols
  idxs : b.idxs.Perm a.idxs
  fks : b.fks.Perm a.fks
  checks : b.checks.Perm a.checks

theorem tableDiff_reordered (a b : Table) (hw : TableWF a) (h : Reordered a b) : tableDiff a b = [] := by
  unfold tableDiff
  rw [h.attrs, ← h.pk, pkDiff_self, checksDiff_perm _ _ h.checks hw.checks, columnDiff_perm _ _ h.cols hw.cols,
    indexDiff_perm _ _ h.idxs hw.idxs, fkDiff_perm _ _ h.fks hw.fks]
  simp

theorem reordered_refl (a : Table) : Reordered a a :=
  ⟨rfl, rfl, rfl, List.Perm.refl _, List.Perm.refl _, List.Perm.refl _, List.Perm.refl _⟩

theorem tableDiff_self (a : Table) (hw : TableWF a) : tableDiff a a = [] :=
  tableDiff_reordered a a hw (reordered_refl a)

def tableChg (a b : Table) : Option Change :=
  let cs := tableDiff a b; if cs.isEmpty then none else some (.modifyTable b.name cs)

theorem schemaDiff_eq (frm to : List Table) :
    schemaDiff frm to = keyedDiff Table.name tableChg (fun t => .dropTable t.name) (fun t => .addTable t.name) frm to := rfl

/-- **diff_reordered**: tables in any order, each with its children in any order ⇒ empty diff. -/
theorem diff_reordered (s s' : List Table) (hw : WF s) (hn' : (s'.map Table.name).Nodup)
    (h1 : ∀ a ∈ s, ∃ b ∈ s', Reordered a b) (h2 : ∀ b ∈ s', ∃ a ∈ s, Reordered a b) :
    schemaDiff s s' = [] := by
  rw [schemaDiff_eq]
  apply keyedDiff_rel Table.name tableChg _ _ (fun a b => TableWF a ∧ Reordered a b)
  · intro a b ⟨hwa, hr⟩
    exact ⟨hr.name, by simp [tableChg, tableDiff_reordered a b hwa hr]⟩
  · intro a ha
    obtain ⟨b, hb, hr⟩ := h1 a ha
    exact ⟨b, hb, hw.tables a ha, hr⟩
  · intro b hb
    obtain ⟨a, ha, hr⟩ := h2 b hb
    exact ⟨a, ha, hw.tables a ha, hr⟩
  · exact hn'

/-- **diff_self**. -/
theorem diff_self (s : List Table) (hw : WF s) : schemaDiff s s = [] :=
  diff_reordered s s hw hw.names (fun a ha => ⟨a, ha, reordered_refl a⟩) (fun b hb => ⟨b, hb, reordered_refl b⟩)

/-- a well-formed list has no change between a table and itself. -/
theorem tableChg_self_of_wf (s : List Table) (hw : WF s) : ∀ t ∈ s, tableChg t t = none := by
  intro t ht
  simp [tableChg, tableDiff_self t (hw.tables t ht)]

/-- exactness lemmas need `chg a a = none` for ALL elements; restrict the change function to the
well-formed ones. -/
def tableChgW (a b : Table) : Option Change := if a = b then none else tableChg a b

theorem schemaDiff_eqW (frm to : List Table) (hw : ∀ t ∈ frm, TableWF t) :
    schemaDiff frm to = keyedDiff Table.name tableChgW (fun t => .dropTable t.name) (fun t => .addTable t.name) frm to := by
  rw [schemaDiff_eq]
  unfold keyedDiff
  congr 1
  apply filterMap_congr'
  intro a ha
  unfold fromStep
  cases to.find? (fun b => b.name = a.name) with
  | none => rfl
  | some b =>
    simp only [tableChgW]
    split
    · rename_i hab; subst hab
      simp [tableChg, tableDiff_self a (hw a ha)]
    · rfl

theorem wf_mid {l₁ l₂ : List Table} {t : Table} (hw : WF (l₁ ++ t :: l₂)) : ∀ x ∈ l₁ ++ l₂, TableWF x := by
  intro x hx
  apply hw.tables
  rcases List.mem_append.mp hx with h | h
  · exact List.mem_append_left _ h
  · exact List.mem_append_right _ (List.mem_cons_of_mem _ h)

/-- **add_table_exact**. -/
theorem add_table_exact (l₁ l₂ : List Table) (t : Table) (hw : WF (l₁ ++ t :: l₂)) :
    schemaDiff (l₁ ++ l₂) (l₁ ++ t :: l₂) = [.addTable t.name] := by
  rw [schemaDiff_eqW _ _ (wf_mid hw)]
  exact keyedDiff_add Table.name tableChgW _ _ (fun a => by simp [tableChgW]) l₁ l₂ t hw.names

/-- **drop_table_exact**. -/
theorem drop_table_exact (l₁ l₂ : List Table) (t : Table) (hw : WF (l₁ ++ t :: l₂)) :
    schemaDiff (l₁ ++ t :: l₂) (l₁ ++ l₂) = [.dropTable t.name] := by
  rw [schemaDiff_eqW _ _ hw.tables]
  exact keyedDiff_drop Table.name tableChgW _ _ (fun a => by simp [tableChgW]) l₁ l₂ t hw.names

/-- one table edited: the diff is exactly one `ModifyTable` with the table-level diff. -/
theorem modify_table_exact (l₁ l₂ : List Table) (t t' : Table) (hw : WF (l₁ ++ t :: l₂)) (hname : t'.name = t.name)
    (hne : tableDiff t t' ≠ []) :
    schemaDiff (l₁ ++ t :: l₂) (l₁ ++ t' :: l₂) = [.modifyTable t.name (tableDiff t t')] := by
  rw [schemaDiff_eqW _ _ hw.tables]
  apply keyedDiff_modify Table.name tableChgW _ _ (fun a => by simp [tableChgW]) l₁ l₂ t t' _ hname _ hw.names
  have htt : t ≠ t' := by
    intro h; subst h
    exact hne (tableDiff_self t (hw.tables t (List.mem_append_right _ (List.mem_cons_self ..))))
  simp [tableChgW, htt, tableChg, hne, hname]

/-- editing only the columns of a table: the table-level diff is the column diff. -/
theorem tableDiff_cols (t : Table) (hw : TableWF t) (cols' : List Col) :
    tableDiff t { t with cols := cols' } = columnDiff t.cols cols' := by
  unfold tableDiff
  simp [pkDiff_self, checksDiff_perm _ _ (List.Perm.refl _) hw.checks,
    indexDiff_perm _ _ (List.Perm.refl _) hw.idxs, fkDiff_perm _ _ (List.Perm.refl _) hw.fks]

theorem tableDiff_fks (t : Table) (hw : TableWF t) (fks' : List FK) :
    tableDiff t { t with fks := fks' } = fkDiff t.fks fks' := by
  unfold tableDiff
  simp [pkDiff_self, checksDiff_perm _ _ (List.Perm.refl _) hw.checks,
    indexDiff_perm _ _ (List.Perm.refl _) hw.idxs, columnDiff_perm _ _ (List.Perm.refl _) hw.cols]

/-- the three elementary column edits. -/
inductive ColEdit : List Col → List Col → TChange → Prop
  | add (c₁ c₂ : List Col) (c : Col) : ColEdit (c₁ ++ c₂) (c₁ ++ c :: c₂) (.addColumn c.name)
  | drop (c₁ c₂ : List Col) (c : Col) : ColEdit (c₁ ++ c :: c₂) (c₁ ++ c₂) (.dropColumn c.name)
  | modify (c₁ c₂ : List Col) (c c' : Col) (hn : c'.name = c.name) (hk : kinds c.attrs c'.attrs ≠ []) :
      ColEdit (c₁ ++ c :: c₂) (c₁ ++ c' :: c₂) (.modifyColumn c.name (kinds c.attrs c'.attrs))

theorem columnDiff_edit (cols cols' : List Col) (ch : TChange) (he : ColEdit cols cols' ch)
    (hn : (cols.map Col.name).Nodup) (hn' : (cols'.map Col.name).Nodup) : columnDiff cols cols' = [ch] := by
  cases he with
  | add c₁ c₂ c => exact keyedDiff_add Col.name colChange _ _ colChange_self c₁ c₂ c hn'
  | drop c₁ c₂ c => exact keyedDiff_drop Col.name colChange _ _ colChange_self c₁ c₂ c hn
  | modify c₁ c₂ c c' hname hk =>
    apply keyedDiff_modify Col.name colChange _ _ colChange_self c₁ c₂ c c' _ hname _ hn
    simp [colChange, hk]

/-- **column_edit_exact**: one elementary column edit in one table of a schema of any size is
reported as exactly one ModifyTable with exactly that column change. -/
theorem column_edit_exact (l₁ l₂ : List Table) (t : Table) (cols' : List Col) (ch : TChange)
    (hw : WF (l₁ ++ t :: l₂)) (he : ColEdit t.cols cols' ch) (hn' : (cols'.map Col.name).Nodup) :
    schemaDiff (l₁ ++ t :: l₂) (l₁ ++ { t with cols := cols' } :: l₂) = [.modifyTable t.name [ch]] := by
  have hwt := hw.tables t (List.mem_append_right _ (List.mem_cons_self ..))
  have hd : tableDiff t { t with cols := cols' } = [ch] := by
    rw [tableDiff_cols t hwt, columnDiff_edit _ _ ch he hwt.cols hn']
  have := modify_table_exact l₁ l₂ t { t with cols := cols' } hw rfl (by rw [hd]; simp)
  rw [this, hd]

/-- **fk_edit_exact**: a foreign key whose referential action / columns change is reported once
with exactly the differing kinds. -/
theorem fk_edit_exact (l₁ l₂ : List Table) (t : Table) (f₁ f₂ : List FK) (f f' : FK) (c : TChange)
    (hw : WF (l₁ ++ t :: l₂)) (ht : t.fks = f₁ ++ f :: f₂) (hs : f'.symbol = f.symbol) (hc : fkChange f f' = some c) :
    schemaDiff (l₁ ++ t :: l₂) (l₁ ++ { t with fks := f₁ ++ f' :: f₂ } :: l₂) = [.modifyTable t.name [c]] := by
  have hwt := hw.tables t (List.mem_append_right _ (List.mem_cons_self ..))
  have hd : tableDiff t { t with fks := f₁ ++ f' :: f₂ } = [c] := by
    rw [tableDiff_fks t hwt, ht]
    exact keyedDiff_modify FK.symbol fkChange _ _ fkChange_self f₁ f₂ f f' c hs hc (ht ▸ hwt.fks)
  have := modify_table_exact l₁ l₂ t { t with fks := f₁ ++ f' :: f₂ } hw rfl (by rw [hd]; simp)
  rw [this, hd]

/-- **table_attr_exact**. -/
theorem table_attr_exact (l₁ l₂ : List Table) (t : Table) (a' : Nat) (hw : WF (l₁ ++ t :: l₂)) (hne : t.attrs ≠ a') :
    schemaDiff (l₁ ++ t :: l₂) (l₁ ++ { t with attrs := a' } :: l₂) = [.modifyTable t.name [.modifyAttr]] := by
  have hwt := hw.tables t (List.mem_append_right _ (List.mem_cons_self ..))
  have hd : tableDiff t { t with attrs := a' } = [.modifyAttr] := by
    unfold tableDiff
    simp [hne, pkDiff_self, checksDiff_perm _ _ (List.Perm.refl _) hwt.checks, indexDiff_perm _ _ (List.Perm.refl _) hwt.idxs,
      fkDiff_perm _ _ (List.Perm.refl _) hwt.fks, columnDiff_perm _ _ (List.Perm.refl _) hwt.cols]
  have := modify_table_exact l₁ l₂ t { t with attrs := a' } hw rfl (by rw [hd]; simp)
  rw [this, hd]

/-- **diff_characterisation** (any two schemas). -/
theorem diff_characterisation (s s' : List Table) (hs' : (s'.map Table.name).Nodup) (c : Change) :
    c ∈ schemaDiff s s' ↔
      (∃ t ∈ s, t.name ∉ s'.map Table.name ∧ c = .dropTable t.name) ∨
      (∃ t ∈ s, ∃ t' ∈ s', t'.name = t.name ∧ tableDiff t t' ≠ [] ∧ c = .modifyTable t'.name (tableDiff t t')) ∨
      (∃ t' ∈ s', t'.name ∉ s.map Table.name ∧ c = .addTable t'.name) :=
  mem_schemaDiff s s' hs' c

/-- **column_diff_characterisation** (any two column lists). -/
theorem column_diff_characterisation (cols cols' : List Col) (hn : (cols'.map Col.name).Nodup) (c : TChange) :
    c ∈ columnDiff cols cols' ↔
      (∃ a ∈ cols, a.name ∉ cols'.map Col.name ∧ c = .dropColumn a.name) ∨
      (∃ a ∈ cols, ∃ b ∈ cols', b.name = a.name ∧ kinds a.attrs b.attrs ≠ [] ∧ c = .modifyColumn a.name (kinds a.attrs b.attrs)) ∨
      (∃ b ∈ cols', b.name ∉ cols.map Col.name ∧ c = .addColumn b.name) :=
  mem_columnDiff cols cols' hn c

/-- **diff_count**: the number of changes is the number of tables that produce one (no table is
reported twice). -/
theorem diff_count (s s' : List Table) :
    (schemaDiff s s').length ≤ s.length + s'.length := by
  unfold schemaDiff
  rw [keyedDiff_length]
  exact Nat.add_le_add (List.length_filter_le _ _) (List.length_filter_le _ _)

/-! ### non-vacuity -/

def tA : Table := { name := 1, cols := [⟨1, [0, 0]⟩, ⟨2, [1, 0]⟩], idxs := [{ name := some 1, unique := true, parts := [⟨1, false, 0⟩] }],
                    fks := [⟨1, [2], 2, [1], 0, 0⟩], checks := [⟨some 1, 5⟩, ⟨none, 6⟩] }
def tB : Table := { name := 2, cols := [⟨1, [0, 0]⟩] }

example : schemaDiff [tA, tB] [tB, { tA with cols := tA.cols.reverse, checks := tA.checks.reverse }] = [] := by decide

example : schemaDiff [tA, tB] [{ tA with cols := [⟨1, [0, 0]⟩, ⟨2, [1, 1]⟩] }, tB] =
    [.modifyTable 1 [.modifyColumn 2 [1]]] := by decide

/-- two different unnamed indexes: the diff of the table with itself is NOT empty (the second one is
compared with the first) — the reason `TableWF` asks for distinct index names. -/
example : tableDiff { name := 1, cols := [], idxs := [⟨none, false, false, [⟨1, false, 0⟩], 0⟩, ⟨none, false, true, [⟨2, false, 0⟩], 0⟩] }
    { name := 1, cols := [], idxs := [⟨none, false, false, [⟨1, false, 0⟩], 0⟩, ⟨none, false, true, [⟨2, false, 0⟩], 0⟩] } ≠ [] := by decide

end Props.C02
