/-
C02 — Diff is exact: every difference is reported once, and nothing else.

Model: `Atlas.Diff` — the generic differ of sql/internal/sqlx/diff.go (table, column, primary-key,
index incl. similar-unnamed matching, foreign-key and check loops) over an abstract schema graph whose
attribute comparisons are equality of tokens. The correspondence run compares this model and an
independent edit catalogue with the three real differs in the CLI's comparison mode.

Proved for well-formed schemas of any size (distinct table / column / index / foreign-key / check
names):
* `diff_self`, `diff_reordered` — the diff of a schema with itself, and with the same tables,
  columns, indexes, foreign keys and checks listed in any other order, is empty;
* `add_table_exact`, `drop_table_exact` — one table added / removed anywhere ⇒ exactly that change;
* `column_edit_exact` — one column added, dropped or modified in one table ⇒ exactly one
  `ModifyTable` holding exactly that column change (with exactly the differing kind bits);
* `fk_edit_exact`, `table_attr_exact` — likewise for a foreign key and the table attributes;
* the generic lemmas `keyedDiff_add/_drop/_modify` state exactness for every keyed collection;
* `diff_characterisation`, `column_diff_characterisation` — for ARBITRARY pairs of schemas (any set of
  simultaneous edits): the diff contains exactly a DropTable per disappeared table, an AddTable per
  new table, and for every table present in both exactly its non-empty table diff (likewise for the
  columns of a table); `diff_count` — every table contributes at most one change.

PARTIAL: exactness for index / check edits inside a table is decided
by the correspondence run (model = implementation on random multi-edit pairs) and the catalogue
monitor, not by a theorem; dialect-specific attribute comparison (ColumnChange, typeChanged,
defaultChanged, Normalize) is abstracted to token equality and validated by the catalogue only.
-/
import Lemmas.Diff

namespace Props.C02
open Atlas.Diff

structure TableWF (t : Table) : Prop where
  cols : (t.cols.map Col.name).Nodup
  idxs : (t.idxs.map Idx.name).Nodup
  fks : (t.fks.map FK.symbol).Nodup
  checks : (t.checks.filterMap Check.name).Nodup

structure WF (s : List Table) : Prop where
  names : (s.map Table.name).Nodup
  tables : ∀ t ∈ s, TableWF t

/-- the same table with its children listed in another order. -/
structure Reordered (a b : Table) : Prop where
  name : a.name = b.name
  attrs : a.attrs = b.attrs
  pk : a.pk = b.pk
  cols : b.cols.Perm a.cols
  idxs : b.idxs.Perm a.idxs
  fks : b.fks.Perm a.fks
  checks : b.checks.Perm a.checks

theorem tableDiff_reordered (a b : Table) (hw : TableWF a) (h : Reordered a b) : tableDiff a b = [] := by
  unfold tableDiff
  rw [h.attrs, ← h.pk, pkDiff_self, checksDiff_perm _ _ h.checks hw.checks, columnDiff_perm _ _ h.cols hw.cols,
    indexDiff_perm _ _ h.idxs hw.idxs, fkDiff_perm _ _ h.fks hw.fks]
  simp

theorem reordered_refl (a : Table) : Reordered a a :=
  ⟨rfl, rfl, rfl, List.Perm.refl _, List.Perm.refl _, List.Perm.refl _, List.Perm.refl _⟩

theorem tableDiff_self (a : Table) (hw : TableWF a) : tableDiff a a = [] :=
  tableDiff_reordered a a hw (reordered_refl a)

def tableChg (a b : Table) : Option Change :=
  let cs := tableDiff a b; if cs.isEmpty then none else some (.modifyTable b.name cs)

theorem schemaDiff_eq (frm to : List Table) :
    schemaDiff frm to = keyedDiff Table.name tableChg (fun t => .dropTable t.name) (fun t => .addTable t.name) frm to := rfl

/-- **diff_reordered**: tables in any order, each with its children in any order ⇒ empty diff. -/
theorem diff_reordered (s s' : List Table) (hw : WF s) (hn' : (s'.map Table.name).Nodup)
    (h1 : ∀ a ∈ s, ∃ b ∈ s', Reordered a b) (h2 : ∀ b ∈ s', ∃ a ∈ s, Reordered a b) :
    schemaDiff s s' = [] := by
  rw [schemaDiff_eq]
  apply keyedDiff_rel Table.name tableChg _ _ (fun a b => TableWF a ∧ Reordered a b)
  · intro a b ⟨hwa, hr⟩
    exact ⟨hr.name, by simp [tableChg, tableDiff_reordered a b hwa hr]⟩
  · intro a ha
    obtain ⟨b, hb, hr⟩ := h1 a ha
    exact ⟨b, hb, hw.tables a ha, hr⟩
  · intro b hb
    obtain ⟨a, ha, hr⟩ := h2 b hb
    exact ⟨a, ha, hw.tables a ha, hr⟩
  · exact hn'

/-- **diff_self**. -/
theorem diff_self (s : List Table) (hw : WF s) : schemaDiff s s = [] :=
  diff_reordered s s hw hw.names (fun a ha => ⟨a, ha, reordered_refl a⟩) (fun b hb => ⟨b, hb, reordered_refl b⟩)

/-- a well-formed list has no change between a table and itself. -/
theorem tableChg_self_of_wf (s : List Table) (hw : WF s) : ∀ t ∈ s, tableChg t t = none := by
  intro t ht
  simp [tableChg, tableDiff_self t (hw.tables t ht)]

/-- exactness lemmas need `chg a a = none` for ALL elements; restrict the change function to the
well-formed ones. -/
def tableChgW (a b : Table) : Option Change := if a = b then none else tableChg a b

theorem schemaDiff_eqW (frm to : List Table) (hw : ∀ t ∈ frm, TableWF t) :
    schemaDiff frm to = keyedDiff Table.name tableChgW (fun t => .dropTable t.name) (fun t => .addTable t.name) frm to := by
  rw [schemaDiff_eq]
  unfold keyedDiff
  congr 1
  apply filterMap_congr'
  intro a ha
  unfold fromStep
  cases to.find? (fun b => b.name = a.name) with
  | none => rfl
  | some b =>
    simp only [tableChgW]
    split
    · rename_i hab; subst hab
      simp [tableChg, tableDiff_self a (hw a ha)]
    · rfl

theorem wf_mid {l₁ l₂ : List Table} {t : Table} (hw : WF (l₁ ++ t :: l₂)) : ∀ x ∈ l₁ ++ l₂, TableWF x := by
  intro x hx
  apply hw.tables
  rcases List.mem_append.mp hx with h | h
  · exact List.mem_append_left _ h
  · exact List.mem_append_right _ (List.mem_cons_of_mem _ h)

/-- **add_table_exact**. -/
theorem add_table_exact (l₁ l₂ : List Table) (t : Table) (hw : WF (l₁ ++ t :: l₂)) :
    schemaDiff (l₁ ++ l₂) (l₁ ++ t :: l₂) = [.addTable t.name] := by
  rw [schemaDiff_eqW _ _ (wf_mid hw)]
  exact keyedDiff_add Table.name tableChgW _ _ (fun a => by simp [tableChgW]) l₁ l₂ t hw.names

/-- **drop_table_exact**. -/
theorem drop_table_exact (l₁ l₂ : List Table) (t : Table) (hw : WF (l₁ ++ t :: l₂)) :
    schemaDiff (l₁ ++ t :: l₂) (l₁ ++ l₂) = [.dropTable t.name] := by
  rw [schemaDiff_eqW _ _ hw.tables]
  exact keyedDiff_drop Table.name tableChgW _ _ (fun a => by simp [tableChgW]) l₁ l₂ t hw.names

/-- one table edited: the diff is exactly one `ModifyTable` with the table-level diff. -/
theorem modify_table_exact (l₁ l₂ : List Table) (t t' : Table) (hw : WF (l₁ ++ t :: l₂)) (hname : t'.name = t.name)
    (hne : tableDiff t t' ≠ []) :
    schemaDiff (l₁ ++ t :: l₂) (l₁ ++ t' :: l₂) = [.modifyTable t.name (tableDiff t t')] := by
  rw [schemaDiff_eqW _ _ hw.tables]
  apply keyedDiff_modify Table.name tableChgW _ _ (fun a => by simp [tableChgW]) l₁ l₂ t t' _ hname _ hw.names
  have htt : t ≠ t' := by
    intro h; subst h
    exact hne (tableDiff_self t (hw.tables t (List.mem_append_right _ (List.mem_cons_self ..))))
  simp [tableChgW, htt, tableChg, hne, hname]

/-- editing only the columns of a table: the table-level diff is the column diff. -/
theorem tableDiff_cols (t : Table) (hw : TableWF t) (cols' : List Col) :
    tableDiff t { t with cols := cols' } = columnDiff t.cols cols' := by
  unfold tableDiff
  simp [pkDiff_self, checksDiff_perm _ _ (List.Perm.refl _) hw.checks,
    indexDiff_perm _ _ (List.Perm.refl _) hw.idxs, fkDiff_perm _ _ (List.Perm.refl _) hw.fks]

theorem tableDiff_fks (t : Table) (hw : TableWF t) (fks' : List FK) :
    tableDiff t { t with fks := fks' } = fkDiff t.fks fks' := by
  unfold tableDiff
  simp [pkDiff_self, checksDiff_perm _ _ (List.Perm.refl _) hw.checks,
    indexDiff_perm _ _ (List.Perm.refl _) hw.idxs, columnDiff_perm _ _ (List.Perm.refl _) hw.cols]

/-- the three elementary column edits. -/
inductive ColEdit : List Col → List Col → TChange → Prop
  | add (c₁ c₂ : List Col) (c : Col) : ColEdit (c₁ ++ c₂) (c₁ ++ c :: c₂) (.addColumn c.name)
  | drop (c₁ c₂ : List Col) (c : Col) : ColEdit (c₁ ++ c :: c₂) (c₁ ++ c₂) (.dropColumn c.name)
  | modify (c₁ c₂ : List Col) (c c' : Col) (hn : c'.name = c.name) (hk : kinds c.attrs c'.attrs ≠ []) :
      ColEdit (c₁ ++ c :: c₂) (c₁ ++ c' :: c₂) (.modifyColumn c.name (kinds c.attrs c'.attrs))

theorem columnDiff_edit (cols cols' : List Col) (ch : TChange) (he : ColEdit cols cols' ch)
    (hn : (cols.map Col.name).Nodup) (hn' : (cols'.map Col.name).Nodup) : columnDiff cols cols' = [ch] := by
  cases he with
  | add c₁ c₂ c => exact keyedDiff_add Col.name colChange _ _ colChange_self c₁ c₂ c hn'
  | drop c₁ c₂ c => exact keyedDiff_drop Col.name colChange _ _ colChange_self c₁ c₂ c hn
  | modify c₁ c₂ c c' hname hk =>
    apply keyedDiff_modify Col.name colChange _ _ colChange_self c₁ c₂ c c' _ hname _ hn
    simp [colChange, hk]

/-- **column_edit_exact**: one elementary column edit in one table of a schema of any size is
reported as exactly one ModifyTable with exactly that column change. -/
theorem column_edit_exact (l₁ l₂ : List Table) (t : Table) (cols' : List Col) (ch : TChange)
    (hw : WF (l₁ ++ t :: l₂)) (he : ColEdit t.cols cols' ch) (hn' : (cols'.map Col.name).Nodup) :
    schemaDiff (l₁ ++ t :: l₂) (l₁ ++ { t with cols := cols' } :: l₂) = [.modifyTable t.name [ch]] := by
  have hwt := hw.tables t (List.mem_append_right _ (List.mem_cons_self ..))
  have hd : tableDiff t { t with cols := cols' } = [ch] := by
    rw [tableDiff_cols t hwt, columnDiff_edit _ _ ch he hwt.cols hn']
  have := modify_table_exact l₁ l₂ t { t with cols := cols' } hw rfl (by rw [hd]; simp)
  rw [this, hd]

/-- **fk_edit_exact**: a foreign key whose referential action / columns change is reported once
with exactly the differing kinds. -/
theorem fk_edit_exact (l₁ l₂ : List Table) (t : Table) (f₁ f₂ : List FK) (f f' : FK) (c : TChange)
    (hw : WF (l₁ ++ t :: l₂)) (ht : t.fks = f₁ ++ f :: f₂) (hs : f'.symbol = f.symbol) (hc : fkChange f f' = some c) :
    schemaDiff (l₁ ++ t :: l₂) (l₁ ++ { t with fks := f₁ ++ f' :: f₂ } :: l₂) = [.modifyTable t.name [c]] := by
  have hwt := hw.tables t (List.mem_append_right _ (List.mem_cons_self ..))
  have hd : tableDiff t { t with fks := f₁ ++ f' :: f₂ } = [c] := by
    rw [tableDiff_fks t hwt, ht]
    exact keyedDiff_modify FK.symbol fkChange _ _ fkChange_self f₁ f₂ f f' c hs hc (ht ▸ hwt.fks)
  have := modify_table_exact l₁ l₂ t { t with fks := f₁ ++ f' :: f₂ } hw rfl (by rw [hd]; simp)
  rw [this, hd]

/-- **table_attr_exact**. -/
theorem table_attr_exact (l₁ l₂ : List Table) (t : Table) (a' : Nat) (hw : WF (l₁ ++ t :: l₂)) (hne : t.attrs ≠ a') :
    schemaDiff (l₁ ++ t :: l₂) (l₁ ++ { t with attrs := a' } :: l₂) = [.modifyTable t.name [.modifyAttr]] := by
  have hwt := hw.tables t (List.mem_append_right _ (List.mem_cons_self ..))
  have hd : tableDiff t { t with attrs := a' } = [.modifyAttr] := by
    unfold tableDiff
    simp [hne, pkDiff_self, checksDiff_perm _ _ (List.Perm.refl _) hwt.checks, indexDiff_perm _ _ (List.Perm.refl _) hwt.idxs,
      fkDiff_perm _ _ (List.Perm.refl _) hwt.fks, columnDiff_perm _ _ (List.Perm.refl _) hwt.cols]
  have := modify_table_exact l₁ l₂ t { t with attrs := a' } hw rfl (by rw [hd]; simp)
  rw [this, hd]

/-- **diff_characterisation** (any two schemas). -/
theorem diff_characterisation (s s' : List Table) (hs' : (s'.map Table.name).Nodup) (c : Change) :
    c ∈ schemaDiff s s' ↔
      (∃ t ∈ s, t.name ∉ s'.map Table.name ∧ c = .dropTable t.name) ∨
      (∃ t ∈ s, ∃ t' ∈ s', t'.name = t.name ∧ tableDiff t t' ≠ [] ∧ c = .modifyTable t'.name (tableDiff t t')) ∨
      (∃ t' ∈ s', t'.name ∉ s.map Table.name ∧ c = .addTable t'.name) :=
  mem_schemaDiff s s' hs' c

/-- **column_diff_characterisation** (any two column lists). -/
theorem column_diff_characterisation (cols cols' : List Col) (hn : (cols'.map Col.name).Nodup) (c : TChange) :
    c ∈ columnDiff cols cols' ↔
      (∃ a ∈ cols, a.name ∉ cols'.map Col.name ∧ c = .dropColumn a.name) ∨
      (∃ a ∈ cols, ∃ b ∈ cols', b.name = a.name ∧ kinds a.attrs b.attrs ≠ [] ∧ c = .modifyColumn a.name (kinds a.attrs b.attrs)) ∨
      (∃ b ∈ cols', b.name ∉ cols.map Col.name ∧ c = .addColumn b.name) :=
  mem_columnDiff cols cols' hn c

/-! ### foreign keys, indexes, checks and whole tables: arbitrary simultaneous edits -/

/-- **fk_diff_characterisation** (any two foreign-key lists with distinct symbols on the desired side). -/
theorem fk_diff_characterisation (fks fks' : List FK) (hn : (fks'.map FK.symbol).Nodup) (c : TChange) :
    c ∈ fkDiff fks fks' ↔
      (∃ a ∈ fks, a.symbol ∉ fks'.map FK.symbol ∧ c = .dropFK a.symbol) ∨
      (∃ a ∈ fks, ∃ b ∈ fks', b.symbol = a.symbol ∧ fkChange a b = some c) ∨
      (∃ b ∈ fks', b.symbol ∉ fks.map FK.symbol ∧ c = .addFK b.symbol) :=
  mem_keyedDiff FK.symbol fkChange (fun f => .dropFK f.symbol) (fun f => .addFK f.symbol) fks fks' hn c

/-- all indexes carry a name the user gave them (no generated name, hence no similarity matching). -/
def AllNamed (l : List Idx) : Prop := ∀ i ∈ l, i.name.isSome = true ∧ i.generatedName = false

theorem indexLoop_named (to : List Idx) : ∀ (frm : List Idx), AllNamed frm →
    (∀ c, c ∈ (indexLoop to frm).1 ↔
      (∃ i ∈ frm, (∀ j ∈ to, j.name ≠ i.name) ∧ c = .dropIndex i) ∨
      (∃ i ∈ frm, ∃ j, to.find? (fun j => j.name = i.name) = some j ∧ indexKinds i j ≠ [] ∧
        c = .modifyIndex i (indexKinds i j))) ∧
    (∀ j ∈ (indexLoop to frm).2, ∃ i ∈ frm, j.name = i.name) := by
  intro frm
  induction frm with
  | nil => intro _; simp [indexLoop]
  | cons i rest ih =>
    intro hall
    have hi := hall i (List.mem_cons_self ..)
    obtain ⟨ih1, ih2⟩ := ih (fun x hx => hall x (List.mem_cons_of_mem _ hx))
    unfold indexLoop
    rcases hl : indexLoop to rest with ⟨cs, ex⟩
    rw [hl] at ih1 ih2
    simp only at ih1 ih2 ⊢
    cases hf : to.find? (fun j => j.name = i.name) with
    | some j =>
      simp only
      have hjn : j.name = i.name := by simpa using List.find?_some hf
      constructor
      · intro c
        by_cases hk : (indexKinds i j).isEmpty = true
        · have hk' : indexKinds i j = [] := by simpa using hk
          simp only [hk, if_true]
          rw [ih1 c]
          constructor
          · rintro (⟨a, ha, h1, h2⟩ | ⟨a, ha, b, h1, h2, h3⟩)
            · exact Or.inl ⟨a, List.mem_cons_of_mem _ ha, h1, h2⟩
            · exact Or.inr ⟨a, List.mem_cons_of_mem _ ha, b, h1, h2, h3⟩
          · rintro (⟨a, ha, h1, h2⟩ | ⟨a, ha, b, h1, h2, h3⟩)
            · rcases List.mem_cons.mp ha with rfl | ha
              · exact absurd hjn (h1 j (List.mem_of_find?_eq_some hf))
              · exact Or.inl ⟨a, ha, h1, h2⟩
            · rcases List.mem_cons.mp ha with rfl | ha
              · rw [hf] at h1; cases h1; exact absurd hk' h2
              · exact Or.inr ⟨a, ha, b, h1, h2, h3⟩
        · have hk' : (indexKinds i j).isEmpty = false := by simpa using hk
          have hne : indexKinds i j ≠ [] := by
            intro e; rw [e] at hk'; simp at hk'
          simp only [hk', Bool.false_eq_true, if_false]
          constructor
          · intro hc
            rcases List.mem_cons.mp hc with h | h
            · exact Or.inr ⟨i, List.mem_cons_self .., j, hf, hne, h⟩
            · rcases (ih1 c).mp h with ⟨a, ha, h1, h2⟩ | ⟨a, ha, b, h1, h2, h3⟩
              · exact Or.inl ⟨a, List.mem_cons_of_mem _ ha, h1, h2⟩
              · exact Or.inr ⟨a, List.mem_cons_of_mem _ ha, b, h1, h2, h3⟩
          · rintro (⟨a, ha, h1, h2⟩ | ⟨a, ha, b, h1, h2, h3⟩)
            · rcases List.mem_cons.mp ha with rfl | ha
              · exact absurd hjn (h1 j (List.mem_of_find?_eq_some hf))
              · exact List.mem_cons_of_mem _ ((ih1 c).mpr (Or.inl ⟨a, ha, h1, h2⟩))
            · rcases List.mem_cons.mp ha with rfl | ha
              · rw [hf] at h1; cases h1; rw [h3]; exact List.mem_cons_self ..
              · exact List.mem_cons_of_mem _ ((ih1 c).mpr (Or.inr ⟨a, ha, b, h1, h2, h3⟩))
      · intro x hx
        rcases List.mem_cons.mp hx with rfl | hx
        · exact ⟨i, List.mem_cons_self .., hjn⟩
        · obtain ⟨a, ha, h⟩ := ih2 x hx
          exact ⟨a, List.mem_cons_of_mem _ ha, h⟩
    | none =>
      have hnone : ∀ j ∈ to, j.name ≠ i.name := by
        intro j hj
        have := List.find?_eq_none.mp hf j hj
        simpa using this
      simp only [hi.2, Bool.false_eq_true, if_false]
      constructor
      · intro c
        constructor
        · intro hc
          rcases List.mem_cons.mp hc with h | h
          · exact Or.inl ⟨i, List.mem_cons_self .., hnone, h⟩
          · rcases (ih1 c).mp h with ⟨a, ha, h1, h2⟩ | ⟨a, ha, b, h1, h2, h3⟩
            · exact Or.inl ⟨a, List.mem_cons_of_mem _ ha, h1, h2⟩
            · exact Or.inr ⟨a, List.mem_cons_of_mem _ ha, b, h1, h2, h3⟩
        · rintro (⟨a, ha, h1, h2⟩ | ⟨a, ha, b, h1, h2, h3⟩)
          · rcases List.mem_cons.mp ha with rfl | ha
            · rw [h2]; exact List.mem_cons_self ..
            · exact List.mem_cons_of_mem _ ((ih1 c).mpr (Or.inl ⟨a, ha, h1, h2⟩))
          · rcases List.mem_cons.mp ha with rfl | ha
            · rw [hf] at h1; cases h1
            · exact List.mem_cons_of_mem _ ((ih1 c).mpr (Or.inr ⟨a, ha, b, h1, h2, h3⟩))
      · intro x hx
        obtain ⟨a, ha, h⟩ := ih2 x hx
        exact ⟨a, List.mem_cons_of_mem _ ha, h⟩

/-- **index_diff_characterisation** (any two lists of user-named indexes, names distinct on the desired
side): exactly a DropIndex per name that disappeared, an AddIndex per new name, and a ModifyIndex with
exactly the differing kinds (unique / attributes / parts) per index present on both sides. -/
theorem index_diff_characterisation (idxs idxs' : List Idx) (hn : AllNamed idxs)
    (hd : (idxs'.map Idx.name).Nodup) (c : TChange) :
    c ∈ indexDiff idxs idxs' ↔
      (∃ i ∈ idxs, (∀ j ∈ idxs', j.name ≠ i.name) ∧ c = .dropIndex i) ∨
      (∃ i ∈ idxs, ∃ j ∈ idxs', j.name = i.name ∧ indexKinds i j ≠ [] ∧ c = .modifyIndex i (indexKinds i j)) ∨
      (∃ j ∈ idxs', (∀ i ∈ idxs, i.name ≠ j.name) ∧ c = .addIndex j) := by
  obtain ⟨h1, h2⟩ := indexLoop_named idxs' idxs hn
  unfold indexDiff
  rcases hl : indexLoop idxs' idxs with ⟨cs, ex⟩
  rw [hl] at h1 h2
  simp only at h1 h2 ⊢
  rw [List.mem_append, h1 c, List.mem_filterMap]
  -- a name match in the desired list is THE element found by the search
  have hfind : ∀ (i : Idx), ∀ j ∈ idxs', j.name = i.name → idxs'.find? (fun j => j.name = i.name) = some j := by
    intro i j hj hji
    cases hf : idxs'.find? (fun j => j.name = i.name) with
    | none =>
      have := List.find?_eq_none.mp hf j hj
      simp [hji] at this
    | some j' =>
      have hj' := List.mem_of_find?_eq_some hf
      have hn' : j'.name = i.name := by simpa using List.find?_some hf
      congr 1
      -- distinct names
      have := hd
      unfold List.Nodup at this
      rw [List.pairwise_map] at this
      by_cases he : j' = j
      · exact he
      · exfalso
        obtain ⟨a, ha, rfl⟩ := List.getElem_of_mem hj'
        obtain ⟨b, hb, rfl⟩ := List.getElem_of_mem hj
        rw [List.pairwise_iff_getElem] at this
        rcases Nat.lt_trichotomy a b with h | h | h
        · exact this a b ha hb h (by rw [hn', hji])
        · subst h; exact he rfl
        · exact this b a hb ha h (by rw [hn', hji])
  constructor
  · rintro ((⟨i, hi, hx, hc⟩ | ⟨i, hi, j, hf, hk, hc⟩) | ⟨j, hj, hx⟩)
    · exact Or.inl ⟨i, hi, hx, hc⟩
    · exact Or.inr (Or.inl ⟨i, hi, j, List.mem_of_find?_eq_some hf, by simpa using List.find?_some hf, hk, hc⟩)
    · right; right
      by_cases hex : ex.contains j = true
      · exfalso
        have hm : j ∈ ex := by simpa using hex
        simp [hm] at hx
      · have hex' : ex.contains j = false := by simpa using hex
        simp only [hex', Bool.false_eq_true, if_false] at hx
        by_cases hany : (idxs.any fun i => decide (i.name = j.name)) = true
        · simp [hany] at hx
        · have hany' : (idxs.any fun i => decide (i.name = j.name)) = false := by simpa using hany
          simp only [hany', Bool.false_eq_true, if_false, Option.some.injEq] at hx
          refine ⟨j, hj, ?_, hx.symm⟩
          intro i hi he
          rw [List.any_eq_false] at hany'
          exact hany' i hi (by simpa using he)
  · rintro (⟨i, hi, hx, hc⟩ | ⟨i, hi, j, hj, hji, hk, hc⟩ | ⟨j, hj, hx, hc⟩)
    · exact Or.inl (Or.inl ⟨i, hi, hx, hc⟩)
    · exact Or.inl (Or.inr ⟨i, hi, j, hfind i j hj hji, hk, hc⟩)
    · right
      refine ⟨j, hj, ?_⟩
      have hex : ex.contains j = false := by
        cases hcon : ex.contains j with
        | false => rfl
        | true =>
          exfalso
          obtain ⟨i, hi, h⟩ := h2 j (by simpa using hcon)
          exact hx i hi h.symm
      have hany : (idxs.any fun i => decide (i.name = j.name)) = false := by
        rw [List.any_eq_false]
        intro i hi
        simpa using hx i hi
      have hnm : j ∉ ex := by simpa using hex
      simp [hnm, hany, hc]

/-- **check_diff_characterisation** (any two check lists): a check of the current table is dropped when
no desired check matches it (same name, or – for an unnamed one – same expression), modified when the
first match has another expression; a desired check is added when no current check matches it. -/
theorem check_diff_characterisation (cks cks' : List Check) (c : TChange) :
    c ∈ checksDiff cks cks' ↔
      (∃ c1 ∈ cks, cks'.find? (checkMatch c1) = none ∧ c = .dropCheck c1) ∨
      (∃ c1 ∈ cks, ∃ c2, cks'.find? (checkMatch c1) = some c2 ∧ c1.expr ≠ c2.expr ∧ c = .modifyCheck c1 c2) ∨
      (∃ c1 ∈ cks', (∀ x ∈ cks, checkMatch c1 x = false) ∧ c = .addCheck c1) := by
  unfold checksDiff
  rw [List.mem_append, List.mem_filterMap, List.mem_filterMap]
  constructor
  · rintro (⟨c1, h1, hx⟩ | ⟨c1, h1, hx⟩)
    · cases hf : cks'.find? (checkMatch c1) with
      | none => rw [hf] at hx; simp at hx; exact Or.inl ⟨c1, h1, hf, hx.symm⟩
      | some c2 =>
        rw [hf] at hx
        simp only at hx
        by_cases he : (c1.expr == c2.expr) = true
        · simp [he] at hx
        · have he' : (c1.expr == c2.expr) = false := by simpa using he
          simp only [he', Bool.false_eq_true, if_false, Option.some.injEq] at hx
          exact Or.inr (Or.inl ⟨c1, h1, c2, hf, by simpa using he', hx.symm⟩)
    · by_cases ha : cks.any (checkMatch c1) = true
      · simp [ha] at hx
      · have ha' : cks.any (checkMatch c1) = false := by simpa using ha
        simp only [ha', Bool.false_eq_true, if_false, Option.some.injEq] at hx
        exact Or.inr (Or.inr ⟨c1, h1, by simpa [List.any_eq_false] using ha', hx.symm⟩)
  · rintro (⟨c1, h1, hf, hc⟩ | ⟨c1, h1, c2, hf, hne, hc⟩ | ⟨c1, h1, hall, hc⟩)
    · exact Or.inl ⟨c1, h1, by rw [hf]; simp [hc]⟩
    · refine Or.inl ⟨c1, h1, ?_⟩
      rw [hf]
      have : (c1.expr == c2.expr) = false := by simpa using hne
      simp [this, hc]
    · refine Or.inr ⟨c1, h1, ?_⟩
      have : cks.any (checkMatch c1) = false := by
        rw [List.any_eq_false]; intro x hx; simp [hall x hx]
      simp [this, hc]

/-- **table_diff_characterisation**: the diff of two tables is exactly the concatenation of the attribute,
check, column, primary-key, index and foreign-key changes – so the characterisations above describe
every `ModifyTable` for arbitrary simultaneous edits. -/
theorem table_diff_characterisation (a b : Table) (c : TChange) :
    c ∈ tableDiff a b ↔
      (a.attrs ≠ b.attrs ∧ c = .modifyAttr) ∨ c ∈ checksDiff a.checks b.checks ∨ c ∈ columnDiff a.cols b.cols ∨
      c ∈ pkDiff a.pk b.pk ∨ c ∈ indexDiff a.idxs b.idxs ∨ c ∈ fkDiff a.fks b.fks := by
  unfold tableDiff
  simp only [List.mem_append]
  by_cases h : a.attrs = b.attrs
  · simp [h]
    constructor
    · rintro ((((h | h) | h) | h) | h)
      · exact Or.inl h
      · exact Or.inr (Or.inl h)
      · exact Or.inr (Or.inr (Or.inl h))
      · exact Or.inr (Or.inr (Or.inr (Or.inl h)))
      · exact Or.inr (Or.inr (Or.inr (Or.inr h)))
    · rintro (h | h | h | h | h)
      · exact Or.inl (Or.inl (Or.inl (Or.inl h)))
      · exact Or.inl (Or.inl (Or.inl (Or.inr h)))
      · exact Or.inl (Or.inl (Or.inr h))
      · exact Or.inl (Or.inr h)
      · exact Or.inr h
  · have hb : (a.attrs != b.attrs) = true := by simpa using h
    simp only [hb, if_true, List.mem_singleton, ne_eq, h, not_false_eq_true, true_and]
    constructor
    · rintro (((((h | h) | h) | h) | h) | h)
      · exact Or.inl h
      · exact Or.inr (Or.inl h)
      · exact Or.inr (Or.inr (Or.inl h))
      · exact Or.inr (Or.inr (Or.inr (Or.inl h)))
      · exact Or.inr (Or.inr (Or.inr (Or.inr (Or.inl h))))
      · exact Or.inr (Or.inr (Or.inr (Or.inr (Or.inr h))))
    · rintro (h | h | h | h | h | h)
      · exact Or.inl (Or.inl (Or.inl (Or.inl (Or.inl h))))
      · exact Or.inl (Or.inl (Or.inl (Or.inl (Or.inr h))))
      · exact Or.inl (Or.inl (Or.inl (Or.inr h)))
      · exact Or.inl (Or.inl (Or.inr h))
      · exact Or.inl (Or.inr h)
      · exact Or.inr h

/-- **diff_count**: the number of changes is the number of tables that produce one (no table is
reported twice). -/
theorem diff_count (s s' : List Table) :
    (schemaDiff s s').length ≤ s.length + s'.length := by
  unfold schemaDiff
  rw [keyedDiff_length]
  exact Nat.add_le_add (List.length_filter_le _ _) (List.length_filter_le _ _)

/-! ### schema objects (PostgreSQL enum types) -/

/-- **object_diff_characterisation**: for any two object lists, the changes reported are exactly: a drop for
each current enum without a desired namesake, a modification for each one whose desired namesake lists
other values (or the same values in another order), an addition for each desired enum without a current
namesake. -/
theorem object_diff_characterisation (a b : List EnumObj) (c : OChange) :
    c ∈ objectDiff a b ↔
      (∃ e ∈ a, (b.find? (fun e2 => e2.name == e.name) = none ∧ c = .dropObject e.name) ∨
        (∃ e2, b.find? (fun e2 => e2.name == e.name) = some e2 ∧ e.values ≠ e2.values ∧ c = .modifyObject e.name)) ∨
      (∃ e ∈ b, a.any (fun e1 => e1.name == e.name) = false ∧ c = .addObject e.name) := by
  unfold objectDiff
  simp only [List.mem_append, List.mem_filterMap]
  constructor
  · rintro (⟨e, he, h⟩ | ⟨e, he, h⟩)
    · left
      refine ⟨e, he, ?_⟩
      cases hf : b.find? (fun e2 => e2.name == e.name) with
      | none => rw [hf] at h; simp only [Option.some.injEq] at h; exact Or.inl ⟨rfl, h.symm⟩
      | some e2 =>
        rw [hf] at h
        simp only at h
        split at h
        · rename_i hv
          simp only [Option.some.injEq] at h
          exact Or.inr ⟨e2, rfl, by simpa using hv, h.symm⟩
        · cases h
    · right
      refine ⟨e, he, ?_⟩
      split at h
      · cases h
      · rename_i hn
        simp only [Option.some.injEq] at h
        exact ⟨by simpa using hn, h.symm⟩
  · rintro (⟨e, he, h⟩ | ⟨e, he, hn, hc⟩)
    · left
      refine ⟨e, he, ?_⟩
      rcases h with ⟨hf, hc⟩ | ⟨e2, hf, hv, hc⟩
      · rw [hf]; simp [hc]
      · rw [hf]; simp [hc, hv]
    · right
      exact ⟨e, he, by simp [hn, hc]⟩

/-- **enum_values_change_reported**: whenever the desired enum of the same name lists other values - one
more, one fewer, another order - the modification is reported. -/
theorem enum_values_change_reported (a b : List EnumObj) (e e2 : EnumObj) (he : e ∈ a)
    (hf : b.find? (fun x => x.name == e.name) = some e2) (hv : e.values ≠ e2.values) :
    .modifyObject e.name ∈ objectDiff a b :=
  (object_diff_characterisation a b _).mpr (Or.inl ⟨e, he, Or.inr ⟨e2, hf, hv, rfl⟩⟩)

/-- **object_diff_nil_iff**: nothing is reported exactly when every current enum has a desired namesake with
the same ordered values and every desired enum has a current namesake. -/
theorem object_diff_nil_iff (a b : List EnumObj) :
    objectDiff a b = [] ↔
      (∀ e ∈ a, ∃ e2, b.find? (fun x => x.name == e.name) = some e2 ∧ e.values = e2.values) ∧
      (∀ e ∈ b, a.any (fun e1 => e1.name == e.name) = true) := by
  rw [List.eq_nil_iff_forall_not_mem]
  constructor
  · intro h
    constructor
    · intro e he
      cases hf : b.find? (fun x => x.name == e.name) with
      | none =>
        exact absurd ((object_diff_characterisation a b _).mpr (Or.inl ⟨e, he, Or.inl ⟨hf, rfl⟩⟩)) (h _)
      | some e2 =>
        refine ⟨e2, rfl, ?_⟩
        by_cases hv : e.values = e2.values
        · exact hv
        · exact absurd (enum_values_change_reported a b e e2 he hf hv) (h _)
    · intro e he
      cases hn : a.any (fun e1 => e1.name == e.name) with
      | true => rfl
      | false =>
        exact absurd ((object_diff_characterisation a b _).mpr (Or.inr ⟨e, he, hn, rfl⟩)) (h _)
  · rintro ⟨h1, h2⟩ c hc
    rcases (object_diff_characterisation a b c).mp hc with ⟨e, he, h⟩ | ⟨e, he, hn, _⟩
    · obtain ⟨e2, hf, hv⟩ := h1 e he
      rcases h with ⟨hf2, _⟩ | ⟨e3, hf3, hv3, _⟩
      · rw [hf] at hf2; cases hf2
      · rw [hf] at hf3; cases hf3; exact hv3 hv
    · rw [h2 e he] at hn; cases hn

example : objectDiff [⟨1, [1, 2, 3]⟩, ⟨2, [1]⟩] [⟨1, [1, 2]⟩, ⟨3, [1]⟩] =
    [.dropObject 2, .modifyObject 1, .addObject 3] ∨
    objectDiff [⟨1, [1, 2, 3]⟩, ⟨2, [1]⟩] [⟨1, [1, 2]⟩, ⟨3, [1]⟩] = [.modifyObject 1, .dropObject 2, .addObject 3] := by
  decide

example : objectDiff [⟨1, [1, 2]⟩] [⟨1, [2, 1]⟩] = [.modifyObject 1] := by decide

/-! ### non-vacuity -/

def tA : Table := { name := 1, cols := [⟨1, [0, 0]⟩, ⟨2, [1, 0]⟩], idxs := [{ name := some 1, unique := true, parts := [⟨1, false, 0⟩] }],
                    fks := [⟨1, [2], 2, [1], 0, 0⟩], checks := [⟨some 1, 5⟩, ⟨none, 6⟩] }
def tB : Table := { name := 2, cols := [⟨1, [0, 0]⟩] }

example : schemaDiff [tA, tB] [tB, { tA with cols := tA.cols.reverse, checks := tA.checks.reverse }] = [] := by decide

example : schemaDiff [tA, tB] [{ tA with cols := [⟨1, [0, 0]⟩, ⟨2, [1, 1]⟩] }, tB] =
    [.modifyTable 1 [.modifyColumn 2 [1]]] := by decide

/-- two different unnamed indexes: the diff of the table with itself is NOT empty (the second one is
compared with the first) — the reason `TableWF` asks for distinct index names. -/
example : tableDiff { name := 1, cols := [], idxs := [⟨none, false, false, [⟨1, false, 0⟩], 0⟩, ⟨none, false, true, [⟨2, false, 0⟩], 0⟩] }
    { name := 1, cols := [], idxs := [⟨none, false, false, [⟨1, false, 0⟩], 0⟩, ⟨none, false, true, [⟨2, false, 0⟩], 0⟩] } ≠ [] := by decide

/-! ### the two directions mirror each other -/

/-- **add_drop_mirror**: a table is reported as added in one direction exactly when it is reported as
dropped in the other (any two schemas with distinct table names). -/
theorem add_drop_mirror (s s' : List Table) (hs : (s.map Table.name).Nodup) (hs' : (s'.map Table.name).Nodup) (n : Nat) :
    Change.addTable n ∈ schemaDiff s s' ↔ Change.dropTable n ∈ schemaDiff s' s := by
  rw [diff_characterisation s s' hs', diff_characterisation s' s hs]
  constructor
  · rintro (⟨t, _, _, h⟩ | ⟨t, _, t', _, _, _, h⟩ | ⟨t', ht', hn, h⟩)
    · cases h
    · cases h
    · cases h; exact Or.inl ⟨t', ht', hn, rfl⟩
  · rintro (⟨t, ht, hn, h⟩ | ⟨t, _, t', _, _, _, h⟩ | ⟨t', _, _, h⟩)
    · cases h; exact Or.inr (Or.inr ⟨t, ht, hn, rfl⟩)
    · cases h
    · cases h

/-- a table is reported as modified in one direction exactly when it is in the other, provided the table
comparison itself is symmetric in emptiness for the pair. -/
theorem modify_mirror (s s' : List Table) (hs : (s.map Table.name).Nodup) (hs' : (s'.map Table.name).Nodup) (n : Nat)
    (hsym : ∀ t ∈ s, ∀ t' ∈ s', t'.name = t.name → (tableDiff t t' = [] ↔ tableDiff t' t = [])) :
    (∃ cs, Change.modifyTable n cs ∈ schemaDiff s s') ↔ (∃ cs, Change.modifyTable n cs ∈ schemaDiff s' s) := by
  constructor
  · rintro ⟨cs, h⟩
    rw [diff_characterisation s s' hs'] at h
    rcases h with ⟨t, _, _, h⟩ | ⟨t, ht, t', ht', hn, hne, h⟩ | ⟨t', _, _, h⟩
    · cases h
    · cases h
      refine ⟨tableDiff t' t, ?_⟩
      rw [diff_characterisation s' s hs]
      exact Or.inr (Or.inl ⟨t', ht', t, ht, hn.symm, fun he => hne ((hsym t ht t' ht' hn).mpr he), by rw [hn]⟩)
    · cases h
  · rintro ⟨cs, h⟩
    rw [diff_characterisation s' s hs] at h
    rcases h with ⟨t, _, _, h⟩ | ⟨t', ht', t, ht, hn, hne, h⟩ | ⟨t', _, _, h⟩
    · cases h
    · cases h
      refine ⟨tableDiff t t', ?_⟩
      rw [diff_characterisation s s' hs']
      exact Or.inr (Or.inl ⟨t, ht, t', ht', hn.symm, fun he => hne ((hsym t ht t' ht' hn.symm).mp he), by rw [hn]⟩)
    · cases h

example : Change.addTable 2 ∈ schemaDiff [tA] [tA, tB] ∧ Change.dropTable 2 ∈ schemaDiff [tA, tB] [tA] := by decide

end Props.C02
