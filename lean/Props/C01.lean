/-
C01 — Declarative apply converges: one plan takes any database to the desired schema.

Model: `Atlas.Plan` — (1) the SQLite planner's choice of program (`alterable`, in-place ALTER vs the
rebuild procedure) as a function of the change kinds, compared statement by statement with the real
planner by the correspondence run; (2) an abstract engine executing that program on a table (ADD
COLUMN appends, CREATE/DROP INDEX, rebuild = desired definition + all desired indexes).

Proved (tables with any number of columns and indexes):
* `second_plan_empty` — after executing the planned program the diff to the desired table is empty;
* `apply_idempotent`, `apply_n_times` — a second (third, ...) apply of the same desired table executes nothing:
  the table stays exactly as the first apply left it;
* `converges` — the resulting table has the desired keys/constraints/options token, exactly the
  desired columns and exactly the desired indexes (as sets; in-place ADD COLUMN appends, so the storage
  order of columns may differ from the declaration, which the differ ignores);
* `rebuild_is_exact` — the rebuild path yields the desired table literally;
* `alter_shape`, `rebuild_shape` — the in-place program contains no CREATE/DROP TABLE/RENAME, the
  rebuild program re-creates every index of the desired table.

PARTIAL: the statement about the *real* SQLite engine (every generated plan is a distinct SQL
program) is decided by executing the plans: 6000 random pairs per thorough run over the whole feature
set, judged by Atlas's own re-diff AND an independent pragma catalogue of the live vs the desired
database. The abstract engine does not model data, foreign-key enforcement or SQL text.
-/
import Atlas.Plan

namespace Props.C01
open Atlas.Plan

theorem mem_foldl_cols (cs : List PC) (t : PT) (c : Nat) :
    c ∈ (cs.foldl alterStep t).cols ↔ c ∈ t.cols ∨ PC.addCol c ∈ cs := by
  induction cs generalizing t with
  | nil => simp
  | cons x xs ih =>
    rw [List.foldl_cons, ih]
    cases x <;> simp [alterStep] <;> grind

theorem rest_foldl (cs : List PC) (t : PT) : (cs.foldl alterStep t).rest = t.rest := by
  induction cs generalizing t with
  | nil => rfl
  | cons x xs ih => rw [List.foldl_cons, ih]; cases x <;> rfl

/-- the in-place program of a diff (drops come before adds): afterwards an index is present iff it
is a desired index. -/
theorem mem_idxs_after (a b : PT) (i : Nat) :
    i ∈ ((diffPT a b).foldl alterStep a).idxs ↔ i ∈ b.idxs := by
  have key : ∀ (drops adds : List Nat) (t : PT),
      i ∈ ((drops.map PC.dropIdx ++ adds.map PC.addIdx).foldl alterStep t).idxs ↔ (i ∈ t.idxs ∧ i ∉ drops) ∨ i ∈ adds := by
    intro drops
    induction drops with
    | nil =>
      intro adds
      induction adds with
      | nil => intro t; simp
      | cons x xs ih =>
        intro t
        simp only [List.map_nil, List.nil_append, List.map_cons, List.foldl_cons] at ih ⊢
        rw [ih]; simp [alterStep]; grind
    | cons d ds ih =>
      intro adds t
      simp only [List.map_cons, List.cons_append, List.foldl_cons]
      rw [ih]
      simp [alterStep]; grind
  have pre : ∀ (pre : List PC) (t : PT), (∀ x ∈ pre, ∀ j, x ≠ PC.addIdx j ∧ x ≠ PC.dropIdx j) →
      (pre.foldl alterStep t).idxs = t.idxs := by
    intro pre
    induction pre with
    | nil => intro t _; rfl
    | cons x xs ih =>
      intro t h
      rw [List.foldl_cons, ih _ (fun y hy => h y (List.mem_cons_of_mem _ hy))]
      have := h x (List.mem_cons_self ..)
      cases x with
      | addCol c => rfl
      | other => rfl
      | addIdx j => exact absurd rfl (this j).1
      | dropIdx j => exact absurd rfl (this j).2
  unfold diffPT
  rw [List.append_assoc, List.foldl_append]
  generalize hpre : ((if a.rest != b.rest || a.cols.any (fun c => !b.cols.contains c) then [PC.other] else []) ++
      (b.cols.filter (fun c => !a.cols.contains c)).map PC.addCol) = P
  have hP : ∀ x ∈ P, ∀ j, x ≠ PC.addIdx j ∧ x ≠ PC.dropIdx j := by
    intro x hx j
    rw [← hpre] at hx
    rcases List.mem_append.mp hx with h | h
    · split at h
      · simp at h; subst h; exact ⟨by simp, by simp⟩
      · cases h
    · obtain ⟨c, _, rfl⟩ := List.mem_map.mp h
      exact ⟨by simp, by simp⟩
  rw [key, pre P a hP]
  simp only [List.mem_filter, Bool.not_eq_true', List.contains_eq_mem, decide_eq_false_iff_not]
  by_cases h1 : i ∈ a.idxs <;> by_cases h2 : i ∈ b.idxs <;> simp [h1, h2]

/-- what `converges` means: same rebuild-only token, same columns, same indexes. -/
structure Same (t b : PT) : Prop where
  rest : t.rest = b.rest
  cols : ∀ c, c ∈ t.cols ↔ c ∈ b.cols
  idxs : ∀ i, i ∈ t.idxs ↔ i ∈ b.idxs

/-- **rebuild_is_exact**. -/
theorem rebuild_is_exact (simple : Nat → Bool) (a b : PT) (h : (diffPT a b).all (PC.alterable simple) = false) :
    applyPlan simple a b = b := by
  simp [applyPlan, h]

/-- **converges**. -/
theorem converges (simple : Nat → Bool) (a b : PT) : Same (applyPlan simple a b) b := by
  unfold applyPlan
  by_cases h : (diffPT a b).all (PC.alterable simple) = true
  · simp only [h, if_true]
    -- no `other` change: rest equal, every current column is a desired column
    have hno : PC.other ∉ diffPT a b := by
      intro hm
      have := List.all_eq_true.mp h PC.other hm
      simp [PC.alterable] at this
    have hcond : (a.rest != b.rest || a.cols.any (fun c => !b.cols.contains c)) = false := by
      cases hc : (a.rest != b.rest || a.cols.any (fun c => !b.cols.contains c)) with
      | false => rfl
      | true =>
        exfalso
        apply hno
        unfold diffPT
        rw [hc]
        simp
    simp only [Bool.or_eq_false_iff, bne_eq_false_iff_eq] at hcond
    refine ⟨by rw [rest_foldl]; exact hcond.1, ?_, mem_idxs_after a b⟩
    intro c
    rw [mem_foldl_cols]
    have hsub : ∀ x ∈ a.cols, x ∈ b.cols := by
      intro x hx
      have := hcond.2
      rw [List.any_eq_false] at this
      have := this x hx
      simpa using this
    constructor
    · rintro (h1 | h1)
      · exact hsub c h1
      · unfold diffPT at h1
        simp only [List.mem_append, List.mem_map, List.mem_filter] at h1
        rcases h1 with ((h1 | ⟨x, ⟨hx, _⟩, hxe⟩) | ⟨x, _, hxe⟩) | ⟨x, _, hxe⟩
        · split at h1
          · simp at h1
          · cases h1
        · cases hxe; exact hx
        · cases hxe
        · cases hxe
    · intro hc
      by_cases hca : c ∈ a.cols
      · exact Or.inl hca
      · right
        unfold diffPT
        simp only [List.mem_append, List.mem_map, List.mem_filter]
        exact Or.inl (Or.inl (Or.inr ⟨c, ⟨hc, by simpa using hca⟩, rfl⟩))
  · simp only [h, if_false]
    exact ⟨rfl, fun _ => Iff.rfl, fun _ => Iff.rfl⟩

/-- the diff of two tables that are the `Same` is empty. -/
theorem diff_same_nil (t b : PT) (h : Same t b) : diffPT t b = [] := by
  unfold diffPT
  have h1 : (t.rest != b.rest || t.cols.any (fun c => !b.cols.contains c)) = false := by
    simp only [Bool.or_eq_false_iff, bne_eq_false_iff_eq, List.any_eq_false]
    exact ⟨h.rest, fun x hx => by simpa using (h.cols x).mp hx⟩
  have h2 : b.cols.filter (fun c => !t.cols.contains c) = [] := by
    rw [List.filter_eq_nil_iff]; intro c hc; simpa using (h.cols c).mpr hc
  have h3 : t.idxs.filter (fun i => !b.idxs.contains i) = [] := by
    rw [List.filter_eq_nil_iff]; intro i hi; simpa using (h.idxs i).mp hi
  have h4 : b.idxs.filter (fun i => !t.idxs.contains i) = [] := by
    rw [List.filter_eq_nil_iff]; intro i hi; simpa using (h.idxs i).mpr hi
  rw [h1, h2, h3, h4]
  rfl

/-- **second_plan_empty**: a plan computed right after the apply has no changes. -/
theorem second_plan_empty (simple : Nat → Bool) (a b : PT) : diffPT (applyPlan simple a b) b = [] :=
  diff_same_nil _ _ (converges simple a b)

/-! ### the shape of the program -/

theorem alterStmts_inplace : ∀ (cs : List CK) (s : St), s ∈ alterStmts cs →
    s = .alterAdd ∨ s = .createIndex ∨ s = .dropIndex ∨ s = .renameColumn := by
  intro cs
  induction cs with
  | nil => intro s h; cases h
  | cons c rest ih =>
    intro s h
    cases c <;> simp only [alterStmts, List.mem_cons] at h
    all_goals first
      | (rcases h with rfl | h <;> first | (simp; done) | exact ih s h)
      | (rcases h with rfl | rfl | h <;> first | (simp; done) | exact ih s h)
      | exact ih s h

/-- **alter_shape**: an alterable change set is planned without touching the table itself. -/
theorem alter_shape (cs : List CK) (n k : Nat) (h : alterable cs = true) :
    ∀ s ∈ shapeOf (.modifyTable cs n k), s ≠ .createNew ∧ s ≠ .dropTable ∧ s ≠ .rename ∧ s ≠ .copy ∧ s ≠ .createTable := by
  intro s hs
  simp only [shapeOf, h, if_true] at hs
  rcases alterStmts_inplace cs s hs with rfl | rfl | rfl | rfl <;> simp

/-- **rebuild_shape**: otherwise the table is rebuilt and every index of the desired table is created. -/
theorem rebuild_shape (cs : List CK) (n k : Nat) (h : alterable cs = false) :
    shapeOf (.modifyTable cs n k) =
      [.createNew] ++ (if k > 0 then [.copy] else []) ++ [.dropTable, .rename] ++ List.replicate n .createIndex := by
  simp [shapeOf, h]

/-! ### non-vacuity -/

/-- add a plain column and an index, drop an index: in place; the new column ends up last. -/
example : applyPlan (fun _ => true) ⟨[1, 2], 0, [10, 11]⟩ ⟨[1, 3, 2], 0, [11, 12]⟩ = ⟨[1, 2, 3], 0, [11, 12]⟩ := by decide
/-- a changed constraint token forces the rebuild: the result is the desired table literally. -/
example : applyPlan (fun _ => true) ⟨[1, 2], 0, [10]⟩ ⟨[1, 3, 2], 7, [10]⟩ = ⟨[1, 3, 2], 7, [10]⟩ := by decide
example : diffPT (applyPlan (fun c => c != 3) ⟨[1, 2], 0, [10, 11]⟩ ⟨[1, 3, 2], 0, [11, 12]⟩) ⟨[1, 3, 2], 0, [11, 12]⟩ = [] := by decide

/-- **apply_idempotent**: applying the same desired table a second time executes nothing — the table
stays exactly as the first apply left it (tables with any number of columns and indexes). -/
theorem apply_idempotent (simple : Nat → Bool) (a b : PT) :
    applyPlan simple (applyPlan simple a b) b = applyPlan simple a b := by
  have h := second_plan_empty simple a b
  generalize applyPlan simple a b = m at h ⊢
  unfold applyPlan
  simp [h]

/-- … and so does every later apply. -/
theorem apply_n_times (simple : Nat → Bool) (a b : PT) (n : Nat) :
    Nat.repeat (fun t => applyPlan simple t b) (n + 1) a = applyPlan simple a b := by
  induction n with
  | zero => rfl
  | succ n ih => simp only [Nat.repeat] at ih ⊢; rw [ih, apply_idempotent]

end Props.C01
