/-
C07 — What is planned is what is executed: plan → file → statements round-trips.

Model: `Atlas.Format` (DefaultFormatter incl. `directives`/`delim`, the up/down templates of sqltool)
composed with the scanner model `Atlas.Lex`. The correspondence run compares, for every generated
plan of the three real planners, the bytes of the written file and the statements read back with the
model's, and the monitor compares the statements read back with `Plan.Changes[].Cmd`.

Proved here (all plans / all delimiters): the custom delimiter survives its trip through the
`-- atlas:delimiter` header (`unescape_escape`: escaping then unescaping is the identity for every
delimiter without a backslash), the file is the concatenation of one unit per change in plan order
(`formatAtlas_units`, `formatUp_units`), `rev` is an involution and the down file lists the reverse
statements of the changes in reverse plan order (`downStmts_spec`).

`escape_injective`: two delimiters without a backslash never share a header. The hypothesis is needed:
`escape_sequence_delimiter_not_restored`, `escape_not_injective` — a delimiter holding the two
characters backslash + n is written like a line feed and read back as one (known finding
`delimiter-with-literal-escape-sequence`, reproduced on the implementation by the hand-made plans).

PARTIAL: the full statement `scan (format plan) = plan.map cmd` for every plan whose commands are
`Scannable` is not proved; it is checked on every generated plan by the correspondence + monitor.
goose / dbmate / liquibase readers are exercised by the harness only.
-/
import Atlas.Format

namespace Props.C07
open Atlas Atlas.Format

/-- **unescape_escape**: the scanner's `setDelim` undoes the formatter's `delim` escaping for every
delimiter that contains no backslash (line breaks, tabs, any other bytes). -/
theorem unescape_escape : ∀ (d : Bytes), (∀ b ∈ d, b ≠ 0x5c) → Lex.unescape (escapeDelim d) = d := by
  intro d
  induction d with
  | nil => intro _; rfl
  | cons b r ih =>
    intro h
    have hb : b ≠ 0x5c := h b (List.mem_cons_self ..)
    have ihr := ih (fun x hx => h x (List.mem_cons_of_mem _ hx))
    by_cases h1 : b = 0x0a
    · subst h1; simp [escapeDelim, Lex.unescape, ihr]
    · by_cases h2 : b = 0x0d
      · subst h2; simp [escapeDelim, Lex.unescape, ihr]
      · by_cases h3 : b = 0x09
        · subst h3; simp [escapeDelim, Lex.unescape, ihr]
        · rw [escapeDelim.eq_4 b r h1 h2 h3,
            Lex.unescape.eq_4 b _ (fun _ h _ => hb h) (fun _ h _ => hb h) (fun _ h _ => hb h), ihr]

/-- the escaped delimiter never contains a line break, so the header stays on one line. -/
theorem escape_no_newline : ∀ (d : Bytes), (0x0a : UInt8) ∉ escapeDelim d := by
  intro d
  induction d with
  | nil => simp [escapeDelim]
  | cons b r ih =>
    by_cases h1 : b = 0x0a
    · subst h1; simp [escapeDelim, ih]
    · by_cases h2 : b = 0x0d
      · subst h2; simp [escapeDelim, ih]
      · by_cases h3 : b = 0x09
        · subst h3; simp [escapeDelim, ih]
        · rw [escapeDelim.eq_4 b r h1 h2 h3]
          simp only [List.mem_cons, not_or]
          exact ⟨fun h => h1 h.symm, ih⟩

/-- **formatAtlas_units**: the atlas file is the directive header followed by one unit per change, in
plan order; a unit is the optional comment line, the command, the delimiter and a line break. -/
theorem formatAtlas_units (p : Plan) (h : Bytes) (hd : directivesText p = some h) :
    formatAtlas p = some (h ++ (p.changes.map (atlasUnit p)).flatten) := by
  simp [formatAtlas, hd, List.flatMap]

theorem formatUp_units (p : Plan) : formatUp p = (p.changes.map upUnit).flatten := by
  simp [formatUp, List.flatMap]

/-- a plan without delimiter and directives has no header. -/
theorem no_header (p : Plan) (h1 : p.delimiter = []) (h2 : p.directives = []) : directivesText p = some [] := by
  simp [directivesText, h1, h2]

/-- with a custom delimiter (and no other directive) the header is exactly the delimiter directive
line followed by an empty line. -/
theorem delimiter_header (p : Plan) (h1 : p.delimiter ≠ []) (h2 : p.directives = []) :
    directivesText p = some (delimLine p.delimiter ++ [0x0a, 0x0a]) := by
  have : p.delimiter.isEmpty = false := by cases hd : p.delimiter <;> simp_all
  simp [directivesText, h2, this, intercalate]

/-! ### checkpoint files -/

theorem takeWhile_lt_of_mem : ∀ (f : Bytes), (0x0a : UInt8) ∈ f → (f.takeWhile (· != 0x0a)).length < f.length := by
  intro f
  induction f with
  | nil => intro h; cases h
  | cons b t ih =>
    intro hnl
    by_cases hb : b = 0x0a
    · subst hb; simp
    · have hb' : (b != 0x0a) = true := by simpa using hb
      simp only [List.takeWhile_cons, hb', if_true, List.length_cons]
      have : (0x0a : UInt8) ∈ t := by
        rcases List.mem_cons.mp hnl with h | h
        · exact absurd h.symm hb
        · exact h
      have := ih this
      omega

/-- a file that starts with a delimiter directive keeps it on its first line when another directive is
added (repaired tree): the result is the first line, the new directive line, then the rest. -/
theorem addDirective_keeps_first_line (name f : Bytes) (hd : hasDelimHeader f = true)
    (hn : name ≠ delimiterName) (hnl : (0x0a : UInt8) ∈ f) :
    addDirective true name f =
      f.takeWhile (· != 0x0a) ++ [0x0a] ++
        ([0x2d, 0x2d, 0x20] ++ Hash.atlasTag ++ name ++ [0x0a] ++ (if startsWithComment f then [] else [0x0a])) ++
        f.drop ((f.takeWhile (· != 0x0a)).length + 1) := by
  have hlt : (f.takeWhile (· != 0x0a)).length < f.length := takeWhile_lt_of_mem f hnl
  unfold addDirective
  have hne : (name != delimiterName) = true := by simpa using hn
  simp only [hd, hne, hlt, Bool.and_self, decide_true, if_true]

/-- the pinned commit puts the checkpoint directive in front of the delimiter directive … -/
theorem pinned_checkpoint_hides_delimiter :
    (formatCheckpoint false { delimiter := [0x47, 0x4f], changes := [{ cmd := Bytes.ascii ['A'] }, { cmd := Bytes.ascii ['B'] }] }).map
      (fun f => f.take 20) = some (Bytes.ascii ['-', '-', ' ', 'a', 't', 'l', 'a', 's', ':', 'c', 'h', 'e', 'c', 'k', 'p', 'o', 'i', 'n', 't', '\n']) := by
  decide

/-- … the repaired tree keeps `-- atlas:delimiter GO` first. -/
example :
    (formatCheckpoint true { delimiter := [0x47, 0x4f], changes := [{ cmd := Bytes.ascii ['A'] }, { cmd := Bytes.ascii ['B'] }] }).map
      (fun f => f.take 22) = some (Bytes.ascii ['-', '-', ' ', 'a', 't', 'l', 'a', 's', ':', 'd', 'e', 'l', 'i', 'm', 'i', 't', 'e', 'r', ' ', 'G', 'O', '\n']) := by
  decide

theorem rev_rev (cs : List Change) : rev (rev cs) = cs := by simp [rev]

/-- **downStmts_spec** (shared with C17): the statements of the down file are the reverse statements
of the changes, taken in reverse plan order, each change's statements in their own order. -/
theorem downStmts_spec (p : Plan) : downStmts p = (p.changes.reverse.map (·.reverse)).flatten := by
  simp [downStmts, rev, List.flatMap]

/-- changes without reverse statements contribute nothing to a down file. -/
theorem downUnit_irreversible (c : Change) (h : c.reverse = []) : downUnit c = [] := by
  simp [downUnit, h]

/-! ### non-vacuity (tests by evaluation) -/

def nl3 : Bytes := [0x0a, 0x0a, 0x0a]

/-- the header written for the delimiter "\n\n\n" is read back by `Scanner.init` as that delimiter. -/
example : (Lex.init true (delimLine nl3 ++ [0x0a, 0x0a] ++ Bytes.ascii ['a'])).map (·.delim) = some nl3 := by decide

example : (Lex.init true (delimLine (Bytes.ascii ['/', '/']) ++ [0x0a, 0x0a] ++ Bytes.ascii ['a'])).map (·.delim)
    = some (Bytes.ascii ['/', '/']) := by decide

/-- the hypothesis of `unescape_escape` is needed (known finding `delimiter-with-literal-escape-sequence`):
a delimiter that holds the two characters backslash + n is written unchanged and read back as a line feed. -/
theorem escape_sequence_delimiter_not_restored :
    Lex.unescape (escapeDelim [0x5c, 0x6e]) = [0x0a] ∧ Lex.unescape (escapeDelim [0x61, 0x5c, 0x74, 0x62]) = [0x61, 0x09, 0x62] := by
  decide

/-- **escape_injective**: two delimiters without a backslash never share a header. -/
theorem escape_injective (d₁ d₂ : Bytes) (h₁ : ∀ b ∈ d₁, b ≠ 0x5c) (h₂ : ∀ b ∈ d₂, b ≠ 0x5c)
    (h : escapeDelim d₁ = escapeDelim d₂) : d₁ = d₂ := by
  rw [← unescape_escape d₁ h₁, ← unescape_escape d₂ h₂, h]

/-- … while with a backslash two different delimiters are written as the same header. -/
theorem escape_not_injective : escapeDelim [0x5c, 0x6e] = escapeDelim [0x0a] := by decide

end Props.C07
