/-
C10 — `migrate apply` is crash-consistent at every point, per transaction mode.

Model: `Atlas.Tx` (operation plan of `migrateApplyRun` + `Executor.Execute`, durable state + working
copy of the open transaction, crash = first k operations happened and the working copy is lost).
The plan and every crash state are compared with the real binary by the correspondence run.

Proved here for every directory (any number of files and statements, all statements succeeding, no
txmode directives), every number `t0` of files applied by earlier runs, every crash point `k`:
* `crash_file` / `crash_all` — file and all mode: the database after a crash is exactly the database
  after `t` completely applied files (`t0 ≤ t`; in all mode `t = t0` or all files): no half-applied
  file, and the revision table describes exactly the effects present;
* `crash_none` — none mode: additionally one file may be partially applied, with `a ≤ i ≤ a+1`
  (`i` statements executed, `a` recorded): the revision table is never ahead of the effects and at
  most the statement in flight is unrecorded;
* `rerun_file_all`, `rerun_none` — running the same command again from any such state ends in a
  database whose revision table is that of an uninterrupted run and whose journal is that of the
  uninterrupted run (file/all: equal, every statement exactly once) with at most one extra row, the
  statement in flight (none);
* `rev_le_db` — in every crash state every recorded statement has its effect in the journal.

PARTIAL: directories with failing statements / directives under a crash, crashes of the re-run itself
in none mode (duplicates then add up: one per crash), and SQLite's own recovery are not covered by
these theorems; the correspondence run covers directive mixes and the real engine.
-/
import Lemmas.Tx

namespace Props.C10
open Atlas.Tx

/-- the database after the first `t` files of `dir` were applied completely. -/
def after (dir : List TFile) (t : Nat) : Db := applyFiles {} (dir.take t)

theorem after_revs_length (dir : List TFile) (t : Nat) (ht : t ≤ dir.length) : (after dir t).revs.length = t := by
  simp [after, applyFiles_revs_length, Nat.min_eq_left ht]

theorem after_add (dir : List TFile) (t t' : Nat) :
    applyFiles (after dir t) ((dir.drop t).take t') = after dir (t + t') := by
  unfold after
  rw [← applyFiles_append, List.take_add]

theorem after_all (dir : List TFile) (t : Nat) : applyFiles (after dir t) (dir.drop t) = after dir dir.length := by
  unfold after
  rw [← applyFiles_append, List.take_append_drop, List.take_length]

/-- the plan from a clean state: the loop over the files not yet applied. -/
theorem plan_after (cfg : Cfg) (hc : cfg.count = none) (hd : cfg.dryRun = false) (dir : List TFile) (t : Nat)
    (ht : t ≤ dir.length) :
    plan cfg dir (after dir t) = planFiles cfg (after dir t) false t (dir.drop t) := by
  have hp : pendingStart (after dir t) = t := by
    unfold after; rw [pendingStart_applyFiles]; simp [Nat.min_eq_left ht]
  simp [plan, hd, hc, limit, hp]

theorem allOk_drop {dir : List TFile} (h : AllOk dir) (t : Nat) : AllOk (dir.drop t) :=
  fun f hf => h f (List.mem_of_mem_drop hf)

/-- **crash_file**: file mode, any crash point: the database is the one after `t` complete files. -/
theorem crash_file (cfg : Cfg) (hm : cfg.mode = .file) (hc : cfg.count = none) (hd : cfg.dryRun = false)
    (dir : List TFile) (h : AllOk dir) (t0 : Nat) (ht0 : t0 ≤ dir.length) (k : Nat) :
    ∃ t, t0 ≤ t ∧ t ≤ dir.length ∧ crashAt (after dir t0) (plan cfg dir (after dir t0)).1 k = after dir t := by
  rw [plan_after cfg hc hd dir t0 ht0, planFiles_file cfg hm _ _ _ (allOk_drop h t0) (by rw [after_revs_length dir t0 ht0]; exact Nat.le_refl _)]
  have := blocks_crash (dir.drop t0) (after dir t0) k
  rw [after_revs_length dir t0 ht0] at this
  obtain ⟨t, ht, he⟩ := this
  refine ⟨t0 + t, by omega, by simp at ht; omega, ?_⟩
  unfold crashAt St.crash
  rw [he, after_add]

/-- **crash_all**: all mode: nothing or everything. -/
theorem crash_all (cfg : Cfg) (hm : cfg.mode = .all) (hc : cfg.count = none) (hd : cfg.dryRun = false)
    (dir : List TFile) (h : AllOk dir) (t0 : Nat) (ht0 : t0 ≤ dir.length) (k : Nat) :
    crashAt (after dir t0) (plan cfg dir (after dir t0)).1 k = after dir t0 ∨
    crashAt (after dir t0) (plan cfg dir (after dir t0)).1 k = after dir dir.length := by
  rw [plan_after cfg hc hd dir t0 ht0]
  cases hdr : dir.drop t0 with
  | nil => left; simp [planFiles, crashAt, applyOps, St.crash]
  | cons f fs =>
    rw [planFiles_all cfg hm _ f fs t0 (by rw [← hdr]; exact allOk_drop h t0) (by rw [after_revs_length dir t0 ht0]; exact Nat.le_refl _)]
    have := all_crash (f :: fs) (after dir t0) k
    rw [after_revs_length dir t0 ht0, ← hdr, after_all] at this
    rw [← hdr]
    exact this

/-- **rerun_file_all**: from the state after `t` complete files the same command completes the
migration: the result is the database of an uninterrupted run (every statement exactly once). -/
theorem rerun_file_all (cfg : Cfg) (hm : cfg.mode = .file ∨ cfg.mode = .all) (hc : cfg.count = none)
    (hd : cfg.dryRun = false) (dir : List TFile) (h : AllOk dir) (t : Nat) (ht : t ≤ dir.length) :
    runAll (after dir t) (plan cfg dir (after dir t)).1 = after dir dir.length := by
  rw [plan_after cfg hc hd dir t ht]
  have hl := after_revs_length dir t ht
  rcases hm with hm | hm
  · rw [planFiles_file cfg hm _ _ _ (allOk_drop h t) (by rw [hl]; exact Nat.le_refl _)]
    have := blocks_full (dir.drop t) (after dir t)
    rw [hl] at this
    unfold runAll St.crash
    rw [this, after_all]
  · cases hdr : dir.drop t with
    | nil =>
      have : dir.length ≤ t := by simpa using hdr
      have : t = dir.length := by omega
      subst this
      simp [planFiles, runAll, applyOps, St.crash]
    | cons f fs =>
      rw [planFiles_all cfg hm _ f fs t (by rw [← hdr]; exact allOk_drop h t) (by rw [hl]; exact Nat.le_refl _)]
      have := block_full (bodies (after dir t).revs.length (f :: fs)) (bodies_pure _ _) (after dir t)
      rw [bodies_effect, ← hdr, after_all, hl, hdr] at this
      unfold runAll St.crash
      rw [this]

/-- a crash followed by the same command (file / all mode) = the uninterrupted run. -/
theorem crash_then_rerun_file (cfg : Cfg) (hm : cfg.mode = .file) (hc : cfg.count = none) (hd : cfg.dryRun = false)
    (dir : List TFile) (h : AllOk dir) (t0 : Nat) (ht0 : t0 ≤ dir.length) (k : Nat) :
    let c := crashAt (after dir t0) (plan cfg dir (after dir t0)).1 k
    runAll c (plan cfg dir c).1 = after dir dir.length := by
  intro c
  obtain ⟨t, _, ht, he⟩ := crash_file cfg hm hc hd dir h t0 ht0 k
  show runAll (crashAt _ _ k) (plan cfg dir (crashAt _ _ k)).1 = _
  rw [he]
  exact rerun_file_all cfg (Or.inl hm) hc hd dir h t ht

theorem crash_then_rerun_all (cfg : Cfg) (hm : cfg.mode = .all) (hc : cfg.count = none) (hd : cfg.dryRun = false)
    (dir : List TFile) (h : AllOk dir) (t0 : Nat) (ht0 : t0 ≤ dir.length) (k : Nat) :
    let c := crashAt (after dir t0) (plan cfg dir (after dir t0)).1 k
    runAll c (plan cfg dir c).1 = after dir dir.length := by
  intro c
  show runAll (crashAt _ _ k) (plan cfg dir (crashAt _ _ k)).1 = _
  rcases crash_all cfg hm hc hd dir h t0 ht0 k with he | he <;> rw [he]
  · exact rerun_file_all cfg (Or.inr hm) hc hd dir h t0 ht0
  · exact rerun_file_all cfg (Or.inr hm) hc hd dir h dir.length (Nat.le_refl _)

/-! ### none mode -/

/-- the states a crash can leave in none mode: `t` complete files, or additionally file `t` with `i`
statements executed and `a` recorded, `a ≤ i ≤ a+1`. -/
def NoneCrashState (dir : List TFile) (c : Db) : Prop :=
  ∃ t, t ≤ dir.length ∧
    (c = after dir t ∨
     ∃ f i a, dir[t]? = some f ∧ a ≤ i ∧ i ≤ a + 1 ∧ i ≤ f.ok.length ∧ c = partFile (after dir t) i a f.ok.length)

/-- **crash_none**: none mode, any crash point. -/
theorem crash_none (cfg : Cfg) (hm : cfg.mode = .none) (hc : cfg.count = none) (hd : cfg.dryRun = false)
    (dir : List TFile) (h : AllOk dir) (t0 : Nat) (ht0 : t0 ≤ dir.length) (k : Nat) :
    NoneCrashState dir (crashAt (after dir t0) (plan cfg dir (after dir t0)).1 k) := by
  rw [plan_after cfg hc hd dir t0 ht0, planFiles_none cfg hm _ _ _ (allOk_drop h t0) (by rw [after_revs_length dir t0 ht0]; exact Nat.le_refl _)]
  unfold crashAt St.crash
  rw [applyOps_pure_none _ (fun o ho => bodies_pure _ _ o (List.mem_of_mem_take ho))]
  have := bodies_crash (dir.drop t0) (after dir t0) k
  rw [after_revs_length dir t0 ht0] at this
  obtain ⟨t, ht, hcase⟩ := this
  refine ⟨t0 + t, by simp at ht; omega, ?_⟩
  rcases hcase with he | ⟨f, i, a, hf, h1, h2, h3, he⟩
  · left; show List.foldl _ _ _ = _; rw [he, after_add]
  · right
    refine ⟨f, i, a, by simpa using hf, h1, h2, h3, ?_⟩
    show List.foldl _ _ _ = _
    rw [he, after_add]

theorem after_succ (dir : List TFile) (t : Nat) (f : TFile) (hf : dir[t]? = some f) :
    after dir (t + 1) = applyFile (after dir t) f := by
  unfold after
  rw [List.take_succ, hf, applyFiles_append]
  rfl

/-- the journal of the re-run is the journal of the uninterrupted run with at most one extra row, a
repetition of a statement of the directory (the one in flight at the crash). -/
def AtMostOneTwice (clean final : List (Nat × Nat)) : Prop :=
  ∃ pre extra post, clean = pre ++ post ∧ final = pre ++ extra ++ post ∧ extra.length ≤ 1 ∧ ∀ x ∈ extra, x ∈ clean

/-- **rerun_none**: from any state a crash can leave, the same command completes: the revision
table is that of the uninterrupted run, no statement is lost, at most one is executed twice. -/
theorem rerun_none (cfg : Cfg) (hm : cfg.mode = .none) (hc : cfg.count = none) (hd : cfg.dryRun = false)
    (dir : List TFile) (h : AllOk dir) (c : Db) (hcs : NoneCrashState dir c) :
    (runAll c (plan cfg dir c).1).revs = (after dir dir.length).revs ∧
    AtMostOneTwice (after dir dir.length).journal (runAll c (plan cfg dir c).1).journal := by
  have clean : ∀ t, t ≤ dir.length → runAll (after dir t) (plan cfg dir (after dir t)).1 = after dir dir.length := by
    intro t ht
    rw [plan_after cfg hc hd dir t ht, planFiles_none cfg hm _ _ _ (allOk_drop h t) (by rw [after_revs_length dir t ht]; exact Nat.le_refl _)]
    unfold runAll St.crash
    rw [applyOps_pure_none _ (bodies_pure _ _)]
    have := bodies_effect (dir.drop t) (after dir t)
    rw [after_revs_length dir t ht] at this
    show List.foldl _ _ _ = _
    rw [this, after_all]
  have trivialCase : ∀ d : Db, d = after dir dir.length →
      d.revs = (after dir dir.length).revs ∧ AtMostOneTwice (after dir dir.length).journal d.journal := by
    intro d hd'; subst hd'
    exact ⟨rfl, ⟨(after dir dir.length).journal, [], [], by simp, by simp, by simp, by simp⟩⟩
  obtain ⟨t, ht, hcase⟩ := hcs
  rcases hcase with rfl | ⟨f, i, a, hf, h1, h2, h3, rfl⟩
  · exact trivialCase _ (clean t ht)
  · have htlt : t < dir.length := by
      rcases List.getElem?_eq_some_iff.mp hf with ⟨hlt, _⟩; exact hlt
    by_cases ham : a = f.ok.length
    · have hi : i = f.ok.length := by omega
      subst ham; rw [hi, partFile_complete, ← after_succ dir t f hf]
      exact trivialCase _ (clean (t + 1) (by omega))
    · have halt : a < f.ok.length := by omega
      have hl := after_revs_length dir t ht
      -- the plan resumes file t
      have hdrop : dir.drop t = f :: dir.drop (t + 1) := by
        rw [List.drop_eq_getElem_cons htlt]
        congr 1
        rcases List.getElem?_eq_some_iff.mp hf with ⟨_, hv⟩; exact hv
      have hps : pendingStart (partFile (after dir t) i a f.ok.length) = t := by
        unfold pendingStart partFile
        simp only [List.getLast?_concat, if_pos halt, List.length_append, List.length_singleton, hl]
        omega
      have hplan : plan cfg dir (partFile (after dir t) i a f.ok.length) =
          (body t f.ok.length a ++ bodies (t + 1) (dir.drop (t + 1)), true) := by
        simp only [plan, hd, hc, limit, hps, hdrop]
        exact planFiles_none_resume cfg hm _ f _ t a (by rw [← hdrop]; exact allOk_drop h t)
          (by simp [partFile, hl])
          (by have := List.getElem?_concat_length (l := (after dir t).revs) (a := (⟨a, f.ok.length, false⟩ : Rev))
              rw [hl] at this; exact this)
      rw [hplan]
      unfold runAll St.crash
      have hpure : ∀ o ∈ body t f.ok.length a ++ bodies (t + 1) (dir.drop (t + 1)), o.pure = true := by
        intro o ho
        rcases List.mem_append.mp ho with ho | ho
        · exact body_pure _ _ _ o ho
        · exact bodies_pure _ _ o ho
      rw [applyOps_pure_none _ hpure]
      have heff := resume_effect (after dir t) f.ok.length (dir.drop (t + 1)) i a
      rw [hl] at heff
      dsimp only
      rw [heff]
      have hclean : after dir dir.length = applyFiles (after dir t) (f :: dir.drop (t + 1)) := by
        rw [← hdrop, after_all]
      rw [hclean, applyFiles_cons_eq, hl]
      refine ⟨rfl, ?_⟩
      obtain ⟨extra, hel, hex, hsplit, hrange⟩ := range_split i a f.ok.length h1 h2 h3 halt
      refine ⟨(after dir t).journal ++ (List.range i).map (fun x => (t, x)), extra.map (fun x => (t, x)),
        (List.range' i (f.ok.length - i)).map (fun x => (t, x)) ++ jrn (t + 1) (dir.drop (t + 1)), ?_, ?_, by simpa using hel, ?_⟩
      · simp only [hrange, List.map_append, List.append_assoc]
      · simp only [hsplit, List.map_append, List.append_assoc]
      · intro x hx
        rw [List.mem_map] at hx
        obtain ⟨y, hy, rfl⟩ := hx
        have := hex y hy; subst this
        simp only [List.mem_append, List.mem_map, List.mem_range]
        exact Or.inl (Or.inr ⟨y, halt, rfl⟩)

/-- **rev_le_db**: in every state a crash can leave (file / all: complete files only; none: one
partial file in addition) every statement recorded as applied has its effect in the journal. -/
theorem rev_le_db (dir : List TFile) (c : Db) (hcs : NoneCrashState dir c) :
    ∀ (f : Nat) (r : Rev), c.revs[f]? = some r → ∀ i, i < r.applied → (f, i) ∈ c.journal := by
  obtain ⟨t, ht, hcase⟩ := hcs
  have complete := applyFiles_rev_le
  rcases hcase with rfl | ⟨g, n, a, hg, h1, h2, h3, rfl⟩
  · exact complete _
  · exact partFile_rev_le _ (complete _) n a _ h1

/-- file / all mode crash states are `NoneCrashState`s without partial file, hence `rev_le_db`
applies to them as well. -/
theorem after_is_crash_state (dir : List TFile) (t : Nat) (ht : t ≤ dir.length) : NoneCrashState dir (after dir t) :=
  ⟨t, ht, Or.inl rfl⟩

/-! ### non-vacuity -/

def sampleDir : List TFile := [{ ok := [true, true] }, { ok := [true] }, { ok := [true, true, true] }]

example : AllOk sampleDir := by
  intro f hf
  simp [sampleDir] at hf
  rcases hf with rfl | rfl | rfl <;> exact ⟨rfl, by simp⟩

/-- none mode, killed after 8 operations (statement (1,0) executed, not yet recorded), re-run: the
journal has (1,0) twice and every other statement once. -/
example :
    let cfg : Cfg := { mode := .none }
    let c := crashAt {} (plan cfg sampleDir {}).1 8
    c = { journal := [(0,0),(0,1),(1,0)], revs := [⟨2,2,false⟩, ⟨0,1,false⟩] } ∧
    (runAll c (plan cfg sampleDir c).1).journal = [(0,0),(0,1),(1,0),(1,0),(2,0),(2,1),(2,2)] := by decide

/-- file mode, killed inside the second file's transaction: exactly the first file is applied. -/
example :
    let cfg : Cfg := { mode := .file }
    crashAt {} (plan cfg sampleDir {}).1 11 = after sampleDir 1 := by decide

end Props.C10
