/-
C10 — `migrate apply` is crash-consistent at every point, per transaction mode.

Model: `Atlas.Tx` (operation plan of `migrateApplyRun` + `Executor.Execute`, durable state + working
copy of the open transaction, crash = first k operations happened and the working copy is lost).
The plan and every crash state are compared with the real binary by the correspondence run.

Proved here for every directory (any number of files and statements, all statements succeeding, no
txmode directives), every number `t0` of files applied by earlier runs, every crash point `k`:
* `crash_file` / `crash_all` — file and all mode: the database after a crash is exactly the database
  after `t` completely applied files (`t0 ≤ t`; in all mode `t = t0` or all files): no half-applied
  file, and the revision table describes exactly the effects present;
* `crash_none` — none mode: additionally one file may be partially applied, with `a ≤ i ≤ a+1`
  (`i` statements executed, `a` recorded): the revision table is never ahead of the effects and at
  most the statement in flight is unrecorded;
* `rerun_file_all`, `rerun_none` — running the same command again from any such state ends in a
  database whose revision table is that of an uninterrupted run and whose journal is that of the
  uninterrupted run (file/all: equal, every statement exactly once) with at most one extra row, the
  statement in flight (none);
* `rev_le_db` — in every crash state every recorded statement has its effect in the journal.

* `crash_mixed`, `crash_mixed_state`, `run_mixed` — directories whose files carry `-- atlas:txmode`
  directives (any mix of `file` and `none` files, repaired `mayCommit`): a crash leaves `t` complete files
  and a recorded prefix of file `t` only if THAT file runs without a transaction — a file in its own
  transaction is never half-applied, whatever its neighbours do; the uninterrupted run applies every file;
* `crash_file_count`, `crash_all_count`, `crash_none_count`, `rerun_count` — the apply-count argument:
  the same crash states, at most `n` files beyond the ones applied before; the completed command applies
  exactly the next `n` files (or all that are left).

* `crash_all_any` — `--tx-mode all` for ANY directory (failing statements anywhere, `txmode` directives of any
  kind, any count, any revision table): a process that dies before the last operation of the command - the
  only COMMIT, if there is one - has changed nothing durable.

* `rerun_after_crash_all_any` — ... and the re-run after such a crash is the crashed run over again.
* `crash_none_any` — `--tx-mode none` for ANY directory without directives (failing statements anywhere, any
  count, any revision table): the state after a crash is exactly the operations performed before it, applied
  in order - whatever ran is durable, nothing is ever undone.

* `crash_file_any` — `--tx-mode file` for ANY directory without directives (failing statements anywhere, any
  count, any revision table, repaired `mayCommit`): the state after a crash at any point is the state after a
  complete, successful run over the first `t` pending files, for some `t` - no file is ever half-applied.

PARTIAL: the number `t` of `crash_file_any` is not tied to the crash point (that it is the number of blocks
completed before it) for directories with failing statements, the re-run from a half-applied file of a
directive mix, crashes of the re-run itself in none mode (duplicates then add up: one per crash), and
SQLite's own recovery are not covered by these theorems; the correspondence run covers them on the real
engine.
-/
import Lemmas.Tx
import Lemmas.TxCount
import Lemmas.TxMixed
import Lemmas.TxAllAtomic
import Lemmas.TxNonePlain
import Lemmas.TxFileBlocks

namespace Props.C10
open Atlas.Tx

/-- the database after the first `t` files of `dir` were applied completely. -/
def after (dir : List TFile) (t : Nat) : Db := applyFiles {} (dir.take t)

theorem after_revs_length (dir : List TFile) (t : Nat) (ht : t ≤ dir.length) : (after dir t).revs.length = t := by
  simp [after, applyFiles_revs_length, Nat.min_eq_left ht]

theorem after_add (dir : List TFile) (t t' : Nat) :
    applyFiles (after dir t) ((dir.drop t).take t') = after dir (t + t') := by
  unfold after
  rw [← applyFiles_append, List.take_add]

theorem after_all (dir : List TFile) (t : Nat) : applyFiles (after dir t) (dir.drop t) = after dir dir.length := by
  unfold after
  rw [← applyFiles_append, List.take_append_drop, List.take_length]

/-- the plan from a clean state: the loop over the files not yet applied. -/
theorem plan_after (cfg : Cfg) (hc : cfg.count = none) (hd : cfg.dryRun = false) (dir : List TFile) (t : Nat)
    (ht : t ≤ dir.length) :
    plan cfg dir (after dir t) = planFiles cfg (after dir t) false t (dir.drop t) := by
  have hp : pendingStart (after dir t) = t := by
    unfold after; rw [pendingStart_applyFiles]; simp [Nat.min_eq_left ht]
  simp [plan, hd, hc, limit, hp]

theorem allOk_drop {dir : List TFile} (h : AllOk dir) (t : Nat) : AllOk (dir.drop t) :=
  fun f hf => h f (List.mem_of_mem_drop hf)

/-- **crash_file**: file mode, any crash point: the database is the one after `t` complete files. -/
theorem crash_file (cfg : Cfg) (hm : cfg.mode = .file) (hc : cfg.count = none) (hd : cfg.dryRun = false)
    (dir : List TFile) (h : AllOk dir) (t0 : Nat) (ht0 : t0 ≤ dir.length) (k : Nat) :
    ∃ t, t0 ≤ t ∧ t ≤ dir.length ∧ crashAt (after dir t0) (plan cfg dir (after dir t0)).1 k = after dir t := by
  rw [plan_after cfg hc hd dir t0 ht0, planFiles_file cfg hm _ _ _ (allOk_drop h t0) (by rw [after_revs_length dir t0 ht0]; exact Nat.le_refl _)]
  have := blocks_crash (dir.drop t0) (after dir t0) k
  rw [after_revs_length dir t0 ht0] at this
  obtain ⟨t, ht, he⟩ := this
  refine ⟨t0 + t, by omega, by simp at ht; omega, ?_⟩
  unfold crashAt St.crash
  rw [he, after_add]

/-- **crash_all**: all mode: nothing or everything. -/
theorem crash_all (cfg : Cfg) (hm : cfg.mode = .all) (hc : cfg.count = none) (hd : cfg.dryRun = false)
    (dir : List TFile) (h : AllOk dir) (t0 : Nat) (ht0 : t0 ≤ dir.length) (k : Nat) :
    crashAt (after dir t0) (plan cfg dir (after dir t0)).1 k = after dir t0 ∨
    crashAt (after dir t0) (plan cfg dir (after dir t0)).1 k = after dir dir.length := by
  rw [plan_after cfg hc hd dir t0 ht0]
  cases hdr : dir.drop t0 with
  | nil => left; simp [planFiles, crashAt, applyOps, St.crash]
  | cons f fs =>
    rw [planFiles_all cfg hm _ f fs t0 (by rw [← hdr]; exact allOk_drop h t0) (by rw [after_revs_length dir t0 ht0]; exact Nat.le_refl _)]
    have := all_crash (f :: fs) (after dir t0) k
    rw [after_revs_length dir t0 ht0, ← hdr, after_all] at this
    rw [← hdr]
    exact this

/-- **rerun_file_all**: from the state after `t` complete files the same command completes the
migration: the result is the database of an uninterrupted run (every statement exactly once). -/
theorem rerun_file_all (cfg : Cfg) (hm : cfg.mode = .file ∨ cfg.mode = .all) (hc : cfg.count = none)
    (hd : cfg.dryRun = false) (dir : List TFile) (h : AllOk dir) (t : Nat) (ht : t ≤ dir.length) :
    runAll (after dir t) (plan cfg dir (after dir t)).1 = after dir dir.length := by
  rw [plan_after cfg hc hd dir t ht]
  have hl := after_revs_length dir t ht
  rcases hm with hm | hm
  · rw [planFiles_file cfg hm _ _ _ (allOk_drop h t) (by rw [hl]; exact Nat.le_refl _)]
    have := blocks_full (dir.drop t) (after dir t)
    rw [hl] at this
    unfold runAll St.crash
    rw [this, after_all]
  · cases hdr : dir.drop t with
    | nil =>
      have : dir.length ≤ t := by simpa using hdr
      have : t = dir.length := by omega
      subst this
      simp [planFiles, runAll, applyOps, St.crash]
    | cons f fs =>
      rw [planFiles_all cfg hm _ f fs t (by rw [← hdr]; exact allOk_drop h t) (by rw [hl]; exact Nat.le_refl _)]
      have := block_full (bodies (after dir t).revs.length (f :: fs)) (bodies_pure _ _) (after dir t)
      rw [bodies_effect, ← hdr, after_all, hl, hdr] at this
      unfold runAll St.crash
      rw [this]

/-- a crash followed by the same command (file / all mode) = the uninterrupted run. -/
theorem crash_then_rerun_file (cfg : Cfg) (hm : cfg.mode = .file) (hc : cfg.count = none) (hd : cfg.dryRun = false)
    (dir : List TFile) (h : AllOk dir) (t0 : Nat) (ht0 : t0 ≤ dir.length) (k : Nat) :
    let c := crashAt (after dir t0) (plan cfg dir (after dir t0)).1 k
    runAll c (plan cfg dir c).1 = after dir dir.length := by
  intro c
  obtain ⟨t, _, ht, he⟩ := crash_file cfg hm hc hd dir h t0 ht0 k
  show runAll (crashAt _ _ k) (plan cfg dir (crashAt _ _ k)).1 = _
  rw [he]
  exact rerun_file_all cfg (Or.inl hm) hc hd dir h t ht

theorem crash_then_rerun_all (cfg : Cfg) (hm : cfg.mode = .all) (hc : cfg.count = none) (hd : cfg.dryRun = false)
    (dir : List TFile) (h : AllOk dir) (t0 : Nat) (ht0 : t0 ≤ dir.length) (k : Nat) :
    let c := crashAt (after dir t0) (plan cfg dir (after dir t0)).1 k
    runAll c (plan cfg dir c).1 = after dir dir.length := by
  intro c
  show runAll (crashAt _ _ k) (plan cfg dir (crashAt _ _ k)).1 = _
  rcases crash_all cfg hm hc hd dir h t0 ht0 k with he | he <;> rw [he]
  · exact rerun_file_all cfg (Or.inr hm) hc hd dir h t0 ht0
  · exact rerun_file_all cfg (Or.inr hm) hc hd dir h dir.length (Nat.le_refl _)

/-! ### none mode -/

/-- the states a crash can leave in none mode: `t` complete files, or additionally file `t` with `i`
statements executed and `a` recorded, `a ≤ i ≤ a+1`. -/
def NoneCrashState (dir : List TFile) (c : Db) : Prop :=
  ∃ t, t ≤ dir.length ∧
    (c = after dir t ∨
     ∃ f i a, dir[t]? = some f ∧ a ≤ i ∧ i ≤ a + 1 ∧ i ≤ f.ok.length ∧ c = partFile (after dir t) i a f.ok.length)

/-- **crash_none**: none mode, any crash point. -/
theorem crash_none (cfg : Cfg) (hm : cfg.mode = .none) (hc : cfg.count = none) (hd : cfg.dryRun = false)
    (dir : List TFile) (h : AllOk dir) (t0 : Nat) (ht0 : t0 ≤ dir.length) (k : Nat) :
    NoneCrashState dir (crashAt (after dir t0) (plan cfg dir (after dir t0)).1 k) := by
  rw [plan_after cfg hc hd dir t0 ht0, planFiles_none cfg hm _ _ _ (allOk_drop h t0) (by rw [after_revs_length dir t0 ht0]; exact Nat.le_refl _)]
  unfold crashAt St.crash
  rw [applyOps_pure_none _ (fun o ho => bodies_pure _ _ o (List.mem_of_mem_take ho))]
  have := bodies_crash (dir.drop t0) (after dir t0) k
  rw [after_revs_length dir t0 ht0] at this
  obtain ⟨t, ht, hcase⟩ := this
  refine ⟨t0 + t, by simp at ht; omega, ?_⟩
  rcases hcase with he | ⟨f, i, a, hf, h1, h2, h3, he⟩
  · left; show List.foldl _ _ _ = _; rw [he, after_add]
  · right
    refine ⟨f, i, a, by simpa using hf, h1, h2, h3, ?_⟩
    show List.foldl _ _ _ = _
    rw [he, after_add]

theorem after_succ (dir : List TFile) (t : Nat) (f : TFile) (hf : dir[t]? = some f) :
    after dir (t + 1) = applyFile (after dir t) f := by
  unfold after
  rw [List.take_succ, hf, applyFiles_append]
  rfl

/-- the journal of the re-run is the journal of the uninterrupted run with at most one extra row, a
repetition of a statement of the directory (the one in flight at the crash). -/
def AtMostOneTwice (clean final : List (Nat × Nat)) : Prop :=
  ∃ pre extra post, clean = pre ++ post ∧ final = pre ++ extra ++ post ∧ extra.length ≤ 1 ∧ ∀ x ∈ extra, x ∈ clean

/-- **rerun_none**: from any state a crash can leave, the same command completes: the revision
table is that of the uninterrupted run, no statement is lost, at most one is executed twice. -/
theorem rerun_none (cfg : Cfg) (hm : cfg.mode = .none) (hc : cfg.count = none) (hd : cfg.dryRun = false)
    (dir : List TFile) (h : AllOk dir) (c : Db) (hcs : NoneCrashState dir c) :
    (runAll c (plan cfg dir c).1).revs = (after dir dir.length).revs ∧
    AtMostOneTwice (after dir dir.length).journal (runAll c (plan cfg dir c).1).journal := by
  have clean : ∀ t, t ≤ dir.length → runAll (after dir t) (plan cfg dir (after dir t)).1 = after dir dir.length := by
    intro t ht
    rw [plan_after cfg hc hd dir t ht, planFiles_none cfg hm _ _ _ (allOk_drop h t) (by rw [after_revs_length dir t ht]; exact Nat.le_refl _)]
    unfold runAll St.crash
    rw [applyOps_pure_none _ (bodies_pure _ _)]
    have := bodies_effect (dir.drop t) (after dir t)
    rw [after_revs_length dir t ht] at this
    show List.foldl _ _ _ = _
    rw [this, after_all]
  have trivialCase : ∀ d : Db, d = after dir dir.length →
      d.revs = (after dir dir.length).revs ∧ AtMostOneTwice (after dir dir.length).journal d.journal := by
    intro d hd'; subst hd'
    exact ⟨rfl, ⟨(after dir dir.length).journal, [], [], by simp, by simp, by simp, by simp⟩⟩
  obtain ⟨t, ht, hcase⟩ := hcs
  rcases hcase with rfl | ⟨f, i, a, hf, h1, h2, h3, rfl⟩
  · exact trivialCase _ (clean t ht)
  · have htlt : t < dir.length := by
      rcases List.getElem?_eq_some_iff.mp hf with ⟨hlt, _⟩; exact hlt
    by_cases ham : a = f.ok.length
    · have hi : i = f.ok.length := by omega
      subst ham; rw [hi, partFile_complete, ← after_succ dir t f hf]
      exact trivialCase _ (clean (t + 1) (by omega))
    · have halt : a < f.ok.length := by omega
      have hl := after_revs_length dir t ht
      -- the plan resumes file t
      have hdrop : dir.drop t = f :: dir.drop (t + 1) := by
        rw [List.drop_eq_getElem_cons htlt]
        congr 1
        rcases List.getElem?_eq_some_iff.mp hf with ⟨_, hv⟩; exact hv
      have hps : pendingStart (partFile (after dir t) i a f.ok.length) = t := by
        unfold pendingStart partFile
        simp only [List.getLast?_concat, if_pos halt, List.length_append, List.length_singleton, hl]
        omega
      have hplan : plan cfg dir (partFile (after dir t) i a f.ok.length) =
          (body t f.ok.length a ++ bodies (t + 1) (dir.drop (t + 1)), true) := by
        simp only [plan, hd, hc, limit, hps, hdrop]
        exact planFiles_none_resume cfg hm _ f _ t a (by rw [← hdrop]; exact allOk_drop h t)
          (by simp [partFile, hl])
          (by have := List.getElem?_concat_length (l := (after dir t).revs) (a := (⟨a, f.ok.length, false⟩ : Rev))
              rw [hl] at this; exact this)
      rw [hplan]
      unfold runAll St.crash
      have hpure : ∀ o ∈ body t f.ok.length a ++ bodies (t + 1) (dir.drop (t + 1)), o.pure = true := by
        intro o ho
        rcases List.mem_append.mp ho with ho | ho
        · exact body_pure _ _ _ o ho
        · exact bodies_pure _ _ o ho
      rw [applyOps_pure_none _ hpure]
      have heff := resume_effect (after dir t) f.ok.length (dir.drop (t + 1)) i a
      rw [hl] at heff
      dsimp only
      rw [heff]
      have hclean : after dir dir.length = applyFiles (after dir t) (f :: dir.drop (t + 1)) := by
        rw [← hdrop, after_all]
      rw [hclean, applyFiles_cons_eq, hl]
      refine ⟨rfl, ?_⟩
      obtain ⟨extra, hel, hex, hsplit, hrange⟩ := range_split i a f.ok.length h1 h2 h3 halt
      refine ⟨(after dir t).journal ++ (List.range i).map (fun x => (t, x)), extra.map (fun x => (t, x)),
        (List.range' i (f.ok.length - i)).map (fun x => (t, x)) ++ jrn (t + 1) (dir.drop (t + 1)), ?_, ?_, by simpa using hel, ?_⟩
      · simp only [hrange, List.map_append, List.append_assoc]
      · simp only [hsplit, List.map_append, List.append_assoc]
      · intro x hx
        rw [List.mem_map] at hx
        obtain ⟨y, hy, rfl⟩ := hx
        have := hex y hy; subst this
        simp only [List.mem_append, List.mem_map, List.mem_range]
        exact Or.inl (Or.inr ⟨y, halt, rfl⟩)

/-- **rev_le_db**: in every state a crash can leave (file / all: complete files only; none: one
partial file in addition) every statement recorded as applied has its effect in the journal. -/
theorem rev_le_db (dir : List TFile) (c : Db) (hcs : NoneCrashState dir c) :
    ∀ (f : Nat) (r : Rev), c.revs[f]? = some r → ∀ i, i < r.applied → (f, i) ∈ c.journal := by
  obtain ⟨t, ht, hcase⟩ := hcs
  have complete := applyFiles_rev_le
  rcases hcase with rfl | ⟨g, n, a, hg, h1, h2, h3, rfl⟩
  · exact complete _
  · exact partFile_rev_le _ (complete _) n a _ h1

/-- file / all mode crash states are `NoneCrashState`s without partial file, hence `rev_le_db`
applies to them as well. -/
theorem after_is_crash_state (dir : List TFile) (t : Nat) (ht : t ≤ dir.length) : NoneCrashState dir (after dir t) :=
  ⟨t, ht, Or.inl rfl⟩

/-! ### the apply-count argument (`atlas migrate apply N`) -/

theorem after_take (dir : List TFile) (m t : Nat) (h : t ≤ m) : after (dir.take m) t = after dir t := by
  unfold after; rw [List.take_take, Nat.min_eq_left h]

theorem allOk_take {dir : List TFile} (h : AllOk dir) (m : Nat) : AllOk (dir.take m) :=
  fun f hf => h f (List.mem_of_mem_take hf)

/-- with a count the command is the count-less command on the directory cut `n` files after the
applied ones. -/
theorem plan_count_after (cfg : Cfg) (n : Nat) (hc : cfg.count = some n) (dir : List TFile) (t : Nat)
    (ht : t ≤ dir.length) :
    plan cfg dir (after dir t) = plan cfg.noCount (dir.take (t + n)) (after (dir.take (t + n)) t) := by
  have hp : pendingStart (after dir t) = t := by
    unfold after; rw [pendingStart_applyFiles]; simp [Nat.min_eq_left ht]
  rw [plan_count cfg n hc, hp, after_take dir (t + n) t (by omega)]

/-- the command on an all-succeeding directory succeeds. -/
theorem plan_ok (cfg : Cfg) (hc : cfg.count = none) (hd : cfg.dryRun = false) (dir : List TFile) (h : AllOk dir)
    (t : Nat) (ht : t ≤ dir.length) : (plan cfg dir (after dir t)).2 = true := by
  rw [plan_after cfg hc hd dir t ht]
  have hl := after_revs_length dir t ht
  cases hm : cfg.mode with
  | file => rw [planFiles_file cfg hm _ _ _ (allOk_drop h t) (by rw [hl]; exact Nat.le_refl _)]
  | none => rw [planFiles_none cfg hm _ _ _ (allOk_drop h t) (by rw [hl]; exact Nat.le_refl _)]
  | all =>
    cases hdr : dir.drop t with
    | nil => rfl
    | cons f fs =>
      rw [planFiles_all cfg hm _ f fs t (by rw [← hdr]; exact allOk_drop h t) (by rw [hl]; exact Nat.le_refl _)]

/-- **crash_file_count**: file mode with a count: a crash leaves `t` complete files, `t` between the
files applied before and `n` more. -/
theorem crash_file_count (cfg : Cfg) (hm : cfg.mode = .file) (n : Nat) (hc : cfg.count = some n)
    (hd : cfg.dryRun = false) (dir : List TFile) (h : AllOk dir) (t0 : Nat) (ht0 : t0 ≤ dir.length) (k : Nat) :
    ∃ t, t0 ≤ t ∧ t ≤ t0 + n ∧ t ≤ dir.length ∧
      crashAt (after dir t0) (plan cfg dir (after dir t0)).1 k = after dir t := by
  rw [plan_count_after cfg n hc dir t0 ht0, ← after_take dir (t0 + n) t0 (by omega)]
  obtain ⟨t, h1, h2, he⟩ := crash_file cfg.noCount hm rfl hd (dir.take (t0 + n)) (allOk_take h _) t0
    (by simp; omega) k
  simp only [List.length_take] at h2
  exact ⟨t, h1, by omega, by omega, by rw [he, after_take dir (t0 + n) t (by omega)]⟩

/-- **crash_all_count**: all mode with a count: nothing, or exactly the `n` next files. -/
theorem crash_all_count (cfg : Cfg) (hm : cfg.mode = .all) (n : Nat) (hc : cfg.count = some n)
    (hd : cfg.dryRun = false) (dir : List TFile) (h : AllOk dir) (t0 : Nat) (ht0 : t0 ≤ dir.length) (k : Nat) :
    crashAt (after dir t0) (plan cfg dir (after dir t0)).1 k = after dir t0 ∨
    crashAt (after dir t0) (plan cfg dir (after dir t0)).1 k = after dir (min (t0 + n) dir.length) := by
  rw [plan_count_after cfg n hc dir t0 ht0, ← after_take dir (t0 + n) t0 (by omega)]
  rcases crash_all cfg.noCount hm rfl hd (dir.take (t0 + n)) (allOk_take h _) t0 (by simp; omega) k with he | he
  · left; exact he
  · right; rw [he, List.length_take, after_take dir (t0 + n) _ (Nat.min_le_left _ _)]

/-- **rerun_count** (file / all mode): the command with a count, run to its end, applies exactly the
next `n` files (or all that are left). -/
theorem rerun_count (cfg : Cfg) (hm : cfg.mode = .file ∨ cfg.mode = .all) (n : Nat) (hc : cfg.count = some n)
    (hd : cfg.dryRun = false) (dir : List TFile) (h : AllOk dir) (t : Nat) (ht : t ≤ dir.length) :
    runAll (after dir t) (plan cfg dir (after dir t)).1 = after dir (min (t + n) dir.length) ∧
    (plan cfg dir (after dir t)).2 = true := by
  rw [plan_count_after cfg n hc dir t ht]
  refine ⟨?_, plan_ok cfg.noCount rfl hd _ (allOk_take h _) t (by simp; omega)⟩
  rw [← after_take dir (t + n) t (by omega),
    rerun_file_all cfg.noCount hm rfl hd (dir.take (t + n)) (allOk_take h _) t (by simp; omega),
    List.length_take, after_take dir (t + n) _ (Nat.min_le_left _ _)]

/-- a crash state of the cut directory is a crash state of the directory. -/
theorem noneCrashState_take (dir : List TFile) (m : Nat) (c : Db) (hcs : NoneCrashState (dir.take m) c) :
    NoneCrashState dir c := by
  obtain ⟨t, ht, hcase⟩ := hcs
  simp only [List.length_take] at ht
  refine ⟨t, by omega, ?_⟩
  rcases hcase with he | ⟨f, i, a, hf, h1, h2, h3, he⟩
  · left; rw [he, after_take dir m t (by omega)]
  · right
    refine ⟨f, i, a, ?_, h1, h2, h3, by rw [he, after_take dir m t (by omega)]⟩
    rw [List.getElem?_take] at hf
    split at hf
    · exact hf
    · cases hf

/-- **crash_none_count**: none mode with a count: the crash states of `crash_none`. -/
theorem crash_none_count (cfg : Cfg) (hm : cfg.mode = .none) (n : Nat) (hc : cfg.count = some n)
    (hd : cfg.dryRun = false) (dir : List TFile) (h : AllOk dir) (t0 : Nat) (ht0 : t0 ≤ dir.length) (k : Nat) :
    NoneCrashState dir (crashAt (after dir t0) (plan cfg dir (after dir t0)).1 k) := by
  rw [plan_count_after cfg n hc dir t0 ht0, ← after_take dir (t0 + n) t0 (by omega)]
  exact noneCrashState_take dir (t0 + n) _
    (crash_none cfg.noCount hm rfl hd (dir.take (t0 + n)) (allOk_take h _) t0 (by simp; omega) k)

/-! ### directories with `-- atlas:txmode` directives -/

/-- every file succeeds and runs in `file` or `none` mode — by the global mode or by its directive. -/
def MixedOk (cfg : Cfg) (dir : List TFile) : Prop := ∀ f ∈ dir, f.OkIn cfg

theorem mixedOk_drop {cfg : Cfg} {dir : List TFile} (h : MixedOk cfg dir) (t : Nat) : MixedOk cfg (dir.drop t) :=
  fun f hf => h f (List.mem_of_mem_drop hf)

/-- **crash_mixed**: any mix of `file` / `none` files, any crash point: the database holds `t` complete
files and, only if file `t` runs without a transaction, a recorded prefix of it (`a ≤ i ≤ a+1`); a file
that runs in its own transaction is never half-applied. -/
theorem crash_mixed (cfg : Cfg) (hfix : cfg.fixed = true) (hc : cfg.count = none) (hd : cfg.dryRun = false)
    (dir : List TFile) (h : MixedOk cfg dir) (t0 : Nat) (ht0 : t0 ≤ dir.length) (k : Nat) :
    ∃ t, t0 ≤ t ∧ t ≤ dir.length ∧
      (crashAt (after dir t0) (plan cfg dir (after dir t0)).1 k = after dir t ∨
       ∃ f i a, dir[t]? = some f ∧ modeFor cfg f ≠ some .file ∧ a ≤ i ∧ i ≤ a + 1 ∧ i ≤ f.ok.length ∧
         crashAt (after dir t0) (plan cfg dir (after dir t0)).1 k = partFile (after dir t) i a f.ok.length) := by
  have hl := after_revs_length dir t0 ht0
  rw [plan_after cfg hc hd dir t0 ht0, planFiles_mixed cfg hfix _ _ _ (mixedOk_drop h t0) (by rw [hl]; exact Nat.le_refl _)]
  have := mblocks_crash cfg (dir.drop t0) (after dir t0) k
  rw [hl] at this
  obtain ⟨t, ht, hcase⟩ := this
  refine ⟨t0 + t, by omega, by simp at ht; omega, ?_⟩
  unfold crashAt St.crash
  rcases hcase with he | ⟨f, i, a, hf, hm, h1, h2, h3, he⟩
  · left; rw [he, after_add]
  · right; exact ⟨f, i, a, by simpa using hf, hm, h1, h2, h3, by rw [he, after_add]⟩

/-- every crash state of a directive mix is a `NoneCrashState`: `rev_le_db` applies. -/
theorem crash_mixed_state (cfg : Cfg) (hfix : cfg.fixed = true) (hc : cfg.count = none) (hd : cfg.dryRun = false)
    (dir : List TFile) (h : MixedOk cfg dir) (t0 : Nat) (ht0 : t0 ≤ dir.length) (k : Nat) :
    NoneCrashState dir (crashAt (after dir t0) (plan cfg dir (after dir t0)).1 k) := by
  obtain ⟨t, _, ht, hcase⟩ := crash_mixed cfg hfix hc hd dir h t0 ht0 k
  refine ⟨t, ht, ?_⟩
  rcases hcase with he | ⟨f, i, a, hf, _, h1, h2, h3, he⟩
  · left; exact he
  · right; exact ⟨f, i, a, hf, h1, h2, h3, he⟩

/-- **run_mixed**: the uninterrupted command on a directive mix applies every file once. -/
theorem run_mixed (cfg : Cfg) (hfix : cfg.fixed = true) (hc : cfg.count = none) (hd : cfg.dryRun = false)
    (dir : List TFile) (h : MixedOk cfg dir) (t : Nat) (ht : t ≤ dir.length) :
    runAll (after dir t) (plan cfg dir (after dir t)).1 = after dir dir.length ∧
    (plan cfg dir (after dir t)).2 = true := by
  have hl := after_revs_length dir t ht
  rw [plan_after cfg hc hd dir t ht, planFiles_mixed cfg hfix _ _ _ (mixedOk_drop h t) (by rw [hl]; exact Nat.le_refl _)]
  refine ⟨?_, rfl⟩
  have := mblocks_full cfg (dir.drop t) (after dir t)
  rw [hl] at this
  unfold runAll St.crash
  rw [this, after_all]

/-! ### non-vacuity -/

def sampleDir : List TFile := [{ ok := [true, true] }, { ok := [true] }, { ok := [true, true, true] }]

example : AllOk sampleDir := by
  intro f hf
  simp [sampleDir] at hf
  rcases hf with rfl | rfl | rfl <;> exact ⟨rfl, by simp⟩

/-- none mode, killed after 8 operations (statement (1,0) executed, not yet recorded), re-run: the
journal has (1,0) twice and every other statement once. -/
example :
    let cfg : Cfg := { mode := .none }
    let c := crashAt {} (plan cfg sampleDir {}).1 8
    c = { journal := [(0,0),(0,1),(1,0)], revs := [⟨2,2,false⟩, ⟨0,1,false⟩] } ∧
    (runAll c (plan cfg sampleDir c).1).journal = [(0,0),(0,1),(1,0),(1,0),(2,0),(2,1),(2,2)] := by decide

/-- file mode, killed inside the second file's transaction: exactly the first file is applied. -/
example :
    let cfg : Cfg := { mode := .file }
    crashAt {} (plan cfg sampleDir {}).1 11 = after sampleDir 1 := by decide

/-- a directive mix under `--tx-mode none`: file 1 asks for its own transaction. -/
def mixDir : List TFile := [{ ok := [true, true] }, { ok := [true, true], directive := some .file }, { ok := [true] }]

example : MixedOk { mode := .none } mixDir := by
  intro f hf
  simp only [mixDir, List.mem_cons, List.not_mem_nil, or_false] at hf
  rcases hf with rfl | rfl | rfl
  · exact ⟨by simp, Or.inr (by decide)⟩
  · exact ⟨by simp, Or.inl (by decide)⟩
  · exact ⟨by simp, Or.inr (by decide)⟩

/-- crash in the middle of file 1 (its own transaction): nothing of it; in the middle of file 0: a prefix. -/
example : crashAt {} (plan { mode := .none } mixDir {}).1 9 = after mixDir 1 := by decide
example : crashAt {} (plan { mode := .none } mixDir {}).1 3 = partFile {} 1 1 2 := by decide

/-- **crash_all_any**: `--tx-mode all`, any directory (failing statements, directives of any kind, which this
mode rejects), any count and revision table: before the last operation of the command nothing is durable. -/
theorem crash_all_any (cfg : Cfg) (hm : cfg.mode = .all) (dir : List TFile) (db : Db) (k : Nat)
    (hk : k < (plan cfg dir db).1.length) : crashAt db (plan cfg dir db).1 k = db :=
  plan_all_crash_any cfg hm dir db k hk

/-- premises met: three files, a failing statement in the last one: 17 operations, every crash point. -/
example :
    let dir : List TFile := [{ ok := [true, true] }, { ok := [true] }, { ok := [true, false] }]
    (plan { mode := .all } dir {}).1.length = 17 ∧
    ∀ k < 17, crashAt {} (plan { mode := .all } dir {}).1 k = {} := by decide

/-- **rerun_after_crash_all_any**: `--tx-mode all`, any directory: the same command after a crash before the last
operation plans exactly what the crashed run planned - the interrupted run is repeated as a whole, no statement
was kept from it. -/
theorem rerun_after_crash_all_any (cfg : Cfg) (hm : cfg.mode = .all) (dir : List TFile) (db : Db) (k : Nat)
    (hk : k < (plan cfg dir db).1.length) :
    plan cfg dir (crashAt db (plan cfg dir db).1 k) = plan cfg dir db := by
  rw [crash_all_any cfg hm dir db k hk]

/-- **crash_none_any**: `--tx-mode none`, any directory without directives (failing statements anywhere), any
count and revision table, any crash point: the durable state is the fold of the operations performed so far. -/
theorem crash_none_any (cfg : Cfg) (hm : cfg.mode = .none) (dir : List TFile)
    (hd : ∀ f ∈ dir, f.directive = none) (db : Db) (k : Nat) :
    crashAt db (plan cfg dir db).1 k = ((plan cfg dir db).1.take k).foldl durApply db :=
  plan_none_crash_any cfg hm dir hd db k

/-- premises met: a failing statement in the second file; after 6 operations file 1 is complete and recorded. -/
example :
    let dir : List TFile := [{ ok := [true, true] }, { ok := [true, false] }]
    crashAt {} (plan { mode := .none } dir {}).1 6 = { journal := [(0,0),(0,1)], revs := [⟨2,2,false⟩] } := by decide

/-- **crash_file_any**: `--tx-mode file`, any directory without directives (failing statements anywhere), any
count and revision table, any crash point: the durable state is that of a complete, successful run over the
first `t` pending files. -/
theorem crash_file_any (cfg : Cfg) (hm : cfg.mode = .file) (hfix : cfg.fixed = true) (hdr : cfg.dryRun = false)
    (dir : List TFile) (hd : ∀ f ∈ dir, f.directive = none) (db : Db) (k : Nat) :
    ∃ t, t ≤ (limit cfg.count (dir.drop (pendingStart db))).length ∧
      (planFiles cfg db false (pendingStart db) ((limit cfg.count (dir.drop (pendingStart db))).take t)).2 = true ∧
      crashAt db (plan cfg dir db).1 k =
        runAll db (planFiles cfg db false (pendingStart db) ((limit cfg.count (dir.drop (pendingStart db))).take t)).1 :=
  plan_file_crash_any cfg hm hfix hdr dir hd db k

/-- premises met: the second file fails at its second statement: at every one of the 15 crash points the database
is empty or holds exactly file 1. -/
example :
    let dir : List TFile := [{ ok := [true, true] }, { ok := [true, false] }, { ok := [true] }]
    (plan { mode := .file } dir {}).1.length = 15 ∧
    ∀ k < 16, crashAt {} (plan { mode := .file } dir {}).1 k = {} ∨
      crashAt {} (plan { mode := .file } dir {}).1 k = { journal := [(0,0),(0,1)], revs := [⟨2,2,false⟩] } := by decide

/-- **crash_dry_run_any**: with `--dry-run` a crash at any point, in any mode, for any directory and revision
table, leaves the database exactly as it was (the apply loop holds no database operation). -/
theorem crash_dry_run_any (cfg : Cfg) (hd : cfg.dryRun = true) (dir : List TFile) (db : Db) (k : Nat) :
    crashAt db (plan cfg dir db).1 k = db := by
  simp [plan, hd, crashAt, applyOps, St.crash]

end Props.C10
