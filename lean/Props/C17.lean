/-
C17 — Reverse statements undo the plan: up then down restores the original schema.

Model: `Atlas.Reverse` — statements acting on an abstract database, the reverses the SQLite planner
attaches to each statement kind, `SetReversible`, running a plan up and its reverse statements down
(changes in reverse order); the down-file part is `Props.C07.downStmts_spec` (the formatters emit the
reverse statements of the changes in reverse plan order), compared with every real formatter by the
correspondence run.

Proved (plans of any length, databases of any size):
* `down_up` — if every change's reverse undoes its statement in the state where it runs (`Valid`),
  then running the plan and then all reverse statements in reverse order restores the database
  exactly;
* `planner_reverses_undo` — each reverse the planner attaches undoes its statement whenever the
  statement is applicable to the state it was planned for (the table does not exist yet / exists with
  the recorded definition / lacks the column or index / has the index);
* `irreversible_never_reversible`, `reversible_iff` — a plan is reported reversible iff every change
  has reverse statements; a plan containing a rebuild or a dropped column is never reversible;
* `planner_plan_restores`, `planner_plan_reversible`, `planner_plan_irreversible` — the two above put
  together for whole plans (`planFrom`: every statement carries the planner's reverse computed from the
  table as it is when the statement runs): if every statement is of a reversible kind and applies to the
  state it runs in, up followed by down is the identity and the plan is reported reversible; a plan holding
  a rebuild or a dropped column anywhere is reported irreversible;
* `down_order` — the reverse statements run change by change from the last to the first, each
  change's statements in their own order.

PARTIAL: that the real planners attach exactly these reverses, and that SQLite executes them with
this effect, is decided by the correspondence run (statement kinds of Cmd/Reverse of every planned
change) and by executing up and down on a real engine (independent catalogue before = after).
-/
import Atlas.Reverse

namespace Props.C17
open Atlas.Reverse

/-- the reverse of `c` undoes `c` in state `s`. -/
def Undoes (c : Change) (s : Db) : Prop := c.reverse.foldl exec (exec s c.cmd) = s

/-- every change is undone by its reverse in the state where it runs. -/
def Valid : Db → List Change → Prop
  | _, [] => True
  | s, c :: p => Undoes c s ∧ Valid (exec s c.cmd) p

theorem downStmts_cons (c : Change) (p : List Change) : downStmts (c :: p) = downStmts p ++ c.reverse := by
  simp [downStmts, List.flatMap_append]

/-- **down_up**. -/
theorem down_up : ∀ (p : List Change) (s : Db), Valid s p → down (up s p) p = s := by
  intro p
  induction p with
  | nil => intro s _; rfl
  | cons c p ih =>
    intro s ⟨hu, hv⟩
    have : up s (c :: p) = up (exec s c.cmd) p := rfl
    unfold down
    rw [this, downStmts_cons, List.foldl_append]
    have ih' := ih (exec s c.cmd) hv
    unfold down at ih'
    rw [ih']
    exact hu

/-- **down_order**. -/
theorem down_order (p : List Change) : downStmts p = (p.reverse.map (·.reverse)).flatten := by
  simp [downStmts, List.flatMap]

theorem set_set (s : Db) (n : Nat) (a b : Option TDef) : (s.set n a).set n b = s.set n b := by
  funext m; simp only [Db.set]; split <;> rfl

theorem set_self (s : Db) (n : Nat) : s.set n (s n) = s := by
  funext m; simp only [Db.set]; split
  · rename_i h; rw [h]
  · rfl

theorem set_get (s : Db) (n : Nat) (a : Option TDef) : (s.set n a) n = a := by simp [Db.set]

/-- **planner_reverses_undo**: the applicability conditions under which each reverse is exact. -/
theorem createTable_undone (s : Db) (n : Nat) (d : TDef) (h : s n = none) :
    Undoes ⟨.createTable n d, plannerReverse none (.createTable n d)⟩ s := by
  unfold Undoes
  simp only [plannerReverse, List.foldl_cons, List.foldl_nil, exec]
  rw [set_set, ← h, set_self]

theorem dropTable_undone (s : Db) (n : Nat) (d : TDef) (h : s n = some d) :
    Undoes ⟨.dropTable n, plannerReverse (some d) (.dropTable n)⟩ s := by
  unfold Undoes
  simp only [plannerReverse, List.foldl_cons, List.foldl_nil, exec]
  rw [set_set, ← h, set_self]

theorem addColumn_undone (s : Db) (n c : Nat) (d : TDef) (h : s n = some d) (hc : c ∉ d.cols) :
    Undoes ⟨.addColumn n c, plannerReverse none (.addColumn n c)⟩ s := by
  unfold Undoes
  simp only [plannerReverse, List.foldl_cons, List.foldl_nil, exec, h, set_get]
  rw [set_set]
  have : (d.cols ++ [c]).filter (· != c) = d.cols := by
    rw [List.filter_append]
    have h1 : d.cols.filter (· != c) = d.cols := by
      rw [List.filter_eq_self]; intro x hx; simp; intro he; exact hc (he ▸ hx)
    simp [h1]
  simp only [this]
  rw [← h, set_self]

theorem createIndex_undone (s : Db) (n i : Nat) (d : TDef) (h : s n = some d) (hi : d.idxs i = false) :
    Undoes ⟨.createIndex n i, plannerReverse none (.createIndex n i)⟩ s := by
  unfold Undoes
  simp only [plannerReverse, List.foldl_cons, List.foldl_nil, exec, h, set_get]
  rw [set_set]
  have key : ∀ (f : Nat → Bool), f = d.idxs → s.set n (some { cols := d.cols, idxs := f }) = s := by
    intro f hf; subst hf; rw [← h]; exact set_self s n
  skip
  apply key
  funext j
  cases hji : (j == i) with
  | true =>
    have hj : j = i := by simpa using hji
    subst hj; simp [hi]
  | false => simp [bne, hji]

theorem dropIndex_undone (s : Db) (n i : Nat) (d : TDef) (h : s n = some d) (hi : d.idxs i = true) :
    Undoes ⟨.dropIndex n i, plannerReverse none (.dropIndex n i)⟩ s := by
  unfold Undoes
  simp only [plannerReverse, List.foldl_cons, List.foldl_nil, exec, h, set_get]
  rw [set_set]
  have key : ∀ (f : Nat → Bool), f = d.idxs → s.set n (some { cols := d.cols, idxs := f }) = s := by
    intro f hf; subst hf; rw [← h]; exact set_self s n
  skip
  apply key
  funext j
  cases hji : (j == i) with
  | true =>
    have hj : j = i := by simpa using hji
    subst hj; simp [hi]
  | false => simp [bne, hji]

/-- **reversible_iff**: `SetReversible`. -/
theorem reversible_iff (p : List Change) : reversible p = true ↔ ∀ c ∈ p, c.reverse ≠ [] := by
  simp [reversible, List.all_eq_true]

/-- **irreversible_never_reversible**: a rebuild statement or a dropped column (planned with the
planner's reverses) makes the plan irreversible. -/
theorem irreversible_never_reversible (p : List Change) (c : Change) (hc : c ∈ p)
    (h : (∃ n d old, c = ⟨.rebuild n d, plannerReverse old (.rebuild n d)⟩) ∨
         (∃ n col old, c = ⟨.dropColumn n col, plannerReverse old (.dropColumn n col)⟩)) :
    reversible p = false := by
  rw [Bool.eq_false_iff]
  intro hr
  have := (reversible_iff p).mp hr c hc
  rcases h with ⟨n, d, old, rfl⟩ | ⟨n, col, old, rfl⟩ <;> simp [plannerReverse] at this

/-! ### non-vacuity -/

def db0 : Db := fun n => if n = 1 then some { cols := [1, 2], idxs := fun i => i == 10 } else none

def planA : List Change :=
  [⟨.createTable 2 { cols := [5], idxs := fun _ => false }, plannerReverse none (.createTable 2 { cols := [5], idxs := fun _ => false })⟩,
   ⟨.addColumn 1 3, plannerReverse none (.addColumn 1 3)⟩,
   ⟨.createIndex 1 11, plannerReverse none (.createIndex 1 11)⟩,
   ⟨.dropIndex 1 10, plannerReverse none (.dropIndex 1 10)⟩]

example : reversible planA = true := by decide

/-- the example plan satisfies `Valid` from `db0` (so `down_up` applies to it). -/
example : Valid db0 planA := by
  refine ⟨createTable_undone db0 2 _ (by simp [db0]), ?_, ?_, ?_, trivial⟩
  · exact addColumn_undone _ 1 3 { cols := [1, 2], idxs := fun i => i == 10 } (by simp [exec, Db.set, db0]) (by simp)
  · exact createIndex_undone _ 1 11 { cols := [1, 2, 3], idxs := fun i => i == 10 } (by simp [exec, Db.set, db0]) (by simp)
  · exact dropIndex_undone _ 1 10 { cols := [1, 2, 3], idxs := fun j => j == 11 || j == 10 } (by simp [exec, Db.set, db0]) (by simp)

/-! ### the flag of one ALTER TABLE statement -/

theorem alterFlag_go {α : Type} (inv : α → Bool) (cs : List α) (b : Bool) :
    cs.foldl (fun r c => r && inv c) b = (b && cs.all inv) := by
  induction cs generalizing b with
  | nil => simp
  | cons c cs ih => rw [List.foldl_cons, ih, List.all_cons, Bool.and_assoc]

/-- **alter_flag_iff**: an ALTER TABLE statement is reported reversible exactly when every change in it
is invertible - one irreversible change anywhere in the list is enough, whatever follows it. -/
theorem alter_flag_iff {α : Type} (inv : α → Bool) (cs : List α) :
    alterFlag inv cs = true ↔ ∀ c ∈ cs, inv c = true := by
  unfold alterFlag
  rw [alterFlag_go]
  simp

/-- the flag is the conjunction of the flags of the single-change statements (what the correspondence
run observes through the real planners). -/
theorem alter_flag_compositional {α : Type} (inv : α → Bool) (cs : List α) :
    alterFlag inv cs = cs.all (fun c => alterFlag inv [c]) := by
  unfold alterFlag
  rw [alterFlag_go]
  simp [List.foldl]

/-- **alter_flag_perm**: the order of the changes does not matter. -/
theorem alter_flag_perm {α : Type} (inv : α → Bool) (cs ds : List α) (h : cs.Perm ds) :
    alterFlag inv cs = alterFlag inv ds := by
  have key : ∀ l : List α, alterFlag inv l = l.all inv := by
    intro l; unfold alterFlag; rw [alterFlag_go]; simp
  rw [key, key]
  cases hc : cs.all inv <;> cases hd : ds.all inv <;> try rfl
  · rw [List.all_eq_true] at hd
    have : cs.all inv = true := List.all_eq_true.mpr (fun x hx => hd x (h.mem_iff.mp hx))
    rw [this] at hc; cases hc
  · rw [List.all_eq_true] at hc
    have : ds.all inv = true := List.all_eq_true.mpr (fun x hx => hc x (h.mem_iff.mpr hx))
    rw [this] at hd; cases hd

/-- adding changes never turns an irreversible statement into a reversible one. -/
theorem alter_flag_append {α : Type} (inv : α → Bool) (cs ds : List α) (h : alterFlag inv cs = false) :
    alterFlag inv (cs ++ ds) = false ∧ alterFlag inv (ds ++ cs) = false := by
  have key : ∀ l : List α, alterFlag inv l = l.all inv := by
    intro l; unfold alterFlag; rw [alterFlag_go]; simp
  rw [key] at h
  rw [key, key, List.all_append, List.all_append, h]
  simp

/-- non-vacuity: an unnamed check (not invertible) followed by a named one. -/
example : alterFlag (fun (named : Bool) => named) [false, true] = false ∧
    alterFlag (fun (named : Bool) => named) [true, true] = true := by decide

/-! ### which changes of an ALTER TABLE are invertible (the planners' table, `Atlas.Reverse.alterInv`) -/

/-- **alter_reversible_iff_table**: an ALTER TABLE statement is reported reversible exactly when it adds no
unnamed CHECK and - PostgreSQL - drops no generation expression. -/
theorem alter_reversible_iff_table (pg : Bool) (cs : List AlterCh) :
    alterFlag (alterInv pg) cs = true ↔
      AlterCh.addCheck false ∉ cs ∧ (pg = true → AlterCh.modifyColumn true ∉ cs) := by
  rw [alter_flag_iff]
  constructor
  · intro h
    refine ⟨fun hm => ?_, fun hp hm => ?_⟩
    · have := h _ hm; simp [alterInv] at this
    · have := h _ hm; simp [alterInv, hp] at this
  · intro ⟨h1, h2⟩ c hc
    cases c with
    | addCheck named => cases named with
      | true => rfl
      | false => exact absurd hc h1
    | modifyColumn g => cases g with
      | false => simp [alterInv]
      | true => cases pg with
        | false => simp [alterInv]
        | true => exact absurd hc (h2 rfl)
    | other => rfl

/-- **unnamed_check_never_reversible**: whatever else the statement holds, in whatever order, for every dialect:
an ALTER TABLE that adds a CHECK without a name is never reported reversible. -/
theorem unnamed_check_never_reversible (pg : Bool) (cs : List AlterCh) (h : AlterCh.addCheck false ∈ cs) :
    alterFlag (alterInv pg) cs = false := by
  cases hf : alterFlag (alterInv pg) cs with
  | false => rfl
  | true => exact absurd h ((alter_reversible_iff_table pg cs).mp hf).1

example : alterFlag (alterInv true) [.other, .addCheck true, .modifyColumn false] = true ∧
    alterFlag (alterInv true) [.other, .addCheck false, .addCheck true] = false ∧
    alterFlag (alterInv true) [.modifyColumn true] = false ∧ alterFlag (alterInv false) [.modifyColumn true] = true := by decide

/-! ### whole plans of the planner: applicable statements ⇒ up then down is the identity -/

def tableOf : Stmt → Nat
  | .createTable n _ | .dropTable n | .addColumn n _ | .dropColumn n _
  | .createIndex n _ | .dropIndex n _ | .rebuild n _ => n

/-- the plan the planner writes for a statement sequence from state `s`: every statement carries the
planner's reverse, computed from the table as it is when the statement runs. -/
def planFrom : Db → List Stmt → List Change
  | _, [] => []
  | s, c :: cs => ⟨c, plannerReverse (s (tableOf c)) c⟩ :: planFrom (exec s c) cs

/-- the statement is one of the reversible kinds and applies to the state (what the differ guarantees:
a created table does not exist, a dropped one does, an added column / index is new, a dropped index exists). -/
def Applicable (s : Db) : Stmt → Prop
  | .createTable n _ => s n = none
  | .dropTable n => ∃ d, s n = some d
  | .addColumn n c => ∃ d, s n = some d ∧ c ∉ d.cols
  | .createIndex n i => ∃ d, s n = some d ∧ d.idxs i = false
  | .dropIndex n i => ∃ d, s n = some d ∧ d.idxs i = true
  | .dropColumn _ _ => False
  | .rebuild _ _ => False

def AllApplicable : Db → List Stmt → Prop
  | _, [] => True
  | s, c :: cs => Applicable s c ∧ AllApplicable (exec s c) cs

theorem applicable_undoes (s : Db) (c : Stmt) (h : Applicable s c) :
    Undoes ⟨c, plannerReverse (s (tableOf c)) c⟩ s := by
  cases c with
  | createTable n d => exact createTable_undone s n d h
  | dropTable n =>
    obtain ⟨d, hd⟩ := h
    have := dropTable_undone s n d hd
    simpa [tableOf, hd] using this
  | addColumn n c => obtain ⟨d, hd, hc⟩ := h; exact addColumn_undone s n c d hd hc
  | createIndex n i => obtain ⟨d, hd, hi⟩ := h; exact createIndex_undone s n i d hd hi
  | dropIndex n i => obtain ⟨d, hd, hi⟩ := h; exact dropIndex_undone s n i d hd hi
  | dropColumn n c => exact absurd h (by simp [Applicable])
  | rebuild n d => exact absurd h (by simp [Applicable])

theorem planFrom_valid : ∀ (cs : List Stmt) (s : Db), AllApplicable s cs → Valid s (planFrom s cs) := by
  intro cs
  induction cs with
  | nil => intro _ _; trivial
  | cons c cs ih => intro s h; exact ⟨applicable_undoes s c h.1, ih (exec s c) h.2⟩

/-- **planner_plan_restores**: for statement sequences of any length over databases of any size, if
every statement is of a reversible kind and applies to the state it runs in, then running the plan
and then the reverse statements the planner attached, from the last change to the first, restores
the database exactly. -/
theorem planner_plan_restores (cs : List Stmt) (s : Db) (h : AllApplicable s cs) :
    down (up s (planFrom s cs)) (planFrom s cs) = s :=
  down_up _ s (planFrom_valid cs s h)

/-- … and such a plan is reported reversible. -/
theorem planner_plan_reversible : ∀ (cs : List Stmt) (s : Db), AllApplicable s cs →
    reversible (planFrom s cs) = true := by
  intro cs
  induction cs with
  | nil => intro _ _; rfl
  | cons c cs ih =>
    intro s h
    have ht := ih (exec s c) h.2
    unfold reversible at ht ⊢
    simp only [planFrom, List.all_cons, ht, Bool.and_true]
    cases c with
    | dropTable n => obtain ⟨d, hd⟩ := h.1; simp [plannerReverse, tableOf, hd]
    | dropColumn n c => exact absurd h.1 (by simp [Applicable])
    | rebuild n d => exact absurd h.1 (by simp [Applicable])
    | _ => simp [plannerReverse]

/-- conversely a plan holding a statement of an irreversible kind is never reported reversible. -/
theorem planner_plan_irreversible (pre post : List Stmt) (s : Db) (c : Stmt)
    (hc : (∃ n d, c = .rebuild n d) ∨ (∃ n col, c = .dropColumn n col)) :
    reversible (planFrom s (pre ++ c :: post)) = false := by
  induction pre generalizing s with
  | nil =>
    rcases hc with ⟨n, d, rfl⟩ | ⟨n, col, rfl⟩ <;> simp [planFrom, reversible, plannerReverse]
  | cons a as ih =>
    have := ih (exec s a)
    unfold reversible at this ⊢
    simp only [List.cons_append, planFrom, List.all_cons, this, Bool.and_false]

/-- non-vacuity: create a table, add a column to it, drop another table — from `db0`. -/
def stmtsB : List Stmt :=
  [.createTable 2 { cols := [5], idxs := fun _ => false }, .addColumn 2 6, .dropTable 1]

example : AllApplicable db0 stmtsB := by
  refine ⟨by simp [Applicable, db0], ⟨{ cols := [5], idxs := fun _ => false }, by simp [exec, Db.set], by simp⟩,
    ⟨{ cols := [1, 2], idxs := fun i => i == 10 }, by simp [exec, Db.set, db0]⟩, trivial⟩

end Props.C17
