/-
C03 — Schema exports are faithful: inspected HCL and SQL recreate the same database.

The SQL export is the plan of (empty → inspected) (cmdlog.sqlInspect); the HCL export is compared by
the differ. Over the differ model `Atlas.Diff` and the planner-shape model `Atlas.Plan`:
* `export_creates_all` — the diff from the empty schema is exactly one AddTable per inspected table,
  in inspection order: nothing is dropped, modified or left out, for schemas of any size;
* `export_shape` — the planned SQL export is, per table, CREATE TABLE followed by one CREATE INDEX
  per index, nothing else;
* `faithful_both_directions` — if re-creating the export yields the same tables with the same
  children (in any order), the comparison is empty in both directions.

PARTIAL: that inspection recovers every property of the database (pragma + CREATE statement parsing)
and that the exports, executed / evaluated, yield such a schema is decided on a real engine by the
monitor: random databases over the whole feature set -> `atlas schema inspect` (HCL and SQL) ->
recreated on fresh databases -> independent pragma catalogue equal, `schema diff` empty in both
directions, inspecting twice byte-identical.
-/
import Props.C02
import Atlas.Plan

namespace Props.C03
open Atlas.Diff Props.C02

/-- **export_creates_all**. -/
theorem export_creates_all (s : List Table) : schemaDiff [] s = s.map (fun t => Change.addTable t.name) := by
  unfold schemaDiff keyedDiff
  simp only [List.filterMap_nil, List.nil_append]
  induction s with
  | nil => rfl
  | cons t ts ih => simp [toStep, ih]

/-- **export_shape**: CREATE TABLE, then its indexes. -/
theorem export_shape (idxCounts : List Nat) :
    Atlas.Plan.shape (idxCounts.map Atlas.Plan.Ch.addTable) =
      idxCounts.flatMap (fun n => Atlas.Plan.St.createTable :: List.replicate n Atlas.Plan.St.createIndex) := by
  simp [Atlas.Plan.shape, Atlas.Plan.shapeOf, List.flatMap_map]

theorem reordered_symm {a b : Table} (h : Reordered a b) : Reordered b a :=
  ⟨h.name.symm, h.attrs.symm, h.pk.symm, h.cols.symm, h.idxs.symm, h.fks.symm, h.checks.symm⟩

/-- **faithful_both_directions**. -/
theorem faithful_both_directions (s s' : List Table) (hw : WF s) (hw' : WF s')
    (h1 : ∀ a ∈ s, ∃ b ∈ s', Reordered a b) (h2 : ∀ b ∈ s', ∃ a ∈ s, Reordered a b) :
    schemaDiff s s' = [] ∧ schemaDiff s' s = [] := by
  refine ⟨diff_reordered s s' hw hw'.names h1 h2, diff_reordered s' s hw' hw.names ?_ ?_⟩
  · intro b hb
    obtain ⟨a, ha, hr⟩ := h2 b hb
    exact ⟨a, ha, reordered_symm hr⟩
  · intro a ha
    obtain ⟨b, hb, hr⟩ := h1 a ha
    exact ⟨b, hb, reordered_symm hr⟩

example : schemaDiff [] [tA, tB] = [.addTable 1, .addTable 2] := by decide

end Props.C03
