/-
C03 — Schema exports are faithful: inspected HCL and SQL recreate the same database.

The SQL export is the plan of (empty → inspected) (cmdlog.sqlInspect); the HCL export is compared by
the differ. Over the differ model `Atlas.Diff` and the planner-shape model `Atlas.Plan`:
* `export_creates_all` — the diff from the empty schema is exactly one AddTable per inspected table,
  in inspection order: nothing is dropped, modified or left out, for schemas of any size;
* `export_shape` — the planned SQL export is, per table, CREATE TABLE followed by one CREATE INDEX
  per index, nothing else;
* `faithful_both_directions` — if re-creating the export yields the same tables with the same
  children (in any order), the comparison is empty in both directions;
* `export_replay_identity` / `export_round_trip` — over an abstract engine (`replay`: each AddTable of
  the script creates the inspected table of that name), the script exported for any database with
  distinct table names builds exactly the inspected tables in inspection order, and the comparison
  with the original is empty in both directions, for schemas of any size (the hypothesis is needed:
  a counterexample with a duplicated name is proved beside it).

PARTIAL: that inspection recovers every property of the database (pragma + CREATE statement parsing)
and that the exports, executed / evaluated, yield such a schema is decided on a real engine by the
monitor: random databases over the whole feature set -> `atlas schema inspect` (HCL and SQL) ->
recreated on fresh databases -> independent pragma catalogue equal, `schema diff` empty in both
directions, inspecting twice byte-identical.
-/
import Props.C02
import Atlas.Plan

namespace Props.C03
open Atlas.Diff Props.C02

/-- **export_creates_all**. -/
theorem export_creates_all (s : List Table) : schemaDiff [] s = s.map (fun t => Change.addTable t.name) := by
  unfold schemaDiff keyedDiff
  simp only [List.filterMap_nil, List.nil_append]
  induction s with
  | nil => rfl
  | cons t ts ih => simp [toStep, ih]

/-- **export_shape**: CREATE TABLE, then its indexes. -/
theorem export_shape (idxCounts : List Nat) :
    Atlas.Plan.shape (idxCounts.map Atlas.Plan.Ch.addTable) =
      idxCounts.flatMap (fun n => Atlas.Plan.St.createTable :: List.replicate n Atlas.Plan.St.createIndex) := by
  simp [Atlas.Plan.shape, Atlas.Plan.shapeOf, List.flatMap_map]

theorem reordered_symm {a b : Table} (h : Reordered a b) : Reordered b a :=
  ⟨h.name.symm, h.attrs.symm, h.pk.symm, h.cols.symm, h.idxs.symm, h.fks.symm, h.checks.symm⟩

/-- **faithful_both_directions**. -/
theorem faithful_both_directions (s s' : List Table) (hw : WF s) (hw' : WF s')
    (h1 : ∀ a ∈ s, ∃ b ∈ s', Reordered a b) (h2 : ∀ b ∈ s', ∃ a ∈ s, Reordered a b) :
    schemaDiff s s' = [] ∧ schemaDiff s' s = [] := by
  refine ⟨diff_reordered s s' hw hw'.names h1 h2, diff_reordered s' s hw' hw.names ?_ ?_⟩
  · intro b hb
    obtain ⟨a, ha, hr⟩ := h2 b hb
    exact ⟨a, ha, reordered_symm hr⟩
  · intro a ha
    obtain ⟨b, hb, hr⟩ := h1 a ha
    exact ⟨b, hb, reordered_symm hr⟩

example : schemaDiff [] [tA, tB] = [.addTable 1, .addTable 2] := by decide

/-- what running the exported script on an empty database builds: every `addTable n` creates the
inspected table of that name (the CREATE TABLE statement is printed from it); a script holding any
other change creates nothing for it. -/
def replay (src : List Table) : List Change → List Table
  | [] => []
  | .addTable n :: cs =>
    (match src.find? (fun t => t.name == n) with | some t => [t] | none => []) ++ replay src cs
  | _ :: cs => replay src cs

theorem find_of_nodup : ∀ (s : List Table), (s.map Table.name).Nodup → ∀ t ∈ s,
    s.find? (fun x => x.name == t.name) = some t := by
  intro s
  induction s with
  | nil => intro _ t ht; cases ht
  | cons a as ih =>
    intro hn t ht
    rw [List.map_cons, List.nodup_cons] at hn
    rcases List.mem_cons.1 ht with rfl | hm
    · simp
    · have hne : a.name ≠ t.name := by
        intro he
        exact hn.1 (he ▸ List.mem_map_of_mem hm)
      rw [List.find?_cons_of_neg (by simpa using hne)]
      exact ih hn.2 t hm

theorem replay_sub (s : List Table) (hn : (s.map Table.name).Nodup) :
    ∀ sub : List Table, (∀ t ∈ sub, t ∈ s) → replay s (sub.map (fun t => Change.addTable t.name)) = sub := by
  intro sub
  induction sub with
  | nil => intro _; rfl
  | cons a as ih =>
    intro h
    simp only [List.map_cons, replay]
    rw [find_of_nodup s hn a (h a (List.mem_cons_self)), ih (fun t ht => h t (List.mem_cons_of_mem _ ht))]
    rfl

/-- **export_replay_identity**: the script exported for any database with distinct table names,
run on an empty database, builds exactly the inspected tables, in inspection order. -/
theorem export_replay_identity (s : List Table) (hn : (s.map Table.name).Nodup) :
    replay s (schemaDiff [] s) = s := by
  rw [export_creates_all]
  exact replay_sub s hn s (fun _ h => h)

/-- **export_round_trip**: database -> export -> database -> compare is empty in both directions, any size. -/
theorem export_round_trip (s : List Table) (hw : WF s) :
    schemaDiff s (replay s (schemaDiff [] s)) = [] ∧ schemaDiff (replay s (schemaDiff [] s)) s = [] := by
  rw [export_replay_identity s hw.names]
  exact ⟨diff_self s hw, diff_self s hw⟩

/-- the hypothesis is needed: with two tables of one name the script creates the first twice. -/
example : replay [tA, { tB with name := 1 }] (schemaDiff [] [tA, { tB with name := 1 }]) ≠ [tA, { tB with name := 1 }] := by decide

example : replay [tA, tB] (schemaDiff [] [tA, tB]) = [tA, tB] := by decide

end Props.C03
