/-
C14 — The dev database is never damaged: refused if not empty (and then untouched), otherwise handed
back empty.

Model: `Atlas.Dev` — the Snapshot / defer-restore protocol with SQLite's cleanliness test and restore
function — plus the table `Gen.C14.sites`, REGENERATED from the Go source on every run, of all calls
of `Snapshot` with the facts "error checked", "restore deferred immediately", "calls before".

Proved here:
* `refuse_nonempty` — a database holding any object is refused and comes out unchanged (repaired
  tree; on the pinned tree a views-only database was accepted and wiped: `views_only_pinned`);
* `returns_empty` — an accepted database is returned empty whatever the statements do and wherever
  one fails; `runs_returns_empty` — the same for a command that uses the dev database several times;
* `accepted_iff_empty` — a database is accepted only if it is empty (so nothing can be lost);
* `dev_db_unchanged_by_any_command` — for every content of the dev database, every number of uses and
  every failing position, the content after the command equals the content before (false of the
  pinned cleanliness test: the example beside it);
* `success_iff_no_failing_statement`, `refused_not_ok` — a use reports success exactly when no
  statement failed, and a refusal is never a success;
* `all_sites_deferred`, `no_exec_before_snapshot`, `sites_known` — every `Snapshot` call in the
  source checks the error and defers the restore in the very next statement, nothing executes SQL
  before it, and the set of dev-database users is the expected one (a new user must be added here).

PARTIAL: that each command's dev-database use goes through one of these four functions, and the
behaviour of the real SQLite engine (restore really empties the file), is established by the
correspondence run over every `--dev-url` command, not by proof. "Replaying never writes to the
directory" is a monitor on the real commands (byte-wise), not a theorem.
-/
import Atlas.Dev
import Gen.C14Sites

namespace Props.C14
open Atlas.Dev

/-- **refuse_nonempty**: anything in the database ⇒ refused, and the database is untouched. -/
theorem refuse_nonempty (db : DevDb) (stmts : List (Option Kind)) (h : db ≠ []) :
    (run true db stmts).refused = true ∧ (run true db stmts).db = db := by
  cases db with
  | nil => exact absurd rfl h
  | cons k ks => simp [run, clean]

/-- **accepted_iff_empty**. -/
theorem accepted_iff_empty (db : DevDb) (stmts : List (Option Kind)) :
    (run true db stmts).refused = false ↔ db = [] := by
  cases db with
  | nil => simp [run, clean]
  | cons k ks => simp [run, clean]

/-- **returns_empty**: an accepted database is handed back empty, on success and on failure at any
statement. -/
theorem returns_empty (fixed : Bool) (db : DevDb) (stmts : List (Option Kind))
    (h : (run fixed db stmts).refused = false) : (run fixed db stmts).db = [] := by
  unfold run at h ⊢
  split
  · rfl
  · rename_i hc; simp [hc] at h

/-- a command that uses the dev database several times in a row never leaves anything behind. -/
theorem runs_returns_empty (uses : List (List (Option Kind))) :
    (runs true [] uses).db = [] ∧ (runs true [] uses).refused = false := by
  induction uses with
  | nil => exact ⟨rfl, rfl⟩
  | cons s rest ih =>
    have hr : (run true [] s).refused = false := by simp [run, clean]
    have hd : (run true [] s).db = [] := returns_empty true [] s hr
    unfold runs
    by_cases hok : (run true [] s).ok = true
    · simp only [hr, hok, Bool.not_true, Bool.or_self, Bool.false_eq_true, ↓reduceIte, hd]
      exact ih
    · have hok' : (run true [] s).ok = false := by simpa using hok
      show (if ((run true [] s).refused || !(run true [] s).ok) = true then run true [] s else runs true (run true [] s).db rest).db = [] ∧
        (if ((run true [] s).refused || !(run true [] s).ok) = true then run true [] s else runs true (run true [] s).db rest).refused = false
      rw [if_pos (by simp [hok'])]
      exact ⟨hd, hr⟩

/-- a refused database stays as it is through the whole command. -/
theorem runs_refuse_nonempty (db : DevDb) (s : List (Option Kind)) (rest : List (List (Option Kind))) (h : db ≠ []) :
    (runs true db (s :: rest)).refused = true ∧ (runs true db (s :: rest)).db = db := by
  have := refuse_nonempty db s h
  unfold runs
  simp [this.1, this.2]

/-- the pinned cleanliness test (`len(Tables) == 0`) accepted a database holding only a view and the
restore function wiped it. -/
theorem views_only_pinned : (run false [.view] []).refused = false ∧ (run false [.view] []).db = [] := by decide

/-! ### facts regenerated from the source -/

theorem all_sites_deferred : ∀ s ∈ Gen.C14.sites, s.errChecked = true ∧ s.deferRestore = true := by decide

theorem no_exec_before_snapshot :
    ∀ s ∈ Gen.C14.sites, ∀ c ∈ s.callsBefore, c ≠ "ExecContext" ∧ c ≠ "Exec" ∧ c ≠ "ApplyChanges" ∧ c ≠ "ExecuteN" := by decide

theorem sites_known : Gen.C14.sites.map (fun s => (s.file, s.func)) =
    [("cmd/atlas/internal/migratelint/lint.go", "LoadChanges"),
     ("sql/internal/sqlx/dev.go", "NormalizeRealm"),
     ("sql/internal/sqlx/dev.go", "NormalizeSchema"),
     ("sql/migrate/migrate.go", "Replay")] := by decide

/-! ### non-vacuity -/

example : (run true [] [some .table, some .view, none, some .index]) = { refused := false, ok := false, db := [] } := by decide
example : (run true [.table, .index] [some .table]) = { refused := true, ok := false, db := [.table, .index] } := by decide

/-- **dev_db_unchanged_by_any_command**: whatever the dev database holds, however often the command
uses it and wherever a statement fails, its content after the command equals its content before. -/
theorem dev_db_unchanged_by_any_command (db : DevDb) (uses : List (List (Option Kind))) :
    (runs true db uses).db = db := by
  cases uses with
  | nil => rfl
  | cons s rest =>
    cases db with
    | nil => exact (runs_returns_empty (s :: rest)).1
    | cons k ks => exact (runs_refuse_nonempty (k :: ks) s rest (by simp)).2

theorem execStmts_ok : ∀ (stmts : List (Option Kind)) (db : DevDb),
    (execStmts db stmts).2 = true ↔ none ∉ stmts := by
  intro stmts
  induction stmts with
  | nil => intro db; simp [execStmts]
  | cons a as ih =>
    intro db
    cases a with
    | none => simp [execStmts]
    | some k => simp [execStmts, ih]

/-- **success_iff_no_failing_statement**: a use of an empty dev database reports success exactly when no statement failed. -/
theorem success_iff_no_failing_statement (stmts : List (Option Kind)) :
    (run true [] stmts).ok = true ↔ none ∉ stmts := by
  have : (run true [] stmts).ok = (execStmts [] stmts).2 := by simp [run, clean]
  rw [this]
  exact execStmts_ok stmts []

/-- a refused database is never reported as a success. -/
theorem refused_not_ok (fixed : Bool) (db : DevDb) (stmts : List (Option Kind))
    (h : (run fixed db stmts).refused = true) : (run fixed db stmts).ok = false := by
  unfold run at h ⊢
  split
  · rename_i hc; simp [hc] at h
  · rfl

example : (runs true [.view, .table] [[some .table], [none]]).db = [.view, .table] := by decide
example : (runs false [.view] [[some .table]]).db ≠ [.view] := by decide

end Props.C14
