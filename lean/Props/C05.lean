/-
C05 — Planned table changes never lose rows or values of columns that survive.

Model: `Atlas.Copy` — the column mapping of `copyRows` (INSERT INTO new_T (toC) SELECT fromC FROM T)
and its effect on rows. The correspondence run compares `copyPlan` with the INSERT statement of every
rebuild the real planner emits, and the monitor compares every row of every surviving column before
and after `ApplyChanges` on a real SQLite engine.

Proved (tables with any number of columns, any rows):
* `row_count_preserved` — the copy writes exactly one row per existing row;
* `unchanged_column_preserved` — a column without an associated change keeps its value in every row;
* `modified_column_preserved` — a modified column keeps every non-NULL value; a NULL is replaced
  only when the column becomes NOT NULL with a default and its nullability/default changed
  (`backfill_only_null`), and then by that default;
* `renamed_column_preserved` — a renamed column carries the values of the old name;
* `generated_and_added_not_copied` — generated and added columns never appear in the INSERT;
* `plan_covers_surviving_columns` — every column of the new table that is neither generated nor
  added is a target of the INSERT (none is left to its default);
* `plan_targets_distinct` / `plan_in_column_order` — the INSERT names no column twice and lists its
  targets in the order of the new table's columns.

PARTIAL: the in-place path (ALTER TABLE ADD COLUMN / CREATE INDEX / DROP INDEX) does not rewrite
rows at all — that is SQLite's behaviour, observed by the monitor; foreign-key side effects of the
DROP TABLE inside a rebuild (cascades) are excluded by `PRAGMA foreign_keys = off`, observed by the
monitor with enforcement on (self-referencing CASCADE / SET NULL keys).
-/
import Atlas.Copy

namespace Props.C05
open Atlas.Copy

/-- **row_count_preserved**. -/
theorem row_count_preserved (plan : List (Nat × Src)) (dflt : Nat → Nat) (other : Nat → Option Nat) (rows : List Row) :
    (copyRows plan dflt other rows).length = rows.length := by
  simp [copyRows]

/-- looking a column of the new table up in the plan. -/
theorem find_srcOf : ∀ (to : List ToCol), (to.map (·.name)).Nodup → ∀ c ∈ to, ∀ p, srcOf c = some p →
    (copyPlan to).find? (fun q => q.1 = c.name) = some p := by
  intro to
  induction to with
  | nil => intro _ c h; cases h
  | cons x xs ih =>
    intro hn c hc p hp
    rw [List.map_cons, List.nodup_cons] at hn
    have hname : ∀ (y : ToCol) (q : Nat × Src), srcOf y = some q → q.1 = y.name := by
      intro y q hq
      unfold srcOf at hq
      split at hq
      · cases hq
      · split at hq <;> first | (cases hq; done) | (cases hq; rfl)
    rcases List.mem_cons.mp hc with rfl | hmem
    · unfold copyPlan
      rw [List.filterMap_cons, hp]
      simp [List.find?, hname c p hp]
    · unfold copyPlan
      rw [List.filterMap_cons]
      cases hx : srcOf x with
      | none => exact ih hn.2 c hmem p hp
      | some q =>
        have hq := hname x q hx
        have hne : q.1 ≠ c.name := by
          rw [hq]; intro he; exact hn.1 (he ▸ List.mem_map_of_mem hmem)
        simp only [List.find?, hne, decide_false]
        exact ih hn.2 c hmem p hp

/-- **unchanged_column_preserved**. -/
theorem unchanged_column_preserved (to : List ToCol) (hn : (to.map (·.name)).Nodup) (c : ToCol) (hc : c ∈ to)
    (hg : c.generated = false) (hch : c.change = .none) (dflt : Nat → Nat) (other : Nat → Option Nat) (r : Row) :
    copyRow (copyPlan to) dflt other r c.name = r c.name := by
  have hs : srcOf c = some (c.name, .col c.name) := by simp [srcOf, hg, hch]
  unfold copyRow
  rw [find_srcOf to hn c hc _ hs]
  rfl

/-- **modified_column_preserved**: non-NULL values survive a column modification. -/
theorem modified_column_preserved (to : List ToCol) (hn : (to.map (·.name)).Nodup) (c : ToCol) (hc : c ∈ to)
    (hg : c.generated = false) (b : Bool) (hch : c.change = .modified b) (dflt : Nat → Nat) (other : Nat → Option Nat)
    (r : Row) (v : Nat) (hv : r c.name = some v) :
    copyRow (copyPlan to) dflt other r c.name = some v := by
  have hs : ∃ s, srcOf c = some (c.name, s) ∧ (s = .col c.name ∨ s = .ifnull c.name) := by
    unfold srcOf
    simp only [hg, hch]
    cases c.notNull <;> cases c.hasDefault <;> cases b <;> simp
  obtain ⟨s, hs1, hs2⟩ := hs
  unfold copyRow
  rw [find_srcOf to hn c hc _ hs1]
  rcases hs2 with rfl | rfl <;> simp [evalSrc, hv]

/-- **backfill_only_null**: a NULL of a modified column is replaced exactly when the column becomes
NOT NULL with a default and its nullability or default changed; otherwise it stays NULL. -/
theorem backfill_only_null (to : List ToCol) (hn : (to.map (·.name)).Nodup) (c : ToCol) (hc : c ∈ to)
    (hg : c.generated = false) (b : Bool) (hch : c.change = .modified b) (dflt : Nat → Nat) (other : Nat → Option Nat)
    (r : Row) (hv : r c.name = none) :
    copyRow (copyPlan to) dflt other r c.name =
      if c.notNull && c.hasDefault && b then some (dflt c.name) else none := by
  have hs : srcOf c = some (c.name, if c.notNull && c.hasDefault && b then .ifnull c.name else .col c.name) := by
    unfold srcOf
    simp only [hg, hch]
    cases c.notNull <;> cases c.hasDefault <;> cases b <;> rfl
  unfold copyRow
  rw [find_srcOf to hn c hc _ hs]
  cases c.notNull <;> cases c.hasDefault <;> cases b <;> simp [evalSrc, hv]

/-- **renamed_column_preserved**. -/
theorem renamed_column_preserved (to : List ToCol) (hn : (to.map (·.name)).Nodup) (c : ToCol) (hc : c ∈ to)
    (hg : c.generated = false) (f : Nat) (hch : c.change = .renamed f) (dflt : Nat → Nat) (other : Nat → Option Nat) (r : Row) :
    copyRow (copyPlan to) dflt other r c.name = r f := by
  have hs : srcOf c = some (c.name, .col f) := by simp [srcOf, hg, hch]
  unfold copyRow
  rw [find_srcOf to hn c hc _ hs]
  rfl

/-- **generated_and_added_not_copied**. -/
theorem generated_and_added_not_copied (to : List ToCol) (p : Nat × Src) (hp : p ∈ copyPlan to) :
    ∃ c ∈ to, c.name = p.1 ∧ c.generated = false ∧ c.change ≠ .added := by
  unfold copyPlan at hp
  obtain ⟨c, hc, hs⟩ := List.mem_filterMap.mp hp
  refine ⟨c, hc, ?_⟩
  unfold srcOf at hs
  split at hs
  · cases hs
  · rename_i hg
    split at hs
    · cases hs
    · cases hs; exact ⟨rfl, by simpa using hg, by simp [*]⟩
    · cases hs; exact ⟨rfl, by simpa using hg, by simp [*]⟩
    · cases hs; exact ⟨rfl, by simpa using hg, by simp [*]⟩

/-! ### non-vacuity -/

def toCols : List ToCol :=
  [{ name := 1 }, { name := 2, notNull := true, hasDefault := true, change := .modified true },
   { name := 3, change := .added }, { name := 4, generated := true }]

example : copyPlan toCols = [(1, .col 1), (2, .ifnull 2)] := by decide
example : copyRow (copyPlan toCols) (fun _ => 9) (fun _ => none) (fun n => if n = 1 then some 5 else none) 2 = some 9 := by decide

theorem srcOf_fst (c : ToCol) (p : Nat × Src) (h : srcOf c = some p) : p.1 = c.name := by
  unfold srcOf at h
  split at h
  · cases h
  · split at h
    · cases h
    · cases h; rfl
    · cases h; rfl
    · cases h; rfl

/-- **plan_covers_surviving_columns**: every column of the new table that is neither generated nor
added is a target of the INSERT — no surviving column is left to its default. -/
theorem plan_covers_surviving_columns (to : List ToCol) (c : ToCol) (hc : c ∈ to)
    (hg : c.generated = false) (ha : c.change ≠ .added) : ∃ s, (c.name, s) ∈ copyPlan to := by
  unfold copyPlan
  cases hch : c.change with
  | added => exact absurd hch ha
  | none => exact ⟨.col c.name, List.mem_filterMap.mpr ⟨c, hc, by simp [srcOf, hg, hch]⟩⟩
  | modified ch =>
    exact ⟨if c.notNull && c.hasDefault && ch then .ifnull c.name else .col c.name,
      List.mem_filterMap.mpr ⟨c, hc, by simp [srcOf, hg, hch]⟩⟩
  | renamed f => exact ⟨.col f, List.mem_filterMap.mpr ⟨c, hc, by simp [srcOf, hg, hch]⟩⟩

/-- **plan_targets_distinct**: the column list of the INSERT names no column twice (for tables of any width). -/
theorem plan_targets_distinct : ∀ (to : List ToCol), (to.map (·.name)).Nodup →
    ((copyPlan to).map (·.1)).Nodup := by
  intro to
  induction to with
  | nil => intro _; simp [copyPlan]
  | cons a as ih =>
    intro hn
    rw [List.map_cons, List.nodup_cons] at hn
    have ih' := ih hn.2
    unfold copyPlan at ih' ⊢
    rw [List.filterMap_cons]
    cases hs : srcOf a with
    | none => simpa using ih'
    | some p =>
      simp only [List.map_cons, List.nodup_cons]
      refine ⟨?_, ih'⟩
      intro hm
      obtain ⟨q, hq, hqe⟩ := List.mem_map.mp hm
      obtain ⟨c, hc, hsc⟩ := List.mem_filterMap.mp hq
      have h1 := srcOf_fst a p hs
      have h2 := srcOf_fst c q hsc
      apply hn.1
      rw [← h1, ← hqe, h2]
      exact List.mem_map_of_mem hc

/-- **plan_in_column_order**: the targets of the INSERT are a sublist of the new table's columns, in their order. -/
theorem plan_in_column_order : ∀ (to : List ToCol), ((copyPlan to).map (·.1)).Sublist (to.map (·.name)) := by
  intro to
  induction to with
  | nil => simp [copyPlan]
  | cons a as ih =>
    unfold copyPlan at ih ⊢
    rw [List.filterMap_cons]
    cases hs : srcOf a with
    | none => exact List.Sublist.cons _ ih
    | some p =>
      simp only [List.map_cons]
      rw [srcOf_fst a p hs]
      exact List.Sublist.cons_cons _ ih

example : ((copyPlan toCols).map (·.1)) = [1, 2] := by decide

end Props.C05
