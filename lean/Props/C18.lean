/-
C18 — Lint flags every destructive migration and no purely additive one.

Model: `Atlas.Lint` — the rebuild-detection pass of sqlitecheck, the life-span algebra of
`sqlcheck.File.loadSpans` and the destructive analyzer — and the specification `spec` (a drop is
destructive iff the object was not created earlier in the same file). The derivation of the
per-statement change lists from real SQL is validated by the correspondence run through the real
`atlas migrate lint`.

Proved here (for event lists of any length):
* `flag_iff_preexisting_partial` — for a resource that is never re-created after a drop inside the
  file, the analyzer's criterion "final span ≠ temporary" holds at a drop exactly when no creation
  of the resource precedes that drop, i.e. exactly when the drop destroys a pre-existing object;
  instantiated for tables (`table_flag_correct_partial`) and columns (`col_flag_correct_partial`);
* `drop_add_drop_missed`, `add_drop_add_flagged` — without that hypothesis the statement is FALSE
  of the implementation: DROP t; CREATE t; DROP t of a pre-existing `t` is not reported at all
  (known finding), and CREATE; DROP; CREATE of a new table is reported;
* `additive_statements_never_flagged`, `additive_file_clean` — the second half of the property: a statement
  that drops nothing never gets DS102 / DS103 whatever else the file holds, and a file of any length whose
  (merged) statements drop nothing is reported clean;
* `mergeTemp_id` — files without a `new_`-prefixed single CREATE TABLE are analysed as written;
* `rebuild_merged`, `rebuild_flags_omitted_column` — the four-statement rebuild is replaced by one
  ModifyTable that contains a DropColumn for every omitted column.

PARTIAL: the full statement (every destructive file flagged) is false for re-creation after a drop
(known finding); equality `analyze = spec` for whole files is not proved beyond the per-resource
criterion; change derivation from SQL is by correspondence only.
-/
import Atlas.Lint

namespace Props.C18
open Atlas.Lint

/-! ### the life-span algebra, abstractly: a trace of creations (`some true`), drops (`some false`)
and irrelevant events (`none`) of one resource -/

def absStep (s : Span) : Option Bool → Span
  | some true => .added
  | some false => s.drop
  | none => s

def absSpan (tr : List (Option Bool)) : Span := tr.foldl absStep .unknown

/-- no creation after a drop. -/
def NoReAdd : List (Option Bool) → Prop
  | [] => True
  | some false :: rest => (some true ∉ rest) ∧ NoReAdd rest
  | _ :: rest => NoReAdd rest

theorem fold_noAdd (tr : List (Option Bool)) (h : some true ∉ tr) (s : Span) :
    (s = .temporary → tr.foldl absStep s = .temporary) ∧
    (s = .added → tr.foldl absStep s = .added ∨ tr.foldl absStep s = .temporary) ∧
    ((s = .unknown ∨ s = .dropped) → tr.foldl absStep s = .unknown ∨ tr.foldl absStep s = .dropped) := by
  induction tr generalizing s with
  | nil => exact ⟨fun h => h, fun h => Or.inl h, fun h => h⟩
  | cons e es ih =>
    have hes : some true ∉ es := fun hm => h (List.mem_cons_of_mem _ hm)
    have he : e ≠ some true := fun heq => h (heq ▸ List.mem_cons_self ..)
    simp only [List.foldl_cons]
    match e, he with
    | none, _ => exact ih hes s
    | some false, _ =>
      refine ⟨?_, ?_, ?_⟩
      · intro hs; subst hs; exact (ih hes _).1 rfl
      · intro hs; subst hs; exact Or.inr ((ih hes _).1 rfl)
      · intro hs
        rcases hs with hs | hs <;> subst hs <;> exact (ih hes _).2.2 (Or.inr rfl)
    | some true, he => exact absurd rfl he

theorem noReAdd_append_drop (pre post : List (Option Bool)) (h : NoReAdd (pre ++ some false :: post)) :
    some true ∉ post ∧ NoReAdd pre := by
  induction pre with
  | nil => exact ⟨h.1, trivial⟩
  | cons e es ih =>
    match e, h with
    | some false, h =>
      have := ih h.2
      refine ⟨this.1, ?_, this.2⟩
      intro hm; exact h.1 (List.mem_append_left _ hm)
    | some true, h => exact ⟨(ih h).1, (ih h).2⟩
    | none, h => exact ⟨(ih h).1, (ih h).2⟩

/-- state after a prefix that contains a creation and no creation after a drop: added or temporary. -/
theorem fold_hasAdd (pre : List (Option Bool)) (h : NoReAdd pre) (hadd : some true ∈ pre) (s : Span) :
    pre.foldl absStep s = .added ∨ pre.foldl absStep s = .temporary := by
  induction pre generalizing s with
  | nil => cases hadd
  | cons e es ih =>
    simp only [List.foldl_cons]
    match e, h with
    | some true, h =>
      by_cases hm : some true ∈ es
      · exact ih h hm _
      · exact (fold_noAdd es hm .added).2.1 rfl
    | some false, h =>
      rcases List.mem_cons.mp hadd with heq | hm
      · cases heq
      · exact absurd hm h.1
    | none, h =>
      rcases List.mem_cons.mp hadd with heq | hm
      · cases heq
      · exact ih h hm _

/-- **flag_iff_preexisting_partial**: at a drop of a resource that is never re-created after a
drop, "final span ≠ temporary" ⟺ no creation precedes the drop. -/
theorem flag_iff_preexisting_partial (pre post : List (Option Bool)) (h : NoReAdd (pre ++ some false :: post)) :
    absSpan (pre ++ some false :: post) ≠ .temporary ↔ some true ∉ pre := by
  obtain ⟨hpost, hpre⟩ := noReAdd_append_drop pre post h
  unfold absSpan
  rw [List.foldl_append, List.foldl_cons]
  constructor
  · intro hne hadd
    rcases fold_hasAdd pre hpre hadd .unknown with hs | hs <;> rw [hs] at hne
    · exact hne ((fold_noAdd post hpost _).1 rfl)
    · exact hne ((fold_noAdd post hpost _).1 rfl)
  · intro hno
    rcases (fold_noAdd pre hno .unknown).2.2 (Or.inl rfl) with hs | hs <;> rw [hs]
    · rcases (fold_noAdd post hpost _).2.2 (Or.inr rfl) with h2 | h2 <;> rw [show absStep Span.unknown (some false) = Span.dropped from rfl, h2] <;> decide
    · rcases (fold_noAdd post hpost _).2.2 (Or.inr rfl) with h2 | h2 <;> rw [show absStep Span.dropped (some false) = Span.dropped from rfl, h2] <;> decide

/-! ### instantiation for tables and columns -/

def classT (t : TName) : Ev → Option Bool
  | .addTable t' _ => if t' = t then some true else none
  | .dropTable t' _ => if t' = t then some false else none
  | _ => none

def classC (t : TName) (c : Nat) : Ev → Option Bool
  | .addTable t' cols => if t' = t ∧ (cols.map (·.1)).contains c then some true else none
  | .addCol t' c' => if t' = t ∧ c'.1 = c then some true else none
  | .dropCol t' c' => if t' = t ∧ c'.1 = c then some false else none
  | _ => none

theorem tableStep_abs (t : TName) (s : Span) (e : Ev) : tableStep t s e = absStep s (classT t e) := by
  cases e <;> simp only [tableStep, classT] <;> (try split) <;> rfl

theorem colStep_abs (t : TName) (c : Nat) (s : Span) (e : Ev) : colStep t c s e = absStep s (classC t c e) := by
  cases e <;> simp only [colStep, classC] <;> (try split) <;> rfl

theorem tableSpan_abs (evs : List Ev) (t : TName) : tableSpan evs t = absSpan (evs.map (classT t)) := by
  unfold tableSpan absSpan
  rw [List.foldl_map]
  congr 1; funext s e; exact tableStep_abs t s e

theorem colSpan_abs (evs : List Ev) (t : TName) (c : Nat) : colSpan evs t c = absSpan (evs.map (classC t c)) := by
  unfold colSpan absSpan
  rw [List.foldl_map]
  congr 1; funext s e; exact colStep_abs t c s e

/-- **table_flag_correct_partial**: `DROP TABLE t` is reported (span ≠ temporary) iff the file did
not create `t` before it — provided `t` is not re-created after a drop in the same file. -/
theorem table_flag_correct_partial (pre post : List Ev) (t : TName) (cols : List Col)
    (h : NoReAdd ((pre ++ Ev.dropTable t cols :: post).map (classT t))) :
    tableSpan (pre ++ Ev.dropTable t cols :: post) t ≠ .temporary ↔ ∀ e ∈ pre, classT t e ≠ some true := by
  rw [tableSpan_abs]
  have hm : (pre ++ Ev.dropTable t cols :: post).map (classT t) = pre.map (classT t) ++ some false :: post.map (classT t) := by
    simp [classT]
  rw [hm] at h ⊢
  rw [flag_iff_preexisting_partial _ _ h]
  simp [List.mem_map]

theorem col_flag_correct_partial (pre post : List Ev) (t : TName) (c : Col)
    (h : NoReAdd ((pre ++ Ev.dropCol t c :: post).map (classC t c.1))) :
    colSpan (pre ++ Ev.dropCol t c :: post) t c.1 ≠ .temporary ↔ ∀ e ∈ pre, classC t c.1 e ≠ some true := by
  rw [colSpan_abs]
  have hm : (pre ++ Ev.dropCol t c :: post).map (classC t c.1) = pre.map (classC t c.1) ++ some false :: post.map (classC t c.1) := by
    simp [classC]
  rw [hm] at h ⊢
  rw [flag_iff_preexisting_partial _ _ h]
  simp [List.mem_map]

/-! ### the excluded case is really wrong (witnesses, replayed on the implementation) -/

def tT : TName := ⟨0, 7⟩

/-- DROP t; CREATE t; DROP t of a pre-existing table: the specification demands DS102 on the first
statement, the analyzer reports nothing. -/
theorem drop_add_drop_missed :
    analyze [[.dropTable tT [(1, false)]], [.addTable tT [(1, false)]], [.dropTable tT [(1, false)]]] = [] ∧
    spec [[.dropTable tT [(1, false)]], [.addTable tT [(1, false)]], [.dropTable tT [(1, false)]]] = [(0, .DS102)] := by decide

/-- CREATE t; DROP t; CREATE t of a new table: nothing pre-existing is destroyed, DS102 is reported. -/
theorem add_drop_add_flagged :
    analyze [[.addTable tT []], [.dropTable tT []], [.addTable tT []]] = [(1, .DS102)] ∧
    spec [[.addTable tT []], [.dropTable tT []], [.addTable tT []]] = [] := by decide

/-! ### the rebuild-detection pass -/

/-- a statement that can start a rebuild match: exactly one CREATE TABLE of a `new_`-prefixed name. -/
def startsRebuild : Stmt → Bool
  | [Ev.addTable t _] => t.news != 0
  | _ => false

theorem tryMerge_no (c1 c2 c3 : Stmt) (h : startsRebuild c1 = false) : tryMerge c1 c2 c3 = .no := by
  unfold tryMerge
  split
  · rename_i t cols e2
    have : t.news = 0 := by simpa [startsRebuild] using h
    simp [this]
  · rfl

/-- **mergeTemp_id**: without such statements the pass changes nothing. -/
theorem mergeTemp_id : ∀ (stmts : List Stmt), (∀ s ∈ stmts, startsRebuild s = false) → mergeTemp stmts = stmts
  | [], _ => rfl
  | [_], _ => rfl
  | [_, _], _ => rfl
  | [_, _, _], _ => rfl
  | c1 :: x :: c2 :: c3 :: rest, h => by
    have h1 := h c1 (List.mem_cons_self ..)
    have ih := mergeTemp_id (x :: c2 :: c3 :: rest) (fun s hs => h s (List.mem_cons_of_mem _ hs))
    rw [mergeTemp, tryMerge_no c1 c2 c3 h1]
    simp only
    rw [ih]

/-- **rebuild_merged**: CREATE new_T(curr); <anything>; DROP T; RENAME new_T → T becomes one
ModifyTable with the column diff. -/
theorem rebuild_merged (t : TName) (hn : t.news ≠ 0) (curr prev c3a c3b : List Col) (x : Stmt) (rest : List Stmt) :
    mergeTemp ([.addTable t curr] :: x :: [.dropTable t.trim prev] :: [.dropTable t c3a, .addTable t.trim c3b] :: rest) =
      tableDiff t.trim prev curr :: mergeTemp rest := by
  rw [mergeTemp]
  simp [tryMerge, hn]

/-- every column of the old table that the new table omits is a DropColumn of the merged change. -/
theorem rebuild_flags_omitted_column (t : TName) (prev curr : List Col) (c : Col)
    (hc : c ∈ prev) (ho : c.1 ∉ curr.map (·.1)) : Ev.dropCol t c ∈ tableDiff t prev curr := by
  unfold tableDiff
  apply List.mem_append_left
  apply List.mem_map.mpr
  exact ⟨c, List.mem_filter.mpr ⟨hc, by simpa using ho⟩, rfl⟩

/-! ### non-vacuity -/

/-- the rebuild that omits column 2 of a pre-existing table is reported as DS103 on its first statement. -/
example : analyze [[.addTable ⟨1, 7⟩ [(1, false)]], [], [.dropTable ⟨0, 7⟩ [(1, false), (2, false)]],
    [.dropTable ⟨1, 7⟩ [(1, false)], .addTable ⟨0, 7⟩ [(1, false)]]] = [(0, .DS103)] := by decide

/-- a temporary table created and dropped in the file is not reported; a plain drop is. -/
example : analyze [[.addTable tT []], [.dropTable tT []], [.dropTable ⟨0, 8⟩ []]] = [(2, .DS102)] := by decide

example : NoReAdd ([Ev.addTable tT [], Ev.other, Ev.dropTable tT []].map (classT tT)) := by
  simp [classT, NoReAdd, tT]

/-! ### purely additive files -/

/-- the statement drops nothing. -/
def Additive (s : Stmt) : Prop := ∀ e ∈ s, match e with
  | .dropTable _ _ => False
  | .dropCol _ _ => False
  | _ => True

theorem stmtDiags_additive (all : List Ev) (s : Stmt) (h : Additive s) : stmtDiags all s = [] := by
  unfold stmtDiags
  simp only [List.append_eq_nil_iff, ite_eq_right_iff, reduceCtorEq, imp_false, Bool.not_eq_true, List.any_eq_false]
  constructor <;> intro e he <;> have := h e he <;> cases e <;> simp_all

/-- **additive_statements_never_flagged**: whatever else the file holds, a statement that drops nothing gets
no DS102 / DS103. -/
theorem additive_statements_never_flagged (ms : List Stmt) (i : Nat) (hi : i < ms.length) (h : Additive ms[i]) :
    (analyzeMerged ms)[i]'(by simpa [analyzeMerged] using hi) = [] := by
  simp [analyzeMerged, stmtDiags_additive _ _ h]

/-- **additive_file_clean**: a file of any length whose statements drop nothing is reported clean. -/
theorem additive_file_clean (stmts : List Stmt) (h : ∀ s ∈ mergeTemp stmts, Additive s) : analyze stmts = [] := by
  unfold analyze
  simp only [List.flatMap_eq_nil_iff]
  intro p hp
  have h2 : p.2 ∈ analyzeMerged (mergeTemp stmts) := (List.of_mem_zip hp).2
  unfold analyzeMerged at h2
  obtain ⟨s, hs, he⟩ := List.mem_map.mp h2
  rw [← he, stmtDiags_additive _ s (h s hs)]
  rfl

/-- without rebuild candidates the hypothesis is about the statements as written. -/
theorem additive_file_clean_plain (stmts : List Stmt) (hr : ∀ s ∈ stmts, startsRebuild s = false)
    (h : ∀ s ∈ stmts, Additive s) : analyze stmts = [] :=
  additive_file_clean stmts (by rw [mergeTemp_id stmts hr]; exact h)

example : analyze [[.addTable ⟨0, 1⟩ [(1, false)]], [.addCol ⟨0, 1⟩ (2, false)], [.other]] = [] := by decide

end Props.C18
