/- Protocol handlers for the directory-integrity model (C06, C20). -/
import Driver.Util
import Atlas.Hash
import Atlas.Base.Sha256
open Lean Atlas Atlas.Hash

namespace Driver

def hashBytes (b : Bytes) : Bytes := (Atlas.Base.h1 (ByteArray.mk b.toArray)).toUTF8.toList

def unhexL (s : String) : Bytes := (unhex s).toList
def hexL (b : Bytes) : String := hex (ByteArray.mk b.toArray)

def parseDFiles (j : Json) : List DFile :=
  (arr j "files").map (fun f => { name := unhexL (str f "n"), content := unhexL (str f "b") })

def reasonStr : Reason → String
  | .added => "added" | .edited => "edited" | .removed => "removed"

def outcomeJson : Outcome → Json
  | .ok => Json.mkObj [("res", "ok")]
  | .err .format => Json.mkObj [("res", "format")]
  | .err .mismatch => Json.mkObj [("res", "mismatch")]
  | .err .notFound => Json.mkObj [("res", "not-found")]
  | .panic => Json.mkObj [("res", "panic")]
  | .checksum e => Json.mkObj [("res", "checksum"), ("line", e.line), ("total", e.total), ("pos", e.pos),
      ("file", hexL e.file), ("reason", reasonStr e.reason)]

/-- op "hash.validate": {files:[{n,b}], sum: hex | null} -/
def handleHashValidate (j : Json) : Json :=
  let dir := parseDFiles j
  let sum := if has j "sum" then some (unhexL (str j "sum")) else none
  outcomeJson (validate hashBytes dir sum)

/-- op "hash.sum": the bytes of atlas.sum Atlas would write, and the listing order. -/
def handleHashSum (j : Json) : Json :=
  let dir := parseDFiles j
  Json.mkObj [("sum", hexL (writeSum hashBytes dir)), ("files", jstrs ((files dir).map (fun f => hexL f.name))),
    ("ignored", jstrs (((files dir).filter (fun f => sumIgnore f.content)).map (fun f => hexL f.name)))]

end Driver
