/- Protocol handler for the SQLite plan-shape model (C01). -/
import Driver.Util
import Atlas.Plan
open Lean Atlas.Plan

namespace Driver

def parseCK (s : String) : CK :=
  match s with
  | "addColumn" => .addColumn true
  | "addColumnExprDefault" | "addColumnStored" | "addColumnIndexed" => .addColumn false
  | "AddIndex" | "addIndex" => .addIndex
  | "DropIndex" | "dropIndex" => .dropIndex
  | "dropAutoIndex" => .other
  | "RenameColumn" => .renameColumn
  | "RenameIndex" => .renameIndex
  | _ => .other

def stStr : St → String
  | .createTable => "createTable" | .createIndex => "createIndex" | .dropTable => "dropTable" | .createNew => "createNew"
  | .copy => "copy" | .rename => "rename" | .alterAdd => "alterAdd" | .dropIndex => "dropIndex" | .renameColumn => "renameColumn"

/-- op "plan.shape": {changes:[{k, idx, copyable, kinds:[..]}]} -/
def handlePlanShape (j : Json) : Json :=
  let chs := (arr j "changes").map (fun c => match str c "k" with
    | "addTable" => Ch.addTable (nat c "idx")
    | "dropTable" => .dropTable
    | _ => .modifyTable ((strs c "kinds").map parseCK) (nat c "idx") (nat c "copyable"))
  Json.mkObj [("shape", jstrs ((shape chs).map stStr))]

end Driver
