/- JSON helpers shared by the protocol handlers of the executable model (not part of the model). -/
import Lean.Data.Json
open Lean

namespace Driver

def str (j : Json) (k : String) (d : String := "") : String :=
  match j.getObjVal? k with
  | .ok (.str s) => s
  | _ => d

def nat (j : Json) (k : String) (d : Nat := 0) : Nat :=
  match j.getObjVal? k with
  | .ok v => (v.getNat?.toOption).getD d
  | _ => d

def int (j : Json) (k : String) (d : Int := 0) : Int :=
  match j.getObjVal? k with
  | .ok v => (v.getInt?.toOption).getD d
  | _ => d

def bool (j : Json) (k : String) (d : Bool := false) : Bool :=
  match j.getObjVal? k with
  | .ok (.bool b) => b
  | _ => d

def arr (j : Json) (k : String) : List Json :=
  match j.getObjVal? k with
  | .ok (.arr a) => a.toList
  | _ => []

def obj (j : Json) (k : String) : Json :=
  match j.getObjVal? k with
  | .ok v => v
  | _ => Json.null

def has (j : Json) (k : String) : Bool :=
  match j.getObjVal? k with
  | .ok Json.null => false
  | .ok _ => true
  | _ => false

def strs (j : Json) (k : String) : List String :=
  (arr j k).filterMap (fun v => match v with | .str s => some s | _ => none)

def nats (j : Json) (k : String) : List Nat :=
  (arr j k).filterMap (fun v => v.getNat?.toOption)

def jstrs (l : List String) : Json := Json.arr (l.map Json.str).toArray
def jnats (l : List Nat) : Json := Json.arr (l.map (fun (n : Nat) => (n : Json))).toArray
def jarr (l : List Json) : Json := Json.arr l.toArray

/-- hex decoding/encoding for arbitrary byte strings. -/
def hexVal (c : Char) : Nat :=
  if '0' ≤ c ∧ c ≤ '9' then c.toNat - '0'.toNat
  else if 'a' ≤ c ∧ c ≤ 'f' then c.toNat - 'a'.toNat + 10
  else if 'A' ≤ c ∧ c ≤ 'F' then c.toNat - 'A'.toNat + 10 else 0

def unhex (s : String) : ByteArray := Id.run do
  let cs := s.toList.toArray
  let mut out := ByteArray.empty
  let mut i := 0
  while i + 1 < cs.size do
    out := out.push (UInt8.ofNat (hexVal cs[i]! * 16 + hexVal cs[i+1]!))
    i := i + 2
  return out

def hexDigit (n : Nat) : Char := if n < 10 then Char.ofNat (48 + n) else Char.ofNat (87 + n)

def hex (b : ByteArray) : String := Id.run do
  let mut s := ""
  for x in b do
    s := s.push (hexDigit (x.toNat / 16))
    s := s.push (hexDigit (x.toNat % 16))
  return s

end Driver
