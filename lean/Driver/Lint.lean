/- Protocol handler for the lint model (C18). -/
import Driver.Util
import Atlas.Lint
open Lean Atlas.Lint

namespace Driver

def parseCol (j : Json) : Col :=
  match j with
  | .arr a => ((a[0]?.bind (·.getNat?.toOption)).getD 0, (a[1]?.bind (fun (x : Json) => x.getBool?.toOption)).getD false)
  | _ => (0, false)

def parseTName (j : Json) : TName := ⟨nat j "news", nat j "base"⟩

def parseEv (j : Json) : Ev :=
  let t := parseTName j
  match str j "k" with
  | "addTable" => .addTable t ((arr j "cols").map parseCol)
  | "dropTable" => .dropTable t ((arr j "cols").map parseCol)
  | "addCol" => .addCol t (parseCol (obj j "col"))
  | "dropCol" => .dropCol t (parseCol (obj j "col"))
  | _ => .other

def codeStr : Code → String
  | .DS102 => "DS102"
  | .DS103 => "DS103"

def jFlags (l : List (Nat × Code)) : Json :=
  jarr (l.map (fun (p : Nat × Code) => jarr [(p.1 : Json), Json.str (codeStr p.2)]))

/-- op "lint.analyze": {stmts: [[ev]]} -/
def handleLintAnalyze (j : Json) : Json :=
  let stmts : List Stmt := (arr j "stmts").map (fun s => match s with
    | .arr a => a.toList.map parseEv
    | _ => [])
  Json.mkObj [("flags", jFlags (analyze stmts)), ("spec", jFlags (spec stmts))]

end Driver
