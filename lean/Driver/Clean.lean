/- Protocol handler for the first-run gate model (C11, `Atlas.Clean`). -/
import Driver.Util
import Atlas.Clean
open Lean Atlas.Clean

namespace Driver

/-- op "clean.check": {dialect, bound, schemas:[{name, tables:[..]}], rev_schema, rev_table} -/
def handleCleanCheck (j : Json) : Json :=
  let schemas : List Sch := (arr j "schemas").map (fun s => ⟨str s "name", strs s "tables"⟩)
  let revS := str j "rev_schema"
  let revT := str j "rev_table"
  let c :=
    if bool j "bound" then
      match schemas with
      | s :: _ => boundClean s revS revT
      | [] => true
    else
      match str j "dialect" with
      | "mysql" => mysqlRealmClean schemas revS revT
      | "postgres" => pgRealmClean schemas revS revT
      | _ => sqliteClean schemas revT
  Json.mkObj [("clean", Json.bool c)]

end Driver
