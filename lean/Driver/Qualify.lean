/- Protocol handlers for the qualification model (C16). -/
import Driver.Util
import Driver.Exclude
import Atlas.Qualify
open Lean Atlas Atlas.Qualify

namespace Driver

def parseQ (j : Json) : Qualifier := if has j "q" then some (txt j "q") else none

/-- op "qualify": {kind, q, schema, top, children, child_schema} -/
def handleQualify (j : Json) : Json :=
  let q := parseQ j
  let ids := match str j "kind" with
    | "reftable" => refTable q (txt j "child_schema") (txt j "schema") (txt j "top")
    | "type" => typeIdent q (txt j "schema") (txt j "top")
    | _ => mayQualify q (txt j "schema") (txt j "top") (txts j "children")
  Json.mkObj [("idents", jtxts ids)]

/-- op "scope": {q, inplace, changes:[{k,name}]} -/
def handleScope (j : Json) : Json :=
  let cs := (arr j "changes").map (fun c => match str c "k" with
    | "add_schema" => ScopeCh.addSchema
    | "drop_schema" => .dropSchema
    | "modify_schema" => .modifySchema (txt c "name")
    | "table" => .table (txt c "name")
    | "object" => .object (txt c "name")
    | _ => .other)
  Json.mkObj [("ok", checkScope (parseQ j) (bool j "inplace") cs)]

end Driver
