/- Protocol handler for the differ model (C02). -/
import Driver.Util
import Atlas.Diff
open Lean Atlas.Diff

namespace Driver

def optNat (j : Json) (k : String) : Option Nat := if has j k then some (nat j k) else none

def parseDCol (j : Json) : Col := ⟨nat j "name", nats j "attrs"⟩
def parseDPart (j : Json) : Part := ⟨nat j "col", bool j "desc", nat j "attr"⟩
def parseDIdx (j : Json) : Idx :=
  { name := optNat j "name", generatedName := bool j "generated", unique := bool j "unique",
    parts := (arr j "parts").map parseDPart, attrs := nat j "attrs" }
def parseDFK (j : Json) : FK := ⟨nat j "symbol", nats j "cols", nat j "ref_table", nats j "ref_cols", nat j "on_update", nat j "on_delete"⟩
def parseDCheck (j : Json) : Check := ⟨optNat j "name", nat j "expr"⟩
def parseDTable (j : Json) : Table :=
  { name := nat j "name", attrs := nat j "attrs", cols := (arr j "cols").map parseDCol,
    pk := if has j "pk" then some (parseDIdx (obj j "pk")) else none,
    idxs := (arr j "idxs").map parseDIdx, fks := (arr j "fks").map parseDFK, checks := (arr j "checks").map parseDCheck }

def ks (k : List Nat) : String := " ".intercalate (k.map toString)
def idxName (i : Idx) : String := match i.name with | some n => toString n | none => "_"
def chkName (c : Check) : String := match c.name with | some n => s!"n{n}" | none => s!"x{c.expr}"

def tchStr : TChange → String
  | .modifyAttr => "modifyAttr"
  | .dropCheck c => s!"dropCheck {chkName c}" | .modifyCheck c _ => s!"modifyCheck {chkName c}" | .addCheck c => s!"addCheck {chkName c}"
  | .dropColumn n => s!"dropColumn {n}" | .modifyColumn n k => s!"modifyColumn {n} [{ks k}]" | .addColumn n => s!"addColumn {n}"
  | .addPK => "addPK" | .dropPK => "dropPK" | .modifyPK k => s!"modifyPK [{ks k}]"
  | .dropIndex i => s!"dropIndex {idxName i}" | .modifyIndex i k => s!"modifyIndex {idxName i} [{ks k}]" | .addIndex i => s!"addIndex {idxName i}"
  | .dropFK s => s!"dropFK {s}" | .modifyFK s k => s!"modifyFK {s} [{ks k}]" | .addFK s => s!"addFK {s}"

def chStrs : Change → List String
  | .dropTable n => [s!"dropTable {n}"]
  | .addTable n => [s!"addTable {n}"]
  | .modifyTable n cs => cs.map (fun c => s!"{n}:{tchStr c}")

def kindOf : String → Option Kind
  | "add_table" => some .addTable | "drop_table" => some .dropTable | "modify_table" => some .modifyTable
  | "add_column" => some .addColumn | "drop_column" => some .dropColumn | "modify_column" => some .modifyColumn
  | "add_index" => some .addIndex | "drop_index" => some .dropIndex | "modify_index" => some .modifyIndex
  | "add_foreign_key" => some .addFK | "drop_foreign_key" => some .dropFK | "modify_foreign_key" => some .modifyFK
  | "add_check" => some .addCheck | "drop_check" => some .dropCheck | "modify_check" => some .modifyCheck
  | "add_primary_key" => some .addPK | "drop_primary_key" => some .dropPK | "modify_primary_key" => some .modifyPK
  | _ => none

/-- op "diff.schema": {from:[table], to:[table], skip?:[kind]} -/
def handleDiffSchema (j : Json) : Json :=
  let frm := (arr j "from").map parseDTable
  let to := (arr j "to").map parseDTable
  let sk := (strs j "skip").filterMap kindOf
  Json.mkObj [("changes", jstrs ((skipDiff sk (schemaDiff frm to)).flatMap chStrs))]

def ochStr : OChange → String
  | .dropObject n => s!"dropObject {n}" | .modifyObject n => s!"modifyObject {n}" | .addObject n => s!"addObject {n}"

/-- op "diff.objects": {from:[{name,values}], to:[...]} -/
def handleDiffObjects (j : Json) : Json :=
  let p := fun (o : Json) => (⟨nat o "name", nats o "values"⟩ : EnumObj)
  Json.mkObj [("changes", jstrs ((objectDiff ((arr j "from").map p) ((arr j "to").map p)).map ochStr))]

end Driver
