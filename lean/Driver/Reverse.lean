/- Protocol handler for the plan-reversal model (C17). -/
import Driver.Util
import Atlas.Reverse
open Lean Atlas.Reverse

namespace Driver

def dummyT : TDef := { cols := [], idxs := fun _ => false }

def parseStmtKind (s : String) : Stmt :=
  match s with
  | "createTable" => .createTable 0 dummyT
  | "dropTable" => .dropTable 0
  | "addColumn" => .addColumn 0 0
  | "dropColumn" => .dropColumn 0 0
  | "createIndex" => .createIndex 0 0
  | "dropIndex" => .dropIndex 0 0
  | _ => .rebuild 0 dummyT

def stmtKind : Stmt → String
  | .createTable _ _ => "createTable" | .dropTable _ => "dropTable" | .addColumn _ _ => "addColumn"
  | .dropColumn _ _ => "dropColumn" | .createIndex _ _ => "createIndex" | .dropIndex _ _ => "dropIndex" | .rebuild _ _ => "rebuild"

/-- op "rev.plan": {cmds:[kind]} -> the reverses the planner attaches and the Reversible flag -/
def handleRevPlan (j : Json) : Json :=
  let cmds := (strs j "cmds").map parseStmtKind
  let p : List Change := cmds.map (fun c => ⟨c, plannerReverse (some dummyT) c⟩)
  Json.mkObj [("reversible", Json.bool (reversible p)),
    ("reverses", jarr (p.map (fun c => jstrs (c.reverse.map stmtKind))))]

def parseAlterCh (k : String) : Atlas.Reverse.AlterCh :=
  match k with
  | "add-check-named" => .addCheck true
  | "add-check-unnamed" => .addCheck false
  | "modify-column" => .modifyColumn false
  | "modify-column-generated" => .modifyColumn true
  | _ => .other

/-- op "alter.flag": {pg, changes:[kind]} -> {reversible} -/
def handleAlterFlag (j : Json) : Json :=
  let cs := (strs j "changes").map parseAlterCh
  Json.mkObj [("reversible", Json.bool (Atlas.Reverse.alterFlag (Atlas.Reverse.alterInv (bool j "pg")) cs))]

end Driver
