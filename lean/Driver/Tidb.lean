/- Protocol handler for the TiDB ordering model (C04, `Atlas.Tidb`). -/
import Driver.Util
import Atlas.Tidb
open Lean Atlas.Tidb

namespace Driver

def parseTidbCh (j : Json) : TCh :=
  match str j "k" with
  | "add-column" => .addColumn
  | "drop-index" => .dropIndex
  | "drop-fk" => .dropFK
  | "drop-attr" => .dropAttr
  | "drop-check" => .dropCheck
  | "modify-index" => .modifyIndex
  | "modify-fk" => .modifyFK (nat j "t")
  | "add-table" => .addTable (nat j "t")
  | _ => .other

def showTidbCh : TCh → String
  | .addColumn => "add-column" | .dropIndex => "drop-index" | .dropFK => "drop-fk" | .dropAttr => "drop-attr"
  | .dropCheck => "drop-check" | .modifyIndex => "modify-index" | .modifyFK t => s!"modify-fk {t}"
  | .addTable t => s!"add-table {t}" | .other => "other"

/-- op "tidb.order": {changes:[{k, t}]} -> {order:[..]} -/
def handleTidbOrder (j : Json) : Json :=
  let l := (arr j "changes").map parseTidbCh
  Json.mkObj [("order", jstrs ((order l).map showTidbCh))]

end Driver
