/- Protocol handler for the HCL type attribute model (C15). -/
import Driver.Util
import Atlas.HclType
open Lean Atlas.HclType

namespace Driver

/-- op "hcltype.convert": {vals:[[int, explicit]]} (value −1 = the schema type has no such field) -/
def handleHclTypeConvert (j : Json) : Json :=
  let vals : List AttrVal := (arr j "vals").filterMap (fun v => match v with
    | .arr a =>
      match a[0]?.bind (fun (x : Json) => x.getInt?.toOption) with
      | some i => if i < 0 then none else some (i.toNat, (a[1]?.bind (fun (x : Json) => x.getBool?.toOption)).getD false)
      | none => none
    | _ => none)
  Json.mkObj [("attrs", jnats (toAttrs vals)), ("pinned", jnats (toAttrsPinned vals))]

end Driver
