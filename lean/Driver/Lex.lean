/- Protocol handler for the scanner model (C08, C07). -/
import Driver.Util
import Driver.Hash
import Atlas.Lex
open Lean Atlas Atlas.Lex

namespace Driver

def parseOpts (j : Json) : Opts :=
  { matchBegin := bool j "MatchBegin", matchBeginAtomic := bool j "MatchBeginAtomic",
    matchDollarQuote := bool j "MatchDollarQuote", backslashEscapes := bool j "BackslashEscapes",
    escapedStringExt := bool j "EscapedStringExt", hashComments := bool j "HashComments",
    omitDelimiter := bool j "OmitDelimiter" }

def outStr : Out → String
  | .eof => "eof" | .err => "err" | .panic => "panic" | .fuel => "fuel"

/-- op "lex.scan": {opts:{..}, src:hex, fixed:bool} -/
def handleLexScan (j : Json) : Json :=
  let o := parseOpts (obj j "opts")
  let src := unhexL (str j "src")
  match scan (bool j "fixed" true) o src with
  | .inl out => Json.mkObj [("err", outStr out)]
  | .inr stmts => Json.mkObj [("stmts", jarr (stmts.map (fun s =>
      Json.mkObj [("pos", s.pos), ("text", hexL s.text), ("comments", jstrs (s.comments.map hexL))])))]

end Driver
