/- Protocol handler for the formatter models (C07, C17). -/
import Driver.Util
import Driver.Lex
import Atlas.Format
open Lean Atlas Atlas.Format

namespace Driver

def parsePlan (j : Json) : Plan :=
  { delimiter := unhexL (str j "delimiter"),
    directives := (strs j "directives").map unhexL,
    changes := (arr j "changes").map (fun c =>
      { cmd := unhexL (str c "cmd"), comment := unhexL (str c "comment"), reverse := (strs c "reverse").map unhexL }) }

def scanJson : Sum Lex.Out (List Lex.Stmt) → Json
  | .inl out => Json.mkObj [("err", outStr out)]
  | .inr stmts => Json.mkObj [("stmts", jstrs (stmts.map (fun s => hexL s.text)))]

/-- op "fmt": {kind: atlas|up|goose|dbmate, opts, plan} -/
def handleFmt (j : Json) : Json :=
  let p := parsePlan (obj j "plan")
  match str j "kind" with
  | "atlas" =>
    match formatAtlas p with
    | none => Json.mkObj [("err", "format")]
    | some f => (scanJson (Lex.scan true (parseOpts (obj j "opts")) f)).mergeObj (Json.mkObj [("file", hexL f)])
  | "atlas-checkpoint" =>
    match formatCheckpoint (bool j "fixed" true) p with
    | none => Json.mkObj [("err", "format")]
    | some f => (scanJson (Lex.scan true (parseOpts (obj j "opts")) f)).mergeObj (Json.mkObj [("file", hexL f)])
  | "up" =>
    (scanJson (roundTripUp p)).mergeObj (Json.mkObj [("file", hexL (formatUp p)), ("down", hexL (formatDown p)),
      ("downstmts", jstrs ((downStmts p).map hexL))])
  | "goose" => Json.mkObj [("file", hexL (formatGoose p)), ("downstmts", jstrs ((downStmts p).map hexL))]
  | "dbmate" => Json.mkObj [("file", hexL (formatDBMate p)), ("downstmts", jstrs ((downStmts p).map hexL))]
  | k => Json.mkObj [("err", s!"unknown-kind:{k}")]

end Driver
