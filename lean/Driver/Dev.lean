/- Protocol handler for the dev-database model (C14). -/
import Driver.Util
import Atlas.Dev
open Lean Atlas.Dev

namespace Driver

def parseKind (s : String) : Kind :=
  match s with
  | "view" => .view | "index" => .index | "trigger" => .trigger | _ => .table

/-- op "dev.run": {fixed, objects:[kind], fail} -/
def handleDevRun (j : Json) : Json :=
  let db : DevDb := (strs j "objects").map parseKind
  let stmts : List (Option Kind) := [some .table, some .index] ++ (if bool j "fail" then [none] else []) ++ [some .view]
  let o := runs (bool j "fixed" true) db [stmts, [some .table]]
  Json.mkObj [("refused", Json.bool o.refused), ("empty_after", Json.bool o.db.isEmpty), ("unchanged", Json.bool (o.db == db))]

end Driver
