/- Protocol handler for the row-copy model (C05). -/
import Driver.Util
import Atlas.Copy
open Lean Atlas.Copy

namespace Driver

def parseToCol (j : Json) : ToCol :=
  { name := nat j "name", generated := bool j "generated", notNull := bool j "not_null", hasDefault := bool j "has_default",
    change := match str j "change" with
      | "added" => .added
      | "modified" => .modified (bool j "null_or_default")
      | "renamed" => .renamed (nat j "from")
      | _ => .none }

/-- op "copy.plan": {cols:[{name, generated, not_null, has_default, change, null_or_default, from}]} -/
def handleCopyPlan (j : Json) : Json :=
  let to := (arr j "cols").map parseToCol
  let p := copyPlan to
  Json.mkObj [("to", jnats (p.map (·.1))),
    ("from", jstrs (p.map (fun (q : Nat × Src) => match q.2 with | .col n => s!"col {n}" | .ifnull n => s!"ifnull {n}")))]

end Driver
