/- Protocol handlers for the exclusion model (C19). -/
import Driver.Util
import Atlas.Exclude
open Lean Atlas Atlas.Exclude

namespace Driver

def txt (j : Json) (k : String) : Text := (str j k).toList
def txts (j : Json) (k : String) : List Text := (strs j k).map String.toList
def jtxt (t : Text) : Json := Json.str (String.ofList t)
def jtxts (l : List Text) : Json := jarr (l.map jtxt)

def parseTable (j : Json) : Table :=
  { name := txt j "name", columns := txts j "columns",
    indexes := (arr j "indexes").map (fun i => { name := txt i "name", cols := txts i "cols" }),
    fks := (arr j "fks").map (fun f => { sym := txt f "sym", cols := txts f "cols" }),
    checks := txts j "checks" }

def parseRealm (j : Json) : Realm :=
  (arr j "realm").map (fun s =>
    { name := txt s "name", tables := (arr s "tables").map parseTable,
      views := (arr s "views").map (fun v => { name := txt v "name", columns := txts v "columns" }) })

def tableJson (t : Table) : Json :=
  Json.mkObj [("name", jtxt t.name), ("columns", jtxts t.columns),
    ("indexes", jarr (t.indexes.map (fun i => Json.mkObj [("name", jtxt i.name), ("cols", jtxts i.cols)]))),
    ("fks", jarr (t.fks.map (fun f => Json.mkObj [("sym", jtxt f.sym), ("cols", jtxts f.cols)]))),
    ("checks", jtxts t.checks)]

def realmJson (r : Realm) : Json :=
  jarr (r.map (fun s => Json.mkObj [("name", jtxt s.name), ("tables", jarr (s.tables.map tableJson)),
    ("views", jarr (s.views.map (fun v => Json.mkObj [("name", jtxt v.name), ("columns", jtxts v.columns)])))]))

/-- op "exclude": {realm:[..], globs:[[part,..],..]} -/
def handleExclude (j : Json) : Json :=
  let globs : List (List Text) := (arr j "globs").map (fun g => match g with
    | .arr xs => xs.toList.filterMap (fun v => match v with | .str s => some s.toList | _ => none)
    | _ => [])
  match excludeRealm globs (parseRealm j) with
  | .ok r => Json.mkObj [("realm", realmJson r)]
  | .error .badPattern => Json.mkObj [("err", "bad-pattern")]
  | .error .tooManyParts => Json.mkObj [("err", "too-many-parts")]
  | .error .emptyPattern => Json.mkObj [("err", "empty-pattern")]

/-- op "glob": filepath.Match -/
def handleGlob (j : Json) : Json :=
  match gmatch (txt j "p") (txt j "n") with
  | .ok b => Json.mkObj [("m", b)]
  | .error () => Json.mkObj [("err", "bad-pattern")]

end Driver
