/- Protocol handler for the change-ordering model (C04, C20). -/
import Driver.Util
import Atlas.Sort
open Lean Atlas.Sort

namespace Driver

def parseFK (j : Json) : FK := { sym := str j "sym", ref := str j "ref" }

def parseSub (j : Json) : Sub :=
  match str j "k" with
  | "addfk" => .addFK (parseFK j)
  | "dropfk" => .dropFK (parseFK j)
  | _ => .other (str j "tag")

def parseCh (j : Json) : Ch :=
  { id := nat j "id",
    kind := match str j "k" with | "add" => .add | "drop" => .drop | _ => .modify,
    table := str j "t", fks := (arr j "fks").map parseFK, subs := (arr j "subs").map parseSub }

def fkJson (f : FK) : Json := Json.mkObj [("sym", f.sym), ("ref", f.ref)]

def subJson : Sub → Json
  | .addFK f => Json.mkObj [("k", "addfk"), ("sym", f.sym), ("ref", f.ref)]
  | .dropFK f => Json.mkObj [("k", "dropfk"), ("sym", f.sym), ("ref", f.ref)]
  | .other t => Json.mkObj [("k", "other"), ("tag", t)]

def chJson (c : Ch) : Json :=
  Json.mkObj [("k", match c.kind with | .add => "add" | .drop => "drop" | .modify => "mod"), ("t", c.table),
    ("fks", jarr (c.fks.map fkJson)), ("subs", jarr (c.subs.map subJson))]

/-- op "sort.plan": {changes:[..]} → the order both planners use, and whether a cycle was detected. -/
def handleSortPlan (j : Json) : Json :=
  let cs := (arr j "changes").map parseCh
  Json.mkObj [("order", jarr ((planOrder cs).map chJson)), ("cycle", (sortMap cs).isNone),
    ("detached", jarr ((detachCycles cs).map chJson))]

end Driver
