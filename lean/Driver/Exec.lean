/- Protocol handlers for the executor / pending models (C09, C11, C12). -/
import Driver.Util
import Atlas.Exec
import Atlas.SetVersion
import Atlas.Base.Sha256
open Lean Atlas

namespace Driver

def untag (s : String) : String := if s.startsWith "h1:" then (s.drop 3).toString else s

def parseRev (j : Json) : Revision :=
  { version := str j "v", desc := str j "d", typ := nat j "ty" 2, applied := nat j "a", total := nat j "t",
    hash := str j "h", partialHashes := (strs j "ph").map untag, error := str j "e", errorStmt := (str j "es").toList }

def revJson (r : Revision) : Json :=
  Json.mkObj [("v", r.version), ("d", r.desc), ("ty", r.typ), ("a", r.applied), ("t", r.total),
    ("h", r.hash), ("ph", jstrs (r.partialHashes.map ("h1:" ++ ·))), ("e", r.error), ("es", String.ofList r.errorStmt)]

def parseFile (j : Json) : MFile :=
  { name := str j "n", version := str j "v", desc := str j "d", stmts := (strs j "s").map String.toList,
    checkpoint := bool j "ck", hash := str j "h" }

def parseOrder (s : String) : Order :=
  if s == "linear-skip" then .linearSkip else if s == "non-linear" then .nonLinear else .linear

def parseCfg (j : Json) : Pending.Cfg :=
  { order := parseOrder (str j "order"), baseline := str j "baseline", allowDirty := bool j "dirty",
    clean := bool j "clean" true }

def resStr : Exec.Res → String
  | .ok => "ok"
  | .writeRev => "write"
  | .stmt false => "stmt"
  | .stmt true => "stmt+write"
  | .historyChanged i false => s!"history:{i}"
  | .historyChanged i true => s!"history:{i}+write"
  | .panic => "panic"

def pendErrJson : Pending.Err → Json
  | .notClean => Json.mkObj [("err", "not-clean")]
  | .baselineNotFound => Json.mkObj [("err", "baseline-not-found")]
  | .missing v d => Json.mkObj [("err", "missing"), ("v", v), ("d", d)]
  | .nonLinear o p => Json.mkObj [("err", "non-linear"), ("ooo", jstrs (o.map (·.name))),
      ("pending", jstrs (p.map (·.name)))]
  | .noPending => Json.mkObj [("err", "no-pending")]

def outcomeStr : Exec.Outcome → String
  | .done r => resStr r
  | .baselineWriteErr => "write"
  | .pendErr e => match e with
    | .notClean => "not-clean"
    | .baselineNotFound => "baseline-not-found"
    | .missing .. => "missing"
    | .nonLinear .. => "non-linear"
    | .noPending => "no-pending"

def hashStr (s : Text) : String := Base.h1 (String.ofList s).toUTF8

/-- op "pending" -/
def handlePending (j : Json) : Json :=
  let files := (arr j "files").map parseFile
  let revs := (arr j "revs").map parseRev
  let r := Pending.pending (parseCfg (obj j "cfg")) files revs
  let base := match r.baselineWrite with
    | some b => [("baseline_write", revJson b)]
    | none => []
  match r.out with
  | .ok fs => Json.mkObj ([("pending", jstrs (fs.map (·.name)))] ++ base)
  | .error e => (pendErrJson e).mergeObj (Json.mkObj base)

/-- op "pending.to": {files, revs, cfg, v} -> what `ExecuteTo(v)` executes -/
def handlePendingTo (j : Json) : Json :=
  let files := (arr j "files").map parseFile
  let revs := (arr j "revs").map parseRev
  match Pending.executeTo (parseCfg (obj j "cfg")) files revs (str j "v") with
  | none => Json.mkObj [("err", "version-not-found")]
  | some (.ok fs) => Json.mkObj [("files", jstrs (fs.map (·.name)))]
  | some (.error e) => pendErrJson e

/-- op "set.run": {files, revs, arg?} -> the revision table after `migrate set [arg]` -/
def handleSetRun (j : Json) : Json :=
  let files := (arr j "files").map parseFile
  let revs := (arr j "revs").map parseRev
  let arg := if has j "arg" then some (str j "arg") else none
  match SetV.setRun files revs arg with
  | .ok rs => Json.mkObj [("revs", Json.arr (rs.map revJson).toArray)]
  | .error .notFound => Json.mkObj [("err", "not-found")]
  | .error .needsArg => Json.mkObj [("err", "needs-arg")]

/-- op "exec": run a list of attempts (each a fault list) of ExecuteN. -/
def handleExec (j : Json) : Json := Id.run do
  let mut files := (arr j "files").map parseFile
  let cfg := parseCfg (obj j "cfg")
  let fixed := bool j "fixed" true
  let n := nat j "n"
  let mut w : Exec.World := { revs := (arr j "revs").map parseRev }
  let mut outs : List Json := []
  for a in arr j "attempts" do
    let fs := match a with
      | .arr xs => xs.toList.filterMap (fun v => v.getNat?.toOption)
      | _ => []
    -- files may be replaced per attempt (C12: edited file) via {"faults":[..],"files":[..]}
    let (fs, files') := match a with
      | .obj _ => (nats a "faults", if has a "files" then (arr a "files").map parseFile else files)
      | _ => (fs, files)
    files := files'
    let before := w
    let (w', o) := Exec.executeN fixed hashStr cfg files n { w with tick := 0, faults := fs }
    w := w'
    outs := outs ++ [Json.mkObj [("res", outcomeStr o),
      ("calls", jstrs ((w'.calls.drop before.calls.length).map String.ofList)),
      ("journal", jstrs ((w'.journal.drop before.journal.length).map String.ofList)),
      ("revs", jarr (w'.revs.map revJson))]]
  return Json.mkObj [("attempts", jarr outs)]

end Driver
