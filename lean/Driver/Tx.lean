/- Protocol handlers for the transaction model (C10, C13). -/
import Driver.Util
import Atlas.Tx
open Lean Atlas.Tx

namespace Driver

def parseMode (s : String) : Mode :=
  match s with
  | "all" => .all
  | "none" => .none
  | _ => .file

def parseTFile (j : Json) : TFile :=
  { ok := (arr j "ok").map (fun b => match b with | .bool x => x | _ => true),
    directive := if has j "directive" then some (parseMode (str j "directive")) else none }

def parseTxRev (j : Json) : Rev := ⟨nat j "applied", nat j "total", bool j "err"⟩

def parseTxDb (j : Json) : Db :=
  { journal := (arr j "journal").map (fun p => match p with
      | .arr a => ((a[0]?.bind (·.getNat?.toOption)).getD 0, (a[1]?.bind (·.getNat?.toOption)).getD 0)
      | _ => (0, 0)),
    revs := (arr j "revs").map parseTxRev }

def jTxDb (d : Db) : Json :=
  Json.mkObj [("journal", jarr (d.journal.map (fun (p : Nat × Nat) => jnats [p.1, p.2]))),
    ("revs", jarr (d.revs.map (fun r => Json.mkObj [("applied", (r.applied : Json)), ("total", (r.total : Json)), ("err", Json.bool r.err)])))]

def opStr : Op → String
  | .begin => "begin" | .commit => "commit" | .rollback => "rollback" | .close => "close"
  | .stmt f i => s!"stmt {f} {i}" | .fail f i => s!"fail {f} {i}"
  | .rev f r => s!"rev {f} {r.applied} {r.total} {if r.err then 1 else 0}"
  | .locked f => s!"locked {f}"

/-- op "tx.plan": {mode, fixed, count?, dry, files, db, crashes} -> ops, ok, final, crash states -/
def handleTxPlan (j : Json) : Json :=
  let cfg : Cfg := { mode := parseMode (str j "mode"), fixed := bool j "fixed" true,
                     count := if has j "count" then some (nat j "count") else none, dryRun := bool j "dry" }
  let dir := (arr j "files").map parseTFile
  let db := parseTxDb (obj j "db")
  let (ops, ok) := plan cfg dir db
  let crashes := if bool j "crashes" then (List.range (ops.length + 1)).map (fun k => jTxDb (crashAt db ops k)) else []
  Json.mkObj [("ops", jstrs (ops.map opStr)), ("ok", Json.bool ok), ("final", jTxDb (runAll db ops)), ("crash", jarr crashes)]

/-- op "tx.schema": {ok:[bool], db} -/
def handleTxSchema (j : Json) : Json :=
  let stmts := (arr j "ok").map (fun b => match b with | .bool x => x | _ => true)
  let db := parseTxDb (obj j "db")
  let ops := schemaApply stmts
  Json.mkObj [("ops", jstrs (ops.map opStr)), ("final", jTxDb (runAll db ops))]

end Driver
