import Props.C12
import Props.C09
import Props.C11
import Props.C06
import Props.C08
import Props.C07
import Props.C04
import Props.C19
