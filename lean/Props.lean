import Props.C12
import Props.C09
