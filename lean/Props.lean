import Props.C12
