import Atlas.Base.Sha256
import Atlas.Revision
import Atlas.Pending
import Atlas.Exec
import Atlas.Hash
import Atlas.Lex
import Atlas.Format
import Atlas.Sort
