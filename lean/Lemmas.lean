import Lemmas.Exec
import Lemmas.ExecInv
import Lemmas.ExecDir
import Lemmas.Pending
import Lemmas.Hash
import Lemmas.Lex
import Lemmas.Tx
import Lemmas.TxFail
