import Lemmas.Exec
