import Gen.C14Sites
