#!/bin/sh
# Builds the framework from files on disk only (offline): the Lean model + all theorems + the
# executable model, and the Go correspondence harness against /repo.
set -e
cd "$(dirname "$0")"
(cd lean && lake build)
mkdir -p .build
cp /repo/go.sum go/go.sum
[ -f /repo/cmd/atlas/go.sum ] && cat /repo/cmd/atlas/go.sum >> go/go.sum
(cd go && GOFLAGS=-mod=mod GOPROXY=off go build -tags verif -o ../.build/corr ./cmd/corr)
echo setup ok
