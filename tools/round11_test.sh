#!/bin/sh
# runs every round-4 candidate (/tmp/seed11/<ID>.out/{a,b}) through its property's quick check
cd /verif
for id in C01 C02 C03 C04 C05 C06 C07 C08 C09 C10 C11 C12 C13 C14 C15 C16 C17 C18 C19 C20; do
  for x in a b; do
    p=/tmp/seed11/$id.out/$x/patch.diff
    [ -f $p ] || { echo "$id-$x NO-PATCH"; continue; }
    if ! git -C /repo apply --check $p 2>/dev/null; then echo "$id-$x DOES-NOT-APPLY"; continue; fi
    out=$(tools/seedtest.sh $p $id 2>&1)
    rc=$(echo "$out" | grep -o 'rc=[0-9]*' | head -1)
    sigs=$(echo "$out" | tr -d '\r' | grep -ao '^VIOLATION property=[^ ]* replay=[^ ]* \[[^]]*\]' | sed 's/.*\[//; s/\]$//' | sort | uniq -c | sort -rn | head -3 | awk '{print $2" x"$1}' | tr '\n' ' ')
    echo "$id-$x $rc $sigs"
  done
done
