#!/usr/bin/env python3
"""usage: tools/seedtable.py <allseeds.log> : prints the markdown table of all stored seeds (DESIGN 11.17)."""
import json, os, re, sys, glob
log = {}
for l in open(sys.argv[1], errors="replace"):
    m = re.match(r"(C\d\d-\w+) rc=(\d+)\s*(.*)", l.strip())
    if m:
        log[m.group(1)] = (m.group(2), m.group(3).strip())
print("| seed | round | touches | change (from the seeding agent's summary) | signatures reported by the quick check |")
print("|---|---|---|---|---|")
def key(d):
    b = os.path.basename(d)
    return (b.split("-")[0], len(b.split("-")[1]), b.split("-")[1])
for d in sorted(glob.glob("/verif/seeded/C*-*"), key=key):
    sid = os.path.basename(d)
    try:
        m = json.load(open(os.path.join(d, "meta.json")))
    except Exception:
        m = {}
    files = sorted(set(re.findall(r"^diff --git a/(\S+)", open(os.path.join(d, "patch.diff"), errors="replace").read(), re.M)))
    summ = " ".join(str(m.get("summary", "")).split())
    if len(summ) > 230:
        summ = summ[:227] + "…"
    summ = summ.replace("|", "\\|")
    rc, sigs = log.get(sid, ("?", "not run"))
    res = ("VIOLATION: " + (sigs or "(see replay)")) if rc == "1" else ("rc=" + rc + " " + sigs)
    rnd = m.get("round", "")
    if rnd == "":
        rnd = {"a": 1, "b": 1, "c": 2, "d": 2, "e": 3, "f": 3}.get(sid.split("-")[1], "")
    print(f"| {sid} | {rnd} | {', '.join('`'+f+'`' for f in files)} | {summ} | {res.replace('|', ' ')} |")
