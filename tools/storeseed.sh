#!/bin/sh
# usage: tools/storeseed.sh <ID> <x>   -- copies /tmp/seed/<ID>.out/<x> to seeded/<ID>-<x> and stamps the confirmation
id="$1"; x="$2"
mkdir -p /verif/seeded/$id-$x && cp /tmp/seed/$id.out/$x/* /verif/seeded/$id-$x/
python3 - "$id" "$x" <<'PY'
import json,sys
i,x=sys.argv[1],sys.argv[2]
p=f'/verif/seeded/{i}-{x}/meta.json'; m=json.load(open(p))
m["confirmed_by_me"]={"ran":"tools/confirm_seed.sh: builds ok; existing tests pass with the patch; demo FAILS with the patch and PASSES without","check":f"tools/seedtest.sh seeded/{i}-{x}/patch.diff {i} -> rc=1 with VIOLATION lines"}
json.dump(m,open(p,'w'),indent=1)
PY
