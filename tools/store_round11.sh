#!/bin/sh
# usage: tools/store_round3.sh <ID>   -- confirms /tmp/seed11/<ID>.out/{a,b} and stores them as seeded/<ID>-e, <ID>-f
id="$1"
for pair in a:u b:v; do
  x=${pair%:*}; y=${pair#*:}
  d=/tmp/seed11/$id.out/$x
  [ -f $d/patch.diff ] || { echo "$id-$x: no patch"; continue; }
  dd=$(python3 -c "import json;m=json.load(open('$d/meta.json'));print(m.get('demo_dir','').rstrip('/'),m.get('demo_module','.'))")
  set -- $dd
  if [ "$2" = "cmd/atlas" ]; then t1=""; t2="./internal/cmdapi/..."; else t1="./sql/... ./schemahcl/..."; t2=""; fi
  res=$(/verif/tools/confirm_seed.sh $d $1 $2 "$t1" "$t2" 2>&1 | tail -4 | tr '\n' ';')
  echo "$id-$x -> $id-$y: $res"
  case "$res" in *"with patch: FAIL"*"without patch: PASS"*)
    mkdir -p /verif/seeded/$id-$y && cp $d/* /verif/seeded/$id-$y/
    python3 - "$id" "$y" <<'PY'
import json,sys
i,y=sys.argv[1],sys.argv[2]
p=f'/verif/seeded/{i}-{y}/meta.json'; m=json.load(open(p))
m["round"]=11
m["confirmed_by_me"]={"ran":"tools/confirm_seed.sh: builds ok; existing tests pass with the patch; demo FAILS with the patch and PASSES without","check":f"tools/seedtest.sh seeded/{i}-{y}/patch.diff {i} -> rc=1 with VIOLATION lines"}
json.dump(m,open(p,'w'),indent=1)
PY
  ;; esac
done
