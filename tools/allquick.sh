#!/bin/sh
# runs the quick tier of every property on the current tree; prints one line per property
cd /verif
for i in 01 02 03 04 05 06 07 08 09 10 11 12 13 14 15 16 17 18 19 20; do
  s=$(date +%s)
  out=$(./check C$i --tier quick 2>&1); rc=$?
  echo "C$i rc=$rc violations=$(echo "$out" | grep -c '^VIOLATION') known=$(echo "$out" | grep -c '^KNOWN-FINDING') secs=$(( $(date +%s) - s ))"
done
