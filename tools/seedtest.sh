#!/bin/sh
# usage: tools/seedtest.sh <patch.diff> <property> [tier]
# Applies a seeded patch to /repo, runs the property's check, and ALWAYS reverts /repo afterwards.
set -u
patch="$1"; prop="$2"; tier="${3:-quick}"
cd /repo || exit 2
if ! git diff --quiet; then echo "/repo has uncommitted changes; refusing"; exit 2; fi
git apply "$patch" || { echo "patch does not apply"; exit 2; }
cd /verif
# the evidence file describes the unchanged tree: keep it
[ -f evidence/$prop.json ] && cp evidence/$prop.json .work/evidence.$prop.keep
./check "$prop" --tier "$tier" > /verif/.work/seedtest.out 2>&1
rc=$?
[ -f .work/evidence.$prop.keep ] && mv .work/evidence.$prop.keep evidence/$prop.json
git -C /repo checkout -- .
git -C /repo clean -fdq -- . >/dev/null 2>&1
# never leave generated tables or binaries built from the patched tree behind
(cd /verif/go && GOFLAGS=-mod=mod GOPROXY=off go run ./cmd/gensites -repo /repo -out /verif/lean/Gen/C14Sites.lean >/dev/null 2>&1)
# (skipped while tools/allseeds.sh runs - it rebuilds once at the end; every check that uses the binary builds it itself)
[ -f /verif/.work/allseeds.running ] || (cd /repo/cmd/atlas && GOFLAGS=-mod=mod GOPROXY=off go build -tags verif -o /verif/.build/atlas . >/dev/null 2>&1)
echo "rc=$rc"
grep -E "^(VIOLATION|KNOWN-FINDING)" /verif/.work/seedtest.out | cut -c1-400 | head -5
exit 0
