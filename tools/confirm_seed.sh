#!/bin/sh
# usage: tools/confirm_seed.sh <seed-out-dir> <demo-pkg-dir-relative-to-repo> <module-dir-of-demo (. or cmd/atlas)> "<existing test pkgs root module>" "<existing test pkgs cmd/atlas>"
# Confirms a seeded change in a scratch worktree: compiles, existing tests pass, demo FAILS with it, PASSES without.
set -u
out="$1"; pkg="$2"; mod="$3"; t1="$4"; t2="${5:-}"
wt=/tmp/confirm.$$
git -C /repo worktree add -q --detach "$wt" HEAD || exit 2
trap 'git -C /repo worktree remove --force "$wt" >/dev/null 2>&1' EXIT
cd "$wt" && git apply "$out/patch.diff" || { echo "APPLY-FAIL"; exit 1; }
export GOPROXY=off
(cd "$wt" && go build ./... ) && (cd "$wt/cmd/atlas" && go build ./...) && echo "build: ok" || { echo "build: FAIL"; exit 1; }
[ -n "$t1" ] && { (cd "$wt" && go test -vet=off -count=1 $t1 >/tmp/confirm.log 2>&1) && echo "existing tests (root): pass" || { echo "existing tests (root): FAIL"; tail -5 /tmp/confirm.log; }; }
[ -n "$t2" ] && { (cd "$wt/cmd/atlas" && GIT_CONFIG_GLOBAL=/dev/null go test -vet=off -count=1 $t2 >/tmp/confirm.log 2>&1) && echo "existing tests (cmd/atlas): pass" || { echo "existing tests (cmd/atlas): FAIL"; tail -5 /tmp/confirm.log; }; }
cp "$out/demo_test.go" "$wt/$pkg/zz_seeded_demo_test.go"
(cd "$wt/$mod" && go test -vet=off -count=1 -run 'Seeded' ./${pkg#$mod/}/ >/tmp/confirm.log 2>&1) && echo "demo with patch: PASS (unexpected)" || echo "demo with patch: FAIL (expected)"
git -C "$wt" checkout -q -- . 
(cd "$wt/$mod" && go test -vet=off -count=1 -run 'Seeded' ./${pkg#$mod/}/ >/tmp/confirm.log 2>&1) && echo "demo without patch: PASS (expected)" || { echo "demo without patch: FAIL (unexpected)"; tail -5 /tmp/confirm.log; }
