#!/usr/bin/env python3
"""Regenerates MANIFEST.json from props.json (claimed checks) and properties.jsonl (all ids).
Run after editing props.json; validates against the schema when jsonschema is importable."""
import json, os, subprocess, sys

ROOT = os.path.dirname(os.path.dirname(os.path.abspath(__file__)))
props = json.load(open(os.path.join(ROOT, "props.json")))
all_ids = [json.loads(l)["id"] for l in open(os.path.join(ROOT, "properties.jsonl"))]

try:
    commits = subprocess.run(["git", "-C", "/repo", "log", "--format=%h %s"], capture_output=True, text=True).stdout.strip().split("\n")
except Exception:
    commits = []
hook_commits = [c.split()[0] for c in commits if c.split(" ", 1)[1].startswith("verif:")] if commits and commits[0] else []

mods = [".", "cmd/atlas", "internal/integration"]
baseline = "; ".join(f"(cd /repo/{m} && GOPROXY=off go test -json -vet=off -count=1 -timeout 25m ./...)" for m in mods)

checks = []
for pid in all_ids:
    if pid not in props or not props[pid].get("claimed", True):
        continue
    sp = props[pid]
    checks.append({
        "property_id": pid,
        "quick_cmd": f"./check {pid} --tier quick",
        "thorough_cmd": f"./check {pid} --tier thorough",
        "evidence_file": f"/verif/evidence/{pid}.json",
        "replay_cmd_template": f"./check {pid} --replay {{path}}",
        "engine": "lean4-proof+correspondence",
        "level_claimed": {"category": "proof", "text": sp["level_text"], "design_ref": sp.get("design_ref", "DESIGN.md §6 " + pid)},
        "level_note": sp["level_note"],
        "technique": sp.get("technique", "Lean 4 theorems over a hand-written model + differential correspondence with the Go implementation"),
    })

na = []
for pid in all_ids:
    if pid in props and props[pid].get("claimed", True):
        continue
    reason = (props.get(pid) or {}).get("na_reason", "check not built yet (design in DESIGN.md §6); nothing is claimed for this property so far")
    na.append({"property_id": pid, "reason": reason})

man = {
    "version": 1,
    "setup_cmd": "./setup.sh",
    "hooks": {
        "guard": "verif",
        "enable": "go build -tags verif (harness: /verif/go with replace ariga.io/atlas => /repo; CLI: /repo/cmd/atlas)",
        "baseline_off_cmd": baseline,
        "source_commits": hook_commits,
        "add_only": True,
    },
    "engines": [
        {"name": "lean4-proof+correspondence", "path": "/verif/lean (model Atlas/, lemmas Lemmas/, theorems Props/, driver Main.lean) + /verif/go (harness) + /verif/check",
         "serves_properties": [c["property_id"] for c in checks],
         "kind_free_text": "Lean 4 kernel-checked theorems about hand-written executable models; models tied to /repo on every run by a Go differential harness (same inputs to implementation and compiled model) and by tables regenerated from the Go source; executable property monitors search for concrete failing inputs"},
    ],
    "checks": checks,
    "not_applicable": na,
    "notes": "See DESIGN.md. Known findings: known_findings.jsonl. Replays: replay/<id>/.",
}
json.dump(man, open(os.path.join(ROOT, "MANIFEST.json"), "w"), indent=1)
try:
    import jsonschema
    jsonschema.validate(man, json.load(open("/root/.vp/MANIFEST.schema.json")))
    print("MANIFEST.json valid;", len(checks), "checks,", len(na), "not claimed")
except ImportError:
    print("written (jsonschema not importable here)")
