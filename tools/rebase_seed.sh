#!/bin/sh
# usage: tools/rebase_seed.sh <patch.diff>  -- re-creates the patch against the current /repo HEAD (3-way), in a scratch worktree
set -e
p="$1"
wt=/tmp/rebase.$$
git -C /repo worktree add -q --detach "$wt" HEAD
cd "$wt"
git apply --3way "$p" >/dev/null 2>&1 || { echo "3-way apply failed"; git -C /repo worktree remove --force "$wt"; exit 1; }
git diff HEAD > "$p.new"
cd /; git -C /repo worktree remove --force "$wt"
mv "$p.new" "$p"; echo rebased
