#!/bin/sh
# runs every stored seeded change through its property's quick check; prints one line per seed
cd /verif
for d in seeded/*; do
  id=$(basename $d); prop=${id%-*}
  if ! git -C /repo apply --check /verif/$d/patch.diff 2>/dev/null; then echo "$id DOES-NOT-APPLY"; continue; fi
  out=$(tools/seedtest.sh /verif/$d/patch.diff $prop 2>&1)
  rc=$(echo "$out" | grep -o 'rc=[0-9]*' | head -1)
  sigs=$(echo "$out" | tr -d '\r' | grep -ao '^VIOLATION property=[^ ]* replay=[^ ]* \[[^]]*\]' | sed 's/.*\[//; s/\]$//' | sort | uniq -c | sort -rn | head -3 | awk '{print $2" x"$1}' | tr '\n' ' ')
  echo "$id $rc $sigs"
done
